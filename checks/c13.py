"""C13 — piecewise-linear approximations stay within the requested tolerance (claimed PARTIAL).

Stages:
  1. proof obligations (lean/MpVerif/C13/Props.lean, prefix C13_) + axiom audit
  2. harness built from $MP_REPO in two variants:
       h_pl        links the mp library objects, calls the exported mp::PLApproximate<Con>
       h_pl_trace  #includes src/mp/flat/piecewise_linear.cpp and runs the same Run() on a subclass of the real
                   PLApproximator<Con> that logs every oracle call (tabulated function record)
     both must produce identical outputs (tracing does not perturb the code under test)
  3. correspondence: the Lean skeleton (drv_c13, IEEE instance) driven by the tabulated oracles must reproduce
     status, reported domain, period fields and every breakpoint bit for bit; the model's rounding functions are
     compared with the hardware on a stream of arithmetic cases
  4. verified validators (checkPL / checkEnds, proved sound in Props.lean) run on every output of the real code
  5. exploration oracle (NOT a proof): dense sampling + golden-section search of |f - PL| / tol in long double
"""
import os, subprocess, json, re, sys, struct
from fractions import Fraction
from common import *

NFN = ['exp', 'log', 'expa', 'loga', 'pow', 'sin', 'cos', 'tan', 'asin', 'acos', 'atan', 'sinh', 'cosh', 'tanh',
       'asinh', 'acosh', 'atanh']


def h2f(h):
    return struct.unpack('>d', bytes.fromhex(h))[0]


def fr(h):
    v = h2f(h)
    if v != v or v in (float('inf'), float('-inf')):
        return repr(v)
    f = Fraction(v)
    return '%d/%d' % (f.numerator, f.denominator)


def tofloat32(v):
    try:
        return struct.unpack('f', struct.pack('f', v))[0]
    except OverflowError:
        return float('inf') if v > 0 else float('-inf')


def parse(path):
    C, R, T, O, E, A = {}, {}, {}, {}, {}, []
    global FORM
    FORM = {'F': [], 'FS': []}
    with open(path) as f:
        for l in f:
            p = l.split()
            if not p:
                continue
            k = p[0]
            if k == 'A':
                A.append(p)
            elif k == 'C':
                C[int(p[1])] = p
            elif k == 'R':
                R[int(p[1])] = p
            elif k == 'T':
                T[int(p[1])] = p
            elif k == 'O':
                O[int(p[1])] = p
            elif k == 'E':
                E[int(p[1])] = p
            elif k in ('F', 'FS'):
                FORM[k].append(p)
    return C, R, T, O, E, A


def describe(c):
    return {'fn': c[2], 'param': h2f(c[3]), 'lbx': h2f(c[4]), 'ubx': h2f(c[5]), 'lby': h2f(c[6]), 'uby': h2f(c[7]),
            'is_x_int': int(c[8]), 'ubErr': h2f(c[9]), 'hex': c[3:8] + [c[9]], 'id': int(c[1])}


def valid_param(c):
    fn, prm = c[2], h2f(c[3])
    if fn in ('expa', 'loga'):
        return prm > 0 and prm != 1.0
    return True


def build(ck):
    flags = ['-O1', '-g', '-DNDEBUG']
    objs = ck.libmp_objects(flags=tuple(flags))
    src = os.path.join(VERIF, 'harness', 'h_pl.cc')
    o1 = ck.objects([src], flags=flags, tag='c13lib')
    exe_lib = ck.link('h_pl', o1 + objs)
    o2 = ck.objects([src], flags=flags + ['-DPL_TRACE'], tag='c13tr')
    exe_tr = ck.link('h_pl_trace', o2 + [o for o in objs if 'piecewise_linear' not in os.path.basename(o)])
    return exe_lib, exe_tr


def build_cvt(ck, flags=('-O1', '-g', '-DNDEBUG')):
    flags = list(flags)
    objs = ck.libmp_objects(flags=tuple(flags))
    src = os.path.join(VERIF, 'harness', 'h_plcvt.cc')
    return ck.link('h_plcvt', ck.objects([src], flags=flags, tag='c13cvt') + objs)


NL_TEMPLATE = """g3 1 1 0	# problem
 1 0 1 0 0	# vars, constraints, objectives, ranges, eqns
 0 1	# nonlinear constraints, objectives
 0 0	# network constraints: nonlinear, linear
 0 1 0	# nonlinear vars in constraints, objectives, both
 0 0 0 1	# linear network variables; functions; arith, flags
 0 0 0 0 0	# discrete variables: binary, integer, nonlinear (b,c,o)
 0 1	# nonzeros in Jacobian, gradients
 0 0	# max name lengths: constraints, variables
 0 0 0 0 0	# common exprs: b,c,o,c1,o1
O0 0
o%d
v0
b
0 %r %r
k0
G0 1
0 -3
"""


def options_stage(ck):
    """the option plumbing cvt:plapprox:reltol / cvt:plapprox:domain -> PLApproximate, through the real MIPFlatConverter
    (harness/recsolver, every constraint type accepted except the function itself): the PLConstraint DELIVERED to the
    ModelAPI must be within the REQUESTED tolerance on the REQUESTED domain (intersected with the variable bounds)"""
    import math
    import recsolver as Rr
    exe = Rr.build(ck)
    wdir = os.path.join(BUILD, 'c13opt')
    os.makedirs(wdir, exist_ok=True)
    funcs = [('exp', 44, math.exp, -3.0, 8.0), ('log', 43, math.log, 0.5, 60.0), ('atan', 49, math.atan, -30.0, 30.0),
             ('sinh', 40, math.sinh, -4.0, 6.0), ('tanh', 37, math.tanh, -4.0, 5.0), ('asinh', 50, math.asinh, -40.0, 25.0)]
    fams = [('default', [], 1e-2, 1e6), ('reltol', ['cvt:plapprox:reltol=0.001'], 1e-3, 1e6),
            ('domain', ['cvt:plapprox:domain=10'], 1e-2, 10.0),
            ('reltol-then-domain', ['cvt:plapprox:reltol=0.001', 'cvt:plapprox:domain=10'], 1e-3, 10.0),
            ('domain-then-reltol', ['cvt:plapprox:domain=10', 'cvt:plapprox:reltol=0.001'], 1e-3, 10.0),
            ('alias', ['plapprox:domain=5', 'plapproxreltol=0.05'], 5e-2, 5.0)]
    if ck.tier == 'thorough':
        fams += [('domain-2', ['plapproxdomain=2.5'], 1e-2, 2.5), ('reltol-1e-4', ['plapprox:reltol=0.0001'], 1e-4, 1e6)]
    n = 0
    hist = {}
    for fn, opc, f, lb, ub in funcs:
        stub = os.path.join(wdir, fn)
        open(stub + '.nl', 'w').write(NL_TEMPLATE % (opc, lb, ub))
        for fam, opts, tol, dom in fams:
            r = Rr.run(exe, stub, options=['acc:%s=0' % fn] + opts, accept='ALL', timeout=120)
            case = {'function': fn, 'x_bounds': [lb, ub], 'options': opts, 'requested_tolerance': tol, 'requested_domain': dom,
                    'how': 'RECSOLVER_ACCEPT=ALL %s %s -AMPL acc:%s=0 %s' % (exe, stub, fn, ' '.join(opts))}
            pls = [e for e in r['log'] if e.get('ev') == 'con' and e.get('type') == 'PLConstraint']
            vs = [e for e in r['log'] if e.get('ev') == 'vars']
            if r['rc'] != 0 or len(pls) != 1 or not vs:
                ck.add_violation('options:%s:no-plconstraint' % fam, '%s with %s: the driver delivered %d PLConstraints (rc %s): %s' % (fn, opts, len(pls), r['rc'], (r['err'] or '')[-200:]), case)
                continue
            n += 1
            X = [float(Rr.num(t)) for t in pls[0]['data']['params']['x']]
            Y = [float(Rr.num(t)) for t in pls[0]['data']['params']['y']]
            arg = pls[0]['data']['args'][0]
            xl, xu = float(Rr.num(vs[0]['lb'][arg])), float(Rr.num(vs[0]['ub'][arg]))
            sig = None
            # (a) the requested domain is applied: final bounds of x and all PL values within +-domain (float slack)
            sl = 1e-6 * max(1.0, dom)
            if xl < -dom - sl or xu > dom + sl or min(X) < -dom - sl or max(X) > dom + sl or min(Y) < -dom * (1 + 2 * tol) - sl or max(Y) > dom * (1 + 2 * tol) + sl:
                sig = ('domain-not-applied', 'final bounds of x [%r, %r], PL x-range [%r, %r], y-range [%r, %r] exceed the requested +-%r' % (xl, xu, min(X), max(X), min(Y), max(Y), dom))
            # (b) the requested tolerance on the final domain of x (known merge-rule classes excluded by segment width)
            worst, wx, ww = 0.0, None, 0.0
            N = 4000
            for k in range(N + 1):
                x = xl + (xu - xl) * k / N
                j = 0
                while j + 2 < len(X) and x > X[j + 1]:
                    j += 1
                y = Y[0] if len(X) == 1 else Y[j] + (Y[j + 1] - Y[j]) * (x - X[j]) / (X[j + 1] - X[j])
                fv = f(x)
                e = abs(fv - y) / (abs(fv) if abs(fv) > 1 else 1.0) / tol
                if e > worst:
                    worst, wx, ww = e, x, (X[j + 1] - X[j]) if len(X) > 1 else 0.0
            if worst > 1.02 and sig is None:
                outside = wx < X[0] or wx > X[-1]
                cls = 'outside-breakpoints' if outside and min(abs(wx - X[0]), abs(wx - X[-1])) <= 2e-4 + 1e-6 * abs(wx) else ('min-spacing' if (ww <= 1e-3 and not outside) else 'requested-tolerance-exceeded')
                if cls == 'requested-tolerance-exceeded':
                    sig = (cls, '|f - PL| is %.4g x the REQUESTED tolerance %r at x=%r (%d breakpoints on [%r, %r])' % (worst, tol, wx, len(X), X[0], X[-1]))
                else:
                    hist['known:' + cls] = hist.get('known:' + cls, 0) + 1
                    ck.add_violation('tol:%s:%s' % (fn, cls), 'through the driver with %s: %.4g x tolerance at x=%r' % (opts, worst, wx), case)
            hist[fam] = hist.get(fam, 0) + 1
            if sig:
                ck.add_violation('options:%s:%s' % (fam, sig[0]), '%s on x in [%r, %r] with options %s: the PLConstraint delivered to the ModelAPI: %s' % (fn, lb, ub, opts or '(defaults)', sig[1]), case)
    if n < len(funcs) * 5:
        ck.add_violation('options-stage-missing', 'only %d PLConstraints observed through the driver' % n, {}, found_input=False)
    ck.cov['options_stage'] = {'plconstraints_observed_at_the_model_api': n, 'by_option_family': hist}
    return n


def converter_stage(ck):
    """the real FuncConConverter_MIP / PowConstExponentConverter_MIP / PLConverter_MIP on a recording model converter"""
    exe = build_cvt(ck)
    outp = os.path.join(BUILD, 'c13.cvt.out')
    rc, err = run_exe(exe, [ck.tier, ck.seed], outp, timeout=300 if ck.tier == 'quick' else 900)
    if rc != 0:
        ck.add_violation('harness-crashed:plcvt', 'converter-level harness exited with %d: %s' % (rc, err), {'cmd': '%s %s %d' % (exe, ck.tier, ck.seed)}, found_input=False)
    HC, n_hr, n_exact, cls_hist, nq = {}, 0, 0, {}, 0
    for l in open(outp):
        p = l.split()
        if not p:
            continue
        if p[0] == 'HC':
            HC[p[1]] = l.strip()
        elif p[0] == 'HQ':
            nq += 1
            if p[-1] != 'ok':
                ck.add_violation('powconv:decomposition', 'PowConstExponentConverter_MIP: %s' % l.strip(), {'line': l.strip(), 'how': '%s %s %d' % (exe, ck.tier, ck.seed)})
        elif p[0] == 'HR':
            n_hr += 1
            cid, fn, st = p[1], p[2], p[3]
            case = HC.get(cid, 'direct PLConstraint case %s' % cid)
            rp = {'case': case, 'result': l.strip(), 'how': 'build/bin/h_plcvt-* %s %d  (line HR %s)' % (ck.tier, ck.seed, cid)}
            if st != 'ok':
                ck.add_violation('cvt-error:%s:%s' % (fn, st), 'converter raised on: %s' % case, rp)
                continue
            kv = dict(x.split('=', 1) for x in p[4:] if '=' in x)
            if kv.get('exact') != 'ok':
                ck.add_violation('sos2:%s' % kv.get('exact'), 'PLConstraint -> SOS2 (PLConverter_MIP): the encoded function differs from the PL function (%s) for %s; case: %s'
                                 % (kv.get('exact'), fn, case), rp)
            else:
                n_exact += 1
            c = kv.get('cls', 'within')
            cls_hist[c] = cls_hist.get(c, 0) + 1
            if c != 'within':
                ck.add_violation('tol:%s:%s' % (fn, c), 'through the converter (%s): |f - encoded PL| is %s x the tolerance at x=%s (f=%s, encoded=%s, segment width %s); final argument bounds %s'
                                 % (case, kv.get('ratio'), kv.get('x'), kv.get('f'), kv.get('enc'), kv.get('w'), [x for x in p if x.startswith('arg[')]), rp)
    if n_hr < 100 or nq < 20:
        ck.add_violation('plcvt-stage-missing', 'converter-level stage produced only %d results / %d power cases' % (n_hr, nq), {}, found_input=False)
    ck.cov['converter_stage'] = {'cases': len(HC), 'pl_to_sos2_results': n_hr, 'encodings_exactly_equal_to_pl': n_exact,
                                 'tolerance_classes': cls_hist, 'power_converter_cases': nq}
    return n_hr


def run_exe(exe, args, outp, env=None, timeout=400):
    e = dict(os.environ)
    if env:
        e.update(env)
    with open(outp, 'w') as f:
        try:
            p = subprocess.run([exe] + [str(a) for a in args], stdout=f, stderr=subprocess.PIPE, text=True, env=e, timeout=timeout)
        except subprocess.TimeoutExpired:
            return 124, 'harness timed out after %d s (the generator under test does not finish the case list)' % timeout
    return p.returncode, p.stderr[-1500:]


def replay_cmd(ck, cid):
    return 'cd %s && ./check C13 --tier %s  # VERIF_SEED=%d; case id %d: build/bin/h_pl-* %s %d %d prints its C/O/E lines' % (
        VERIF, ck.tier, ck.seed, cid, ck.tier, ck.seed, cid)


def oracle_sig(c, e):
    """signature of an exploration-oracle excess; e = E line"""
    cls = e[-1]
    if cls == 'min-spacing' or cls == 'step-control':
        w = float(e[7])
        cls = 'min-spacing' if w <= 1e-3 else 'step-control'
    return 'tol:%s:%s' % (c[2], cls)


ANCHORS = ['src/mp/flat/piecewise_linear.cpp', 'include/mp/flat/redef/MIP/core/lin_approx_core.h',
           'include/mp/flat/redef/MIP/lin_approx.h', 'include/mp/flat/redef/MIP/power_const.h',
           'include/mp/flat/redef/MIP/piecewise_linear.h', 'include/mp/flat/constr_general.h',
           'include/mp/flat/constr_functional.h']


def coverage_mode(ck):
    """VERIF_COVERAGE=1: gcov line/branch coverage of the anchored files under the quick-tier input stream"""
    from concurrent.futures import ThreadPoolExecutor
    import shutil
    cov = os.path.join(BUILD, 'cov')
    shutil.rmtree(cov, ignore_errors=True)
    os.makedirs(cov)
    inc = ['-I' + os.path.join(REPO, 'include'), '-I' + os.path.join(REPO, 'src'), '-I' + os.path.join(VERIF, 'harness')]
    defs = ['-DMP_DATE=20240320', '-DMP_SYSINFO="Linux x86_64"', '-DMP_USE_ATOMIC', '-DMP_USE_HASH', '-DMP_USE_UNIQUE_PTR', '-DAMPL_MP_VERIF', '-DNDEBUG']
    base = ['g++', '-std=c++17', '-w', '-O0', '-g', '--coverage'] + defs + inc
    tus = [(os.path.join(REPO, s_), 'mp_' + os.path.basename(s_).replace('.', '_'), []) for s_ in ck.LIBMP_SRC]
    hp = os.path.join(VERIF, 'harness', 'h_pl.cc')
    tus += [(hp, 'h_pl_lib', []), (hp, 'h_pl_trace', ['-DPL_TRACE']), (os.path.join(VERIF, 'harness', 'h_plcvt.cc'), 'h_plcvt', [])]

    def comp(t):
        src, name, extra = t
        rc, out, err = sh(base + extra + ['-c', src, '-o', os.path.join(cov, name + '.o')], timeout=3000)
        if rc != 0:
            raise RuntimeError(err[-2000:])
        return os.path.join(cov, name + '.o')
    with ThreadPoolExecutor(max_workers=12) as ex:
        objs = list(ex.map(comp, tus))
    lib = [o for o in objs if os.path.basename(o).startswith('mp_')]

    def link(name, mine, libobjs):
        exe = os.path.join(cov, name)
        rc, out, err = sh(['g++', '--coverage'] + mine + libobjs + ['-o', exe, '-ldl'], timeout=1800)
        if rc != 0:
            raise RuntimeError(err[-2000:])
        return exe
    e1 = link('x_lib', [os.path.join(cov, 'h_pl_lib.o')], lib)
    e2 = link('x_trace', [os.path.join(cov, 'h_pl_trace.o')], [o for o in lib if 'piecewise_linear' not in o])
    e3 = link('x_cvt', [os.path.join(cov, 'h_plcvt.o')], lib)
    for e, extra in ((e1, {}), (e2, {'PL_TRACE_CAP': '8000', 'PL_TRACE_TOTAL': '500000'}), (e3, {})):
        run_exe(e, ['quick', ck.seed], os.path.join(cov, os.path.basename(e) + '.out'), env=extra, timeout=1500)
    # gcov on the TUs that contain the anchored code
    gdir = os.path.join(cov, 'gcov')
    os.makedirs(gdir)
    lines, branches, funcs, text = {}, {}, {}, {}
    for name in (('mp_piecewise_linear_cpp', 'h_pl_trace', 'h_pl_lib') if os.environ.get('C13_COV_BEFORE') else ('mp_piecewise_linear_cpp', 'h_pl_trace', 'h_plcvt', 'h_pl_lib')):
        d = os.path.join(gdir, name)
        os.makedirs(d)
        sh(['gcov-12', '-b', '-c', '-p', '-o', cov, os.path.join(cov, name + '.o')], cwd=d, timeout=600)
        for fn_ in os.listdir(d):
            cur = None
            for a in ANCHORS:
                if fn_.endswith(a.replace('/', '#') + '.gcov'):
                    cur = a
            if not cur:
                continue
            lno = 0
            for l in open(os.path.join(d, fn_), errors='replace'):
                m = re.match(r'\s*([0-9]+\*?|#####|=====|-):\s*([0-9]+):(.*)', l)
                if m:
                    lno = int(m.group(2))
                    if lno == 0:
                        continue
                    text[(cur, lno)] = m.group(3)
                    if m.group(1) != '-':
                        hit = m.group(1)[0].isdigit() and int(m.group(1).rstrip('*')) > 0
                        lines[(cur, lno)] = lines.get((cur, lno), False) or hit
                    continue
                m = re.match(r'branch\s+([0-9]+) (taken ([0-9]+)|never executed)', l)
                if m and lno:
                    k = (cur, lno, int(m.group(1)))
                    hit = bool(m.group(3)) and int(m.group(3)) > 0
                    branches[k] = branches.get(k, False) or hit
                    continue
                m = re.match(r'function (\S+) called ([0-9]+)', l)
                if m:
                    funcs[(cur, m.group(1))] = funcs.get((cur, m.group(1)), 0) + int(m.group(2))
    # demangle + aggregate template instantiations by method name
    names = sorted({f for (_, f) in funcs})
    rc, dem, _ = sh(['c++filt'], input='\n'.join(names) + '\n')
    dmap = dict(zip(names, dem.split('\n')))

    def short(n):
        n = re.sub(r'\(.*$', '', dmap.get(n, n))
        n = re.sub(r'<[^<>]*(<[^<>]*>[^<>]*)*>', '<>', n)
        return n
    agg = {}
    for (a, f), c in funcs.items():
        k = (a, short(f))
        agg[k] = agg.get(k, 0) + c
    res = {'files': {}, 'seed': ck.seed}
    md = ['# C13 coverage of the anchored code under the quick-tier input stream (VERIF_COVERAGE=1)', '',
          'TUs measured: libmp `piecewise_linear.cpp` object (through `mp::PLApproximate`), `h_pl.cc -DPL_TRACE` (textual include of',
          '`piecewise_linear.cpp`: tracing subclass + synthetic records), `h_plcvt.cc` (instantiates the header-only converters).',
          'A line / branch counts as covered if any of these TUs executed it. `-O0 --coverage`, gcov-12 `-b -c`.', '',
          '| file | lines | line cov | branches | branch cov |', '|---|---|---|---|---|']
    tl = tb = hl = hb = 0
    for a in ANCHORS:
        ls = [v for (f, _), v in lines.items() if f == a]
        bs = [v for (f, _, _), v in branches.items() if f == a]
        res['files'][a] = {'lines': len(ls), 'lines_hit': sum(ls), 'branches': len(bs), 'branches_hit': sum(bs)}
        if a != 'include/mp/flat/constr_general.h' and a != 'include/mp/flat/constr_functional.h':
            tl += len(ls); hl += sum(ls); tb += len(bs); hb += sum(bs)
        md.append('| %s | %d | %s | %d | %s |' % (a, len(ls), ('%.1f%%' % (100.0 * sum(ls) / len(ls))) if ls else 'n/a (no code instantiated)', len(bs),
                                                 ('%.1f%%' % (100.0 * sum(bs) / len(bs))) if bs else 'n/a'))
    res['anchor_line_cov'] = round(100.0 * hl / max(tl, 1), 1)
    res['anchor_branch_cov'] = round(100.0 * hb / max(tb, 1), 1)
    md += ['', 'Mechanism files (piecewise_linear.cpp, lin_approx*.h, power_const.h, piecewise_linear.h) together: line %.1f%%, branch %.1f%%.'
           % (res['anchor_line_cov'], res['anchor_branch_cov']), '', '## functions never called (template instantiations aggregated)', '']
    for (a, f), c in sorted(agg.items()):
        if c == 0 and a not in ('include/mp/flat/constr_general.h', 'include/mp/flat/constr_functional.h'):
            md.append('* `%s` — %s' % (f, a))
    md += ['', '## uncovered executable lines', '']
    for (a, ln), v in sorted(lines.items()):
        if not v and a not in ('include/mp/flat/constr_general.h', 'include/mp/flat/constr_functional.h'):
            md.append('* %s:%d `%s`' % (os.path.basename(a), ln, text.get((a, ln), '').strip()[:110]))
    md += ['', '## uncovered branches (line, gcov branch index)', '']
    byline = {}
    for (a, ln, b), v in sorted(branches.items()):
        if not v and a not in ('include/mp/flat/constr_general.h',):
            byline.setdefault((a, ln), []).append(b)
    for (a, ln), bl in sorted(byline.items()):
        md.append('* %s:%d [%s] `%s`' % (os.path.basename(a), ln, ','.join(map(str, bl)), text.get((a, ln), '').strip()[:100]))
    os.makedirs(os.path.join(VERIF, 'design_notes', 'coverage'), exist_ok=True)
    sfx = '.before' if os.environ.get('C13_COV_BEFORE') else ''
    open(os.path.join(VERIF, 'design_notes', 'coverage', 'C13%s.raw.md' % sfx), 'w').write('\n'.join(md) + '\n')
    json.dump(res, open(os.path.join(VERIF, 'design_notes', 'coverage', 'C13%s.json' % sfx), 'w'), indent=1)
    ck.log('coverage: anchors line %.1f%% branch %.1f%% -> design_notes/coverage/C13.raw.md' % (res['anchor_line_cov'], res['anchor_branch_cov']))
    ck.cov.update({'obligations': 0, 'discharged': 0, 'checker_cmd': 'coverage mode', 'coverage_mode': res})


def run(ck):
    if os.environ.get('VERIF_COVERAGE') == '1':
        return coverage_mode(ck)
    ck.level = 'proof'
    # translator: regenerate the Lean definitions of the decision / arithmetic functions from the CURRENT tree
    gen = os.path.join(LEAN, 'MpVerif', 'Gen', 'C13Gen.lean')
    rc, out, err = sh([sys.executable, os.path.join(VERIF, 'translators', 'gen_c13.py'), REPO, gen], timeout=600)
    ck.log((out.strip() or err.strip())[-300:])
    translator_ok = rc == 0
    proof_ok, failing = ck.proof_stage('MpVerif.C13.Props', 'MpVerif/C13/Props.lean', 'C13_',
                                        ['MpVerif/C13/*.lean', 'MpVerif/Gen/C13Gen.lean'], expect_min=15)
    if not translator_ok:
        failing.append('translator gen_c13.py: ' + (out + err).strip()[-300:])
        proof_ok = False
    ck.log('proof stage: ok=%s failing=%s' % (proof_ok, failing[:8]))
    # proof-only modules that need Mathlib (not imported by the driver): the chord-error lemma over the reals, and
    # monotonicity / idempotence of the model's concrete rounding functions => C13_increasing for the IEEE instance
    extra_thms = []
    for mod, nmin in (('MpVerif.C13.PropsGen', 23), ('MpVerif.C13.PropsIEEE', 8), ('MpVerif.C13.Chord', 5), ('MpVerif.C13.ChordRun', 5), ('MpVerif.C13.ChordApprox', 4)):
        okm, outm = ck.lake([mod])
        if not okm:
            bad_decls = ck.failing_decls(outm, mod.replace('.', '/') + '.lean')
            failing.append('%s does not build: %s %s' % (mod, bad_decls[:8], '' if bad_decls else outm[-300:]))
            proof_ok = False
            ck.cov['obligations'] = ck.cov.get('obligations', 0) + nmin
            continue
        aok, th, _ = ck.prop_theorems(mod, 'C13_')
        badax = [(n, [a for a in ax if a not in ALLOWED_AXIOMS]) for n, ax in th]
        badax = [x for x in badax if x[1]]
        ck.cov['obligations'] = ck.cov.get('obligations', 0) + max(len(th), nmin)
        if not aok or len(th) < nmin or badax:
            failing.append('%s: audit (%d theorems, expected >= %d, bad axioms %s)' % (mod, len(th), nmin, badax[:3]))
            proof_ok = False
        else:
            ck.cov['discharged'] = ck.cov.get('discharged', 0) + len(th)
            extra_thms += [n for n, _ in th]
    ck.cov['theorems'] = ck.cov.get('theorems', []) + extra_thms
    ck.cov['checker_cmd'] = ck.cov.get('checker_cmd', '') + ' ; same for MpVerif.C13.PropsGen (definitions regenerated by translators/gen_c13.py), MpVerif.C13.PropsIEEE, MpVerif.C13.Chord, MpVerif.C13.ChordRun and MpVerif.C13.ChordApprox'
    if ck.tier == 'thorough' and proof_ok:
        bad = ck.leanchecker(['MpVerif.C13.Props', 'MpVerif.C13.PropsGen', 'MpVerif.C13.PropsIEEE', 'MpVerif.C13.Chord', 'MpVerif.C13.ChordRun', 'MpVerif.C13.ChordApprox'])
        if bad:
            failing += ['leanchecker rejected %s' % m for m in bad]
            proof_ok = False

    exe_lib, exe_tr = build(ck)
    lib_out = os.path.join(BUILD, 'c13.lib.out')
    tr_out = os.path.join(BUILD, 'c13.trace.out')
    tmo = 400 if ck.tier == 'quick' else 1500
    rc1, err1 = run_exe(exe_lib, [ck.tier, ck.seed], lib_out, timeout=tmo)
    cap = {'PL_TRACE_CAP': '8000' if ck.tier == 'quick' else '20000',
           'PL_TRACE_TOTAL': '500000' if ck.tier == 'quick' else '4000000'}
    rc2, err2 = run_exe(exe_tr, [ck.tier, ck.seed], tr_out, env=cap, timeout=tmo)
    if rc1 != 0 or rc2 != 0:
        ck.add_violation('harness-crashed', 'harness exited with %d/%d: %s %s' % (rc1, rc2, err1, err2),
                         {'cmd': '%s %s %d' % (exe_lib, ck.tier, ck.seed)}, found_input=False)
    C, _, _, O, E, _ = parse(lib_out)
    Ct, R, T, Ot, _, A = parse(tr_out)
    form = FORM
    ck.log('real code: %d cases through mp::PLApproximate, %d through the tracing subclass (%d synthetic records), %d arithmetic cases'
           % (len(O), len(Ot), len(Ot) - len(O), len(A)))

    # ---- the tracing variant must not perturb the code under test
    perturbed = [i for i in O if Ot.get(i) != O[i]]
    if perturbed:
        i = perturbed[0]
        ck.add_violation('trace-variant-differs', 'case %d: output of the tracing subclass differs from mp::PLApproximate' % i,
                         {'case': describe(C[i]), 'lib': ' '.join(O[i][:16]), 'trace': ' '.join(Ot.get(i, [])[:16])}, found_input=False)

    # ---- model side
    drv = None
    try:
        drv = ck.driver('drv_c13')
    except Exception as ex:
        failing.append('model driver: %r' % (ex,))
        proof_ok = False
    ops, exp, ids = [], [], []
    for a in A:
        ops.append('arith %s %s %s' % (a[1], a[2], a[3]))
        exp.append(fr(a[4]))
        ids.append(('A', a))
    skipped_big = 0
    for i, c in Ct.items():
        if i not in R or i not in T:
            continue
        if int(T[i][2]) < 0:
            skipped_big += 1
            continue
        o = Ot[i]
        ops.append(' '.join(['run', c[8], c[9], c[4], c[5], c[6], c[7]] + R[i][2:] + T[i][2:]))
        if o[2] == 'ok':
            n = int(o[13])
            exp.append(' '.join(['ok'] + [fr(x) for x in o[3:7]] + [o[7]] + [fr(x) for x in o[8:13]] + [o[13]] +
                                [fr(x) for x in o[14:14 + 2 * n]]))
        else:
            exp.append(o[2])
        ids.append(('C', i))
    # validators on every ok output of the library entry point
    for i, o in O.items():
        if o[2] != 'ok':
            continue
        n = int(o[13])
        vals = o[14:14 + 2 * n]
        if any(h2f(x) != h2f(x) or abs(h2f(x)) == float('inf') for x in vals):
            continue
        per = o[7] == '1'
        lo, hi = (o[11], o[12]) if per else (o[3], o[4])
        ops.append(' '.join(['val', lo, hi, str(n)] + vals))
        exp.append(None)
        ids.append(('V', i))
    model_out = []
    if drv:
        opsf = os.path.join(BUILD, 'c13.ops.txt')
        open(opsf, 'w').write('\n'.join(ops) + '\n')
        mo = os.path.join(BUILD, 'c13.model.out')
        with open(opsf) as fi, open(mo, 'w') as fo:
            try:
                subprocess.run([drv], stdin=fi, stdout=fo, check=False, timeout=900 if ck.tier == 'quick' else 2400)
            except subprocess.TimeoutExpired:
                ck.add_violation('model-timeout', 'the Lean skeleton did not finish replaying the traces (the generator loops no longer make progress on the recorded oracles)', {'ops': opsf}, found_input=False)
        model_out = open(mo).read().split('\n')
    agree = {}
    corr_bad = []
    arith_bad = []
    val = {}
    nonfinite_skip = 0
    for k, (kind, ref) in enumerate(ids):
        g = model_out[k] if k < len(model_out) else '(no output)'
        if kind == 'A':
            if g != exp[k]:
                arith_bad.append((ref, exp[k], g))
            else:
                agree['arith'] = agree.get('arith', 0) + 1
        elif kind == 'C':
            if g == 'nonfinite':
                nonfinite_skip += 1
            elif g != exp[k]:
                corr_bad.append((ref, exp[k], g))
            else:
                s = exp[k].split(' ')[0]
                agree[s] = agree.get(s, 0) + 1
        else:
            val[ref] = g
    ck.log('correspondence: agree=%s disagree=%d (arith %d) not-replayed: %d too-large traces, %d non-finite' %
           (agree, len(corr_bad), len(arith_bad), skipped_big, nonfinite_skip))

    # ---- verdicts -----------------------------------------------------------------------------------------
    oracle_bad = {}   # case id -> sig   (property oracle fails on the real code)
    hist_cls = {}
    hist_status = {}
    worst = {}
    for i, o in O.items():
        c = C[i]
        fn = c[2]
        hist_status[o[2]] = hist_status.get(o[2], 0) + 1
        d = describe(c)
        if o[2] == 'ok':
            continue
        if o[2] in ('infeas', 'accrange', 'uberr'):
            continue        # explicit, documented refusals
        if o[2] == 'oor':
            collapse = tofloat32(max(d['lbx'], -1e38)) == tofloat32(min(d['ubx'], 1e38)) or True
            sig = 'exception:out_of_range:float-collapse'
            oracle_bad[i] = sig
            ck.add_violation(sig, '%s on [%r, %r]: std::out_of_range escapes from PLApproximate (breakpoints collapse to one float; ub_sub() = breakpoints_.at(1))'
                             % (fn, d['lbx'], d['ubx']), {'case': d, 'replay': replay_cmd(ck, i)})
        elif o[2] == 'hang':
            sig = 'degenerate-exponent:pow:hang' if (fn == 'pow' and d['param'] == 0.0) else 'hang:%s' % fn
            oracle_bad[i] = sig
            ck.add_violation(sig, '%s param %r on [%r, %r]: the generator does not terminate (watchdog)' % (fn, d['param'], d['lbx'], d['ubx']),
                             {'case': d, 'replay': replay_cmd(ck, i)})
        else:
            if valid_param(c):
                sig = 'error:%s:%s' % (o[2], fn)
                if fn == 'pow' and d['param'] in (0.0, 1.0) and o[2] == 'degenerate':
                    sig = 'degenerate-exponent:pow:error'
                oracle_bad[i] = sig
                ck.add_violation(sig, '%s on [%r, %r] tol %r: internal assertion "%s" raised' % (fn, d['lbx'], d['ubx'], d['ubErr'], o[2]),
                                 {'case': d, 'replay': replay_cmd(ck, i)})
    n_val = 0
    for i, o in O.items():
        if o[2] != 'ok':
            continue
        c = C[i]
        fn = c[2]
        d = describe(c)
        n = int(o[13])
        xs = [h2f(x) for x in o[14:14 + n]]
        per = o[7] == '1'
        v = val.get(i)
        if v is not None:
            n_val += 1
        if n == 0:
            lo, hi = h2f(o[3]), h2f(o[4])
            import math
            no_int = d['is_x_int'] and math.ceil(lo) > math.floor(hi)
            sig = 'empty-pl:%s' % ('integer-argument-without-integer-in-domain' if no_int else 'other')
            if d['is_x_int'] and math.floor(hi) - math.ceil(lo) + 1 >= 2 ** 31:
                sig = 'undefined-behaviour:int-cast-overflow'
            oracle_bad[i] = sig
            ck.add_violation(sig, '%s on [%r, %r] integer=%d: PLApproximate returns an empty point list' % (fn, d['lbx'], d['ubx'], d['is_x_int']),
                             {'case': d, 'replay': replay_cmd(ck, i)})
            continue
        if v is not None and 'checkPL=true' not in v:
            sig = 'structure:%s:not-strictly-increasing-or-length' % fn
            oracle_bad[i] = sig
            ck.add_violation(sig, '%s on [%r, %r]: verified validator checkPL rejects the output (%s): breakpoints %r' % (fn, d['lbx'], d['ubx'], v, xs[:8]),
                             {'case': d, 'validator': v, 'xs': xs[:50], 'replay': replay_cmd(ck, i)})
        # end points (C13: "start and end at the reported domain")
        if v is not None and 'ends=true' not in v and not (d['is_x_int'] and not per):
            lo, hi = (h2f(o[11]), h2f(o[12])) if per else (h2f(o[3]), h2f(o[4]))
            kinds = []
            if n == 1 and not per:
                # designed single point for a domain narrower than 1e-6; otherwise the end point was merged away
                if hi - lo > 1.0000001e-6:
                    kinds.append('single-point-by-merge-rule')
            elif xs[0] != lo:
                kinds.append('first-float-rounded' if xs[0] == tofloat32(lo) else 'first-other')
            if n > 1 and xs[-1] != hi:
                if xs[-1] < hi and (hi - xs[-1] <= 1.0001e-4 or xs[-1] == tofloat32(hi) or (n >= 2 and tofloat32(hi) - xs[-1] <= 1.0001e-4)):
                    kinds.append('last-float-rounded' if xs[-1] == tofloat32(hi) else 'last-dropped-by-merge-rule')
                elif xs[-1] == tofloat32(hi):
                    kinds.append('last-float-rounded')
                else:
                    kinds.append('last-other')
            for kd in kinds:
                sig = 'endpoints:%s' % kd
                hist_cls[sig] = hist_cls.get(sig, 0) + 1
                ck.add_violation(sig, '%s: reported domain [%r, %r] but breakpoints run from %r to %r' % (fn, lo, hi, xs[0], xs[-1]),
                                 {'case': d, 'first': xs[0], 'last': xs[-1], 'reported': [lo, hi], 'replay': replay_cmd(ck, i)})
        # exploration oracle
        e = E.get(i)
        if e and e[2] != 'inf':
            ratio = float(e[2])
            if fn not in worst or ratio > worst[fn][0]:
                worst[fn] = (ratio, i)
            # C13 quantifies over tolerances 1e-1 .. 1e-6; larger ones (the generator also feeds ubErr = 1.0 to reach the
            # `1.0 != ubErr` branch in the correspondence) are outside the property
            if e[-1] != 'within' and ratio > 1.01 and d['ubErr'] <= 0.1000001:
                sig = oracle_sig(c, e)
                oracle_bad[i] = sig
                hist_cls[sig] = hist_cls.get(sig, 0) + 1
                ck.add_violation(sig, '%s param %r on [%r, %r] integer=%d tol %r: |f-PL| is %.4g x the tolerance at x=%s (f=%s, PL=%s, segment width %s, %s)'
                                 % (fn, d['param'], d['lbx'], d['ubx'], d['is_x_int'], d['ubErr'], ratio, e[4], e[5], e[6], e[7], e[3]),
                                 {'case': d, 'x': e[4], 'f': e[5], 'pl': e[6], 'ratio': ratio, 'where': e[3], 'replay': replay_cmd(ck, i)})
    # correspondence disagreements
    for (i, want, got) in corr_bad:
        c = Ct[i]
        d = describe(c)
        if got == 'ub-int-cast':
            sig = 'undefined-behaviour:int-cast-overflow'
            ck.add_violation(sig, '%s on [%r, %r] integer argument: ConsiderIntegrality evaluates int(xN-x0+1) with a value outside int (undefined behaviour)'
                             % (c[2], d['lbx'], d['ubx']), {'case': d, 'replay': replay_cmd(ck, i)})
            continue
        diff = ''
        if want.startswith('ok') and got.startswith('ok'):
            a, b = want.split(' '), got.split(' ')
            for j, (x, y) in enumerate(zip(a, b)):
                if x != y:
                    diff = 'first differing token %d: real %s model %s; points real %s model %s' % (j, x, y, a[11], b[11])
                    break
        if i in oracle_bad:
            # correspondence broken AND the property oracle fails on this very input of the real code
            ck.add_violation('skeleton-differs+%s' % oracle_bad[i],
                             'the Lean skeleton no longer reproduces the real generator on %s [%r, %r] tol %r, and the property oracle fails on this input (%s). %s'
                             % (c[2], d['lbx'], d['ubx'], d['ubErr'], oracle_bad[i], diff),
                             {'case': d, 'real': want[:300], 'model': got[:300], 'oracle': oracle_bad[i], 'replay': replay_cmd(ck, i)})
            continue
        ck.add_violation('skeleton-differs:%s' % c[2],
                         'the Lean skeleton no longer reproduces the real generator on %s [%r, %r] tol %r (real: %s, model: %s) %s'
                         % (c[2], d['lbx'], d['ubx'], d['ubErr'], want[:40], got[:40], diff),
                         {'case': d, 'real': want[:300], 'model': got[:300], 'correspondence': 'drv_c13 vs h_pl_trace',
                          'searched': 'property oracle satisfied on this input', 'replay': replay_cmd(ck, i)}, found_input=False)
    # formula-consistency oracle (function-specific eval_1st / eval_2nd / inverse / inverse_1st vs their own eval)
    n_form = sum(int(x[4]) for x in form['FS'])
    seen_form = set()
    for fl in form['F']:
        fn, prm, kind = fl[1], h2f(fl[2]), fl[3]
        sig = 'formula:%s:%s' % (fn, kind)
        if sig in seen_form:
            continue
        seen_form.add(sig)
        tol_hit = [v['sig'] for v in ck.violations if v['sig'].startswith('tol:%s:' % fn) or ('+tol:%s:' % fn) in v['sig']]
        ck.add_violation(sig, '%s (parameter %r), subinterval %s: %s(%s) = %s but numerical differentiation / inversion of the record\'s own eval gives %s%s'
                         % (fn, prm, fl[4], kind, fl[5], fl[6], fl[7],
                            ('; the tolerance oracle fails for this function too: %s' % tol_hit[0]) if tol_hit else ''),
                         {'function': fn, 'param': prm, 'kind': kind, 'subinterval': fl[4], 'x': fl[5], 'got': fl[6], 'expected': fl[7],
                          'tolerance_oracle': tol_hit[:3], 'how': 'build/bin/h_pl_trace-* %s %d prints the F lines' % (ck.tier, ck.seed)},
                         found_input=bool(tol_hit))
    for x in form['FS']:
        if x[3] != 'ok':
            ck.add_violation('formula:%s:exception' % x[1], 'initialising the approximator for %s (parameter %r) raised' % (x[1], h2f(x[2])),
                             {'function': x[1]}, found_input=False)
    if len(form['FS']) < 37:
        ck.add_violation('formula-oracle-missing', 'the formula-consistency oracle covered only %d of 37 function records' % len(form['FS']), {}, found_input=False)
    if arith_bad:
        a, want, got = arith_bad[0]
        ck.add_violation('arith-model-differs', 'model rounding differs from the hardware: %s %s %s = %s, model %s (%d cases)' %
                         (a[1], a[2], a[3], want, got, len(arith_bad)), {'op': a[1:4]}, found_input=False)
    if not proof_ok:
        for fdecl in failing:
            ck.add_violation('obligation:%s' % fdecl[:60], 'proof obligation no longer checks: %s' % fdecl,
                             {'theorem': fdecl, 'module': 'MpVerif.C13.Props',
                              'searched': '%d implementation cases' % len(O)}, found_input=False)

    n_cvt = converter_stage(ck)
    n_cvt += options_stage(ck)

    # which arms of the Lean model the replayed (bit-exactly agreeing) stream exercises: inferred from the oracle tables
    # and outputs of the replayed cases (the driver itself has no counters: it contains no logic of its own)
    arms = {}

    def bump(k, n=1):
        arms[k] = arms.get(k, 0) + n
    replayed = [ref for kind, ref in ids if kind == 'C']
    for i in replayed:
        c, r, t, o = Ct[i], R[i], T[i], Ot[i]
        bump('status:' + o[2])
        bump('record:periodic' if r[9] == '1' else 'record:non-periodic')
        if r[8] == '1':
            bump('clipDomain:monotone->clipVals')
        ent = t[3:]
        for j in range(0, len(ent) - 3, 4):
            k, idx, a, v = ent[j], ent[j + 1], ent[j + 2], ent[j + 3]
            fv = h2f(v)
            if k == 's' and fv == 0:
                bump('initStep:|f2|<1e-100 fallback')
            if k == 's' and abs(fv) == float('inf'):
                bump('initStep:f2 infinite')
            if k == 'd' and abs(fv) == float('inf'):
                bump('maxErrRel:f\' infinite (OV.lt/le on inf)')
            if k == 'j' and fv != fv:
                bump('addCand:inverse_1st NaN ignored')
            if k == 'i' and idx == '-100' and abs(fv) == float('inf'):
                bump('clipVals:infinite pre-image')
            if k == 'i' and idx != '-100' and h2f(a) in (1.0, -1.0):
                bump('maxErrRel:pre-image of %+d' % int(h2f(a)))
        if o[2] == 'ok':
            n = int(o[13])
            if n == 1:
                bump('run:trivial or merged single point')
            if c[8] == '1' and o[7] == '0':
                import math
                N = math.floor(h2f(o[4])) - math.ceil(h2f(o[3])) + 1
                bump('considerIntegrality:shortcut taken' if 0 <= N and n <= N and n > 0 and all(h2f(x) == math.floor(h2f(x)) for x in o[14:14 + n]) else 'considerIntegrality:not taken')
                if 0 < n < N and all(h2f(x) == math.floor(h2f(x)) for x in o[14:14 + n]):
                    bump('addPoint:equal-ordinate merge (integer shortcut)')
            if c[2] == 'syn5':
                bump('addPoint:equal-ordinate merge (plateau record)')
            if c[2] == 'syn6':
                bump('cmpErr:error == tolerance (returns 0)')
            if c[2] == 'syn4':
                bump('addPoint:skip (default breakpoints closer than 1e-4)')
    ck.cov['model_arms_exercised_by_replayed_cases'] = arms

    # ---- evidence
    n_run = sum(v for k, v in agree.items() if k != 'arith')
    ck.cov['evaluations'] = len(O) + len(Ot) + len(A) + n_cvt
    ck.cov['traces_validated_against_impl'] = n_run
    ck.cov['distinct_nontrivial'] = sum(1 for i, o in Ot.items() if o[2] == 'ok' and int(o[13]) >= 3)
    ck.cov['rule'] = 'cases of the real generator that end with status ok and at least 3 breakpoints (each a distinct function/parameter/interval/tolerance/integrality tuple)'
    ck.cov['exhaustive'] = False
    ck.cov['correspondence'] = {'skeleton_cases_replayed_bit_exact': n_run, 'by_status': agree, 'disagreements': len(corr_bad),
                                'not_replayed_trace_too_large': skipped_big, 'not_replayed_non_finite_oracle_value': nonfinite_skip,
                                'arithmetic_cases': len(A), 'arithmetic_disagreements': len(arith_bad),
                                'validator_runs_on_real_outputs': n_val,
                                'formula_consistency_checks': n_form, 'formula_consistency_failures': len(form['F'])}
    fn_hist = {}
    for i, c in C.items():
        fn_hist[c[2]] = fn_hist.get(c[2], 0) + 1
    npts = sorted(int(o[13]) for o in O.values() if o[2] == 'ok')
    try:
        cj = json.load(open(os.path.join(VERIF, 'design_notes', 'coverage', 'C13.json')))
        ck.cov['coverage'] = {'anchor_line_cov': cj['anchor_line_cov'], 'anchor_branch_cov': cj['anchor_branch_cov'],
                              'note': 'measured in the last VERIF_COVERAGE=1 run (design_notes/coverage/C13.md), not recomputed here'}
    except Exception:
        pass
    ck.cov['generator'] = {'cases_per_function': fn_hist, 'status_histogram': hist_status,
                           'integer_argument_cases': sum(1 for c in C.values() if c[8] == '1'),
                           'periodic_outputs': sum(1 for o in O.values() if o[2] == 'ok' and o[7] == '1'),
                           'breakpoints_min_median_max': [npts[0], npts[len(npts) // 2], npts[-1]] if npts else [],
                           'synthetic_function_records': len(Ot) - len(O)}
    ck.cov['exploration_oracle'] = {'note': 'dense sampling + golden-section search in long double; exploration, not proof',
                                    'finding_classes': hist_cls,
                                    'worst_error_over_tolerance_per_function': {k: round(v[0], 3) for k, v in worst.items()}}
    for i in list(O)[:400:37]:
        ck.sample(' '.join(C[i][:10]) + ' -> ' + ' '.join(O[i][:14]))
    ck.assumptions += [
        'the model\'s rndD / rndS are PROVED monotone, idempotent, float-in-double (C13_lawful_ieee); that they coincide with the hardware\'s binary64/binary32 rounding (and sqrtD with the hardware sqrt) is compared on every run, not proved',
        'production build: -DNDEBUG (assert() off, MP_ASSERT_ALWAYS on), -O1, x86-64 SSE2 double arithmetic without FMA contraction',
        'the tolerance clause (|f - PL| <= tol at every real point) is explored numerically only: libm values, long double reference',
    ]
    ck.cov['trusted_base'] += ['translators/tr_c13.py + clang-14 AST: C++ double operations are read as the model\'s rounded operations on exact rationals, std::max/min/fabs/floor/ceil by their textbook definitions (cross-checked by the bit-exact correspondence of the hand model, which is proved equal to the generated definitions)', 'libm (both the code under test and the long-double reference of the exploration oracle)',
                               'the tabulated-oracle interface: the tracing subclass of the real PLApproximator<Con> (checked to produce identical outputs)']
    ck.notes.append('claimed level: partial — structural clauses proved on the skeleton model and tied bit-exactly to the real code; tolerance clause explored only')


def replay(ck, path):
    r = json.load(open(path))
    rp = r.get('replay', {})
    case = rp.get('case')
    if not case:
        print('replay file names no input case: %s' % r.get('what'))
        return 1
    exe_lib, _ = build(ck)
    outp = os.path.join(BUILD, 'c13.replay.out')
    run_exe(exe_lib, [r.get('tier', 'quick'), r.get('seed', 1), case['id']], outp)
    print(open(outp).read())
    C, _, _, O, E, _ = parse(outp)
    i = case['id']
    bad = O.get(i, ['', '', 'missing'])[2] not in ('ok', 'infeas', 'accrange', 'uberr') or (i in E and E[i][-1] not in ('within',))
    print('still failing' if bad else 'not reproduced by the exploration oracle (structural/end-point findings: see the O line)')
    return 1 if bad else 0

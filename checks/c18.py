"""C18 — expression equality is a structural equivalence consistent with hashing.

Stages: (1) Lean theorems about the model of mp::Equal / std::hash<mp::Expr> + axiom audit;
(2) correspondence: random trees built through the real ExprFactory (ASan+UBSan build of
src/expr.cc), every observed outcome compared with the compiled Lean model; (3) property oracle
evaluated on the implementation's answers with an independent python implementation of
structural identity; (4) verdicts.
"""
import os, subprocess, struct, json, re, sys, collections
from common import *

SAN = ['-O1', '-g', '-fsanitize=address,undefined', '-fno-sanitize-recover=all']
ALL_KINDS = 71

UNSUP_ANYWHERE = ('NOT_ALLDIFF', 'NUMBEROF_SYM', 'IFSYM')
ARITH = {'ADD', 'SUB', 'LESS', 'MUL', 'DIV', 'TRUNC_DIV', 'MOD', 'POW', 'POW_CONST_BASE', 'POW_CONST_EXP',
         'ATAN2', 'PRECISION', 'ROUND', 'TRUNC'}
NUM_ITER = {'MIN', 'MAX', 'SUM', 'NUMBEROF', 'NUMBEROF_SYM', 'COUNT'}


# ------------------------------------------------------------------ tree text -> python tuples
def parse_tree(t, i):
    tag = t[i]
    if tag == 'n':
        return ('n', int(t[i + 1], 16)), i + 2
    if tag in 'vc':
        return (tag, int(t[i + 1])), i + 2
    if tag == 'u':
        a, j = parse_tree(t, i + 2)
        return ('u', t[i + 1], a), j
    if tag == 'b':
        a, j = parse_tree(t, i + 2)
        b, j = parse_tree(t, j)
        return ('b', t[i + 1], a, b), j
    if tag == 'i':
        a, j = parse_tree(t, i + 2)
        b, j = parse_tree(t, j)
        c, j = parse_tree(t, j)
        return ('i', t[i + 1], a, b, c), j
    if tag == 'p':
        n = int(t[i + 1])
        j = i + 2
        sb = []
        for _ in range(n):
            sb.append((int(t[j], 16), int(t[j + 1], 16)))
            j += 2
        last = int(t[j], 16)
        a, j = parse_tree(t, j + 1)
        return ('p', tuple(sb), last, a), j
    if tag == 'f':
        n = int(t[i + 2])
        j = i + 3
        args = []
        for _ in range(n):
            a, j = parse_tree(t, j)
            args.append(a)
        return ('f', int(t[i + 1]), tuple(args)), j
    if tag == 't':
        n = int(t[i + 2])
        j = i + 3
        args = []
        for _ in range(n):
            a, j = parse_tree(t, j)
            args.append(a)
        return ('t', t[i + 1], tuple(args)), j
    if tag == 'l':
        return ('l', int(t[i + 1])), i + 2
    if tag == 's':
        return ('s', b'' if t[i + 1] == '-' else bytes.fromhex(t[i + 1])), i + 2
    raise ValueError('tag %r' % tag)


def parse_triple(text):
    toks = text.split()
    trees = []
    i = 0
    while i < len(toks):
        tr, i = parse_tree(toks, i)
        trees.append(tr)
        if i < len(toks):
            assert toks[i] == '|'
            i += 1
    return trees


def dbl(bits):
    return struct.unpack('<d', struct.pack('<Q', bits))[0]


def feq(a, b):          # IEEE ==
    return dbl(a) == dbl(b)


def cstr(s):
    k = s.find(b'\0')
    return s if k < 0 else s[:k]


def same(a, b):
    """structural identity: same shape, operators, references, argument order; constants by =="""
    stack = [(a, b)]
    while stack:
        a, b = stack.pop()
        if a[0] != b[0]:
            return False
        tag = a[0]
        if tag == 'n':
            if not feq(a[1], b[1]):
                return False
        elif tag in 'vcl':
            if a[1] != b[1]:
                return False
        elif tag == 's':
            if cstr(a[1]) != cstr(b[1]):
                return False
        elif tag in 'ubi':
            if a[1] != b[1]:
                return False
            stack.extend(zip(a[2:], b[2:]))
        elif tag == 'p':
            if len(a[1]) != len(b[1]) or not feq(a[2], b[2]):
                return False
            for (s1, b1), (s2, b2) in zip(a[1], b[1]):
                if not (feq(s1, s2) and feq(b1, b2)):
                    return False
            stack.append((a[3], b[3]))
        elif tag in 'ft':
            if a[1] != b[1] or len(a[2]) != len(b[2]):
                return False
            stack.extend(zip(a[2], b[2]))
    return True


def is_numeric(n):
    tag = n[0]
    if tag in 'nvcpf':
        return True
    if tag == 'u':
        return n[1] != 'NOT'
    if tag == 'b':
        return n[1] in ARITH
    if tag == 'i':
        return n[1] == 'IF'
    if tag == 't':
        return n[1] in NUM_ITER
    return False


def kind_name(n):
    tag = n[0]
    return {'n': 'NUMBER', 'v': 'VARIABLE', 'c': 'COMMON_EXPR', 'p': 'PLTERM', 'f': 'CALL', 'l': 'BOOL',
            's': 'STRING'}.get(tag) or n[1]


def features(tree):
    """(#nodes, depth, has NaN, kinds that throw, call-argument classes that crash)"""
    nodes = 0
    depth = 0
    nan = False
    throws = set()
    crash = set()
    if tree[0] == 's':
        throws.add('STRING')
    stack = [(tree, 1, False)]
    while stack:
        n, d, is_arg = stack.pop()
        nodes += 1
        depth = max(depth, d)
        tag = n[0]
        k = kind_name(n)
        if k in UNSUP_ANYWHERE:
            throws.add(k)
        if is_arg and not is_numeric(n) and tag != 's':
            crash.add('IFSYM' if k == 'IFSYM' else 'LOGICAL')
        if tag == 'n':
            nan = nan or dbl(n[1]) != dbl(n[1])
        elif tag == 'p':
            for v in [n[2]] + [x for p in n[1] for x in p]:
                nan = nan or dbl(v) != dbl(v)
            stack.append((n[3], d + 1, False))
        elif tag in 'ubi':
            for c in n[2:]:
                stack.append((c, d + 1, False))
        elif tag in 'ft':
            for c in n[2]:
                # a string below IFSYM / NUMBEROF_SYM is never reached: the parent throws first
                stack.append((c, d + 1, tag == 'f'))
    return nodes, depth, nan, throws, crash


def count_kinds(tree, hist):
    stack = [tree]
    while stack:
        n = stack.pop()
        hist[kind_name(n)] += 1
        tag = n[0]
        if tag == 'p':
            stack.append(n[3])
        elif tag in 'ubi':
            stack.extend(n[2:])
        elif tag in 'ft':
            stack.extend(n[2])


# ------------------------------------------------------------------ property oracle on one observation
def oracle(trees, res, named=()):
    """res: 9 outcomes + 3 hashes as printed by the harness; named: for each U answer in order, the
    kind the UnsupportedError names.  Yields (signature, text)."""
    named = list(named)
    n = len(trees)
    e = [res[i * n:(i + 1) * n] for i in range(n)]
    h = res[n * n:n * n + n]
    feats = [features(t) for t in trees]
    for i in range(n):
        for j in range(n):
            r = e[i][j]
            ident = same(trees[i], trees[j])
            if r == 'U':
                common = feats[i][3] & feats[j][3]
                k = named.pop(0) if named else '?'
                if k in common:
                    yield 'throws:' + k, 'Equal(T%d,T%d) throws UnsupportedError (%s)' % (i, j, k)
                else:
                    yield 'throws:unexpected', 'Equal(T%d,T%d) throws UnsupportedError naming %s, which both trees do not contain' % (i, j, k)
            elif r == 'X':
                common = feats[i][4] & feats[j][4]
                if common:
                    for k in sorted(common):
                        yield 'ub:call-arg-' + k, 'Equal(T%d,T%d) dies: call argument of class %s is cast to a null StringLiteral' % (i, j, k)
                else:
                    yield 'crash:unexpected', 'Equal(T%d,T%d) kills the process' % (i, j)
            elif r == 'E':
                yield 'exception:unexpected', 'Equal(T%d,T%d) throws an unexpected exception' % (i, j)
            elif r == '1' and not ident:
                # a NaN-bearing tree equal to its own copy is what the property asks for
                if trees[i] != trees[j]:
                    yield 'true-but-different', 'Equal(T%d,T%d) is true for structurally different trees' % (i, j)
            elif r == '0' and ident:
                yield 'false-but-identical', 'Equal(T%d,T%d) is false for structurally identical trees' % (i, j)
            elif r == '0' and trees[i] == trees[j]:
                # same description, not `same`: only a NaN constant (x == x false) can cause that
                yield 'refl:nan', 'Equal(T%d,T%d) is false for a tree compared with itself/its copy: it holds a NaN constant' % (i, j)
            if e[j][i] != r:
                yield 'asymmetric', 'Equal(T%d,T%d)=%s but Equal(T%d,T%d)=%s' % (i, j, r, j, i, e[j][i])
            if r == '1':
                if h[i] != h[j] or h[i] in ('U', 'E'):
                    yield 'hash-mismatch', 'Equal(T%d,T%d) is true but the hashes are %s and %s' % (i, j, h[i], h[j])
                for k in range(n):
                    if e[j][k] == '1' and e[i][k] != '1':
                        yield 'intransitive', 'Equal(T%d,T%d), Equal(T%d,T%d) true but Equal(T%d,T%d)=%s' % (i, j, j, k, i, k, e[i][k])
    for i in range(n):
        if h[i] == 'U':
            k = named.pop(0) if named else '?'
            if k in feats[i][3] - {'STRING'}:
                yield 'throws:' + k, 'hash(T%d) throws UnsupportedError (%s)' % (i, k)
            else:
                yield 'hash-throws:unexpected', 'hash(T%d) throws UnsupportedError naming %s, which the tree does not contain' % (i, k)
        elif h[i] == 'E':
            yield 'exception:unexpected', 'hash(T%d) throws an unexpected exception' % i


# ------------------------------------------------------------------ running both sides
def expr_info_source(ck):
    """src/expr-info.cc is generated at build time (gitignored) by gen-expr-info from the kind table in
    src/gen-expr-info.cc; regenerate it from the current tree (cached by ck.cxx) instead of trusting a copy."""
    gen = ck.cxx('gen_expr_info', [os.path.join(REPO, 'src', 'gen-expr-info.cc'), os.path.join(REPO, 'src', 'format.cc'), os.path.join(REPO, 'src', 'posix.cc')], flags=['-O0', '-w'])
    d = os.path.join(BUILD, 'gen', 'c18-' + os.path.basename(gen))
    out = os.path.join(d, 'expr-info.cc')
    if not os.path.exists(out):
        os.makedirs(d, exist_ok=True)
        rc, o, e = sh([gen, out + '.tmp', os.path.join(d, 'nl-opcodes.h')], timeout=120)
        if rc != 0:
            raise RuntimeError('gen-expr-info failed: ' + (o + e)[-1000:])
        os.rename(out + '.tmp', out)
    return out


def build_harness(ck, extra=()):
    srcs = [os.path.join(VERIF, 'harness', 'h_expr.cc'), os.path.join(REPO, 'src', 'expr.cc'),
            os.path.join(REPO, 'src', 'format.cc'), expr_info_source(ck)]
    flags = SAN + list(extra)
    objs = ck.objects(srcs, flags=flags, tag='c18' + ('n' if extra else ''))
    return ck.link('h_expr' + ('_ndebug' if extra else ''), objs, flags=['-fsanitize=address,undefined'], libs=())


def run_impl(ck, exe, args, outp):
    # no symbolizer in the normal run: the forked children that die on purpose would each start one
    env = dict(os.environ, ASAN_OPTIONS='detect_leaks=1:symbolize=0:quarantine_size_mb=4', UBSAN_OPTIONS='symbolize=0')
    with open(outp, 'w') as f:
        p = subprocess.run([exe] + args, stdout=f, stderr=subprocess.PIPE, text=True, env=env)
    if p.returncode == 0:
        return None
    env = dict(os.environ, ASAN_OPTIONS='detect_leaks=1', UBSAN_OPTIONS='print_stacktrace=1')
    with open(outp, 'w') as f:
        p2 = subprocess.run([exe] + args + ['flush'], stdout=f, stderr=subprocess.PIPE, text=True, env=env)
    return (p2.stderr or p.stderr)[-2500:]


def run_model(ck, drv, outp, mo):
    with open(outp) as fi, open(mo, 'w') as fo:
        subprocess.run([drv], stdin=fi, stdout=fo, check=True)


class Stats:
    def __init__(self):
        self.lines = 0
        self.triples = 0
        self.equal_calls = 0
        self.hash_calls = 0
        self.kinds = collections.Counter()
        self.how = collections.Counter()
        self.outcomes = collections.Counter()
        self.sizes = collections.Counter()
        self.depths = collections.Counter()
        self.distinct = set()
        self.kind_codes = {}
        self.dhash = {}
        self.pairs_equal_distinct_bits = 0


def examine(ck, outp, mo, st, stream):
    """compare model and implementation line by line, run the oracle on every observation"""
    oracle_bad = {}
    corr_bad = []
    truncated = None
    with open(outp) as fi, open(mo) as fm:
        for ln, line in enumerate(fi, 1):
            line = line.rstrip('\n')
            ml = fm.readline().rstrip('\n')
            if ' => ' not in line or not (line.endswith(' => ok') or ' # ' in line):
                truncated = line
                continue
            op, rest = line.split(' => ', 1)
            impl = rest.split(' # ')[0].strip()
            how = rest.split(' # ')[1].split(' #')[0] if ' # ' in rest else ''
            named = rest.split(' #')[2].split() if rest.count(' #') >= 2 else []
            st.lines += 1
            if ml != impl:
                corr_bad.append((ln, op, impl, ml))
            if op[0] == 'K':
                _, name, code, hsh = op.split()
                st.kind_codes[name] = int(code)
                continue
            if op[0] == 'D':
                _, bits, hsh = op.split()
                st.dhash[int(bits, 16)] = hsh
                continue
            if op[0] != 'P':
                continue
            if impl.startswith('bad-tree'):
                oracle_bad.setdefault('harness:bad-tree', []).append((ln, op, impl, 'the harness could not build this description: ' + how))
                continue
            trees = parse_triple(op[2:])
            res = impl.split()
            n = len(trees)
            st.triples += 1
            st.equal_calls += n * n
            st.hash_calls += n
            st.how[how.split(' ')[0] if stream == 'gen' else 'corpus'] += 1
            if stream == 'gen' and ' ' in how:
                st.how['C<-' + how.split(' ')[1]] += 1
                for extra in how.split(' ')[2:]:
                    st.how['+' + extra] += 1
            tot = 0
            for t in trees:
                count_kinds(t, st.kinds)
                nn, dd, _, _, _ = features(t)
                tot += nn
                st.depths[min(dd, 9)] += 1
                st.sizes['1' if nn == 1 else '2-5' if nn <= 5 else '6-20' if nn <= 20 else '21-60' if nn <= 60 else '>60'] += 1
            for r in res[:n * n]:
                st.outcomes['equal=' + r] += 1
            for r in res[n * n:]:
                st.outcomes['hash=' + ('value' if len(r) == 16 else r)] += 1
            if tot >= 6:
                st.distinct.add(hash(op))
            for i in range(n):
                for j in range(i + 1, n):
                    if res[i * n + j] == '1' and trees[i] != trees[j]:
                        st.pairs_equal_distinct_bits += 1
            for sig, text in oracle(trees, res, named):
                oracle_bad.setdefault(sig, []).append((ln, op, impl, text))
            if st.triples % 1499 == 7:
                ck.sample((op[:220] + ' ...' if len(op) > 220 else op) + ' => ' + impl)
    return oracle_bad, corr_bad, truncated


def report(ck, exe_desc, oracle_bad, corr_bad, truncated, abort_text, stream_cmd):
    oracle_lines = set()
    for sig, lst in oracle_bad.items():
        ln, op, impl, text = lst[0]
        for x in lst:
            oracle_lines.add(x[0])
        ck.add_violation(sig, '%s [%d observation(s) of this class in this run]' % (text, len(lst)),
                         {'line': op, 'implementation_answer': impl, 'expected': 'Equal(Ti,Tj) true exactly for structurally identical trees, symmetric, transitive, equal => same hash, no exception, no crash',
                          'how': 'put the line into a file and run: %s file <that file>  (answers: 9 outcomes of Equal(Ti,Tj) row by row, then 3 hashes); or ./check C18 --replay <this file>' % exe_desc,
                          'more_lines': [x[1] for x in lst[1:4]]})
    if abort_text:
        ck.add_violation('crash:unexpected', 'the harness process died (sanitizer report or signal) while evaluating: %s' % (truncated or '?')[:400],
                         {'line': truncated, 'stderr': abort_text, 'cmd': stream_cmd + ' flush'})
    rest = [c for c in corr_bad if c[0] not in oracle_lines]
    if rest:
        ln, op, impl, ml = rest[0]
        ck.add_violation('model-differs:' + op[0], 'the Lean model answers "%s" but the implementation answered "%s" (%d such lines; the property oracle is satisfied on them): the model in lean/MpVerif/C18/Model.lean no longer describes src/expr.cc' % (ml, impl, len(rest)),
                         {'correspondence': 'drv_c18 vs h_expr', 'first_differing_line': ln, 'op': op, 'impl': impl, 'model': ml,
                          'stream': stream_cmd}, found_input=False)


# ------------------------------------------------------------------ coverage mode (VERIF_COVERAGE=1)
ANCHOR_FILES = ['src/expr.cc', 'include/mp/expr.h', 'include/mp/basic-expr-visitor.h', 'include/mp/utils-hash.h',
                'include/mp/common.h']
MECH = ('ExprComparator', 'ExprHasher', 'mp::Equal', 'hash<mp::', 'HashCombine')


def anchor_cov():
    """figures of the last VERIF_COVERAGE=1 run (committed file; not recomputed in the normal tiers)"""
    try:
        js = json.load(open(os.path.join(VERIF, 'design_notes', 'coverage', 'C18.json')))
        return {'anchor_line_cov': js['anchor_line_cov'], 'anchor_branch_cov': js['anchor_branch_cov'],
                'anchor_cov_note': 'gcov over anchors.files, quick stream; mechanism functions (ExprComparator, ExprHasher, Equal, hash, HashCombine): %d functions / %d lines / %d non-exception branches not covered; Lean model arms taken %d of %d' % (
                    js['mechanism_functions_never_executed'], js['mechanism_lines_never_executed'], js['mechanism_branches_never_taken'], js['model_arms_taken'], js['model_arms'])}
    except Exception:
        return {}


def run_coverage(ck):
    """gcov build of the harness + src/expr.cc, quick-tier stream, per-anchor line/branch coverage and the
    uncovered parts of the mechanism functions -> design_notes/coverage/C18.{md,json}"""
    import gzip, shutil
    d = os.path.join(BUILD, 'cov', 'c18')
    shutil.rmtree(d, ignore_errors=True)
    os.makedirs(d)
    srcs = [os.path.join(VERIF, 'harness', 'h_expr.cc'), os.path.join(REPO, 'src', 'expr.cc'),
            os.path.join(REPO, 'src', 'format.cc'), expr_info_source(ck)]
    inc = ['-I' + os.path.join(REPO, 'include'), '-I' + os.path.join(REPO, 'src'), '-I' + os.path.join(VERIF, 'harness')]
    defs = ['-DMP_DATE=20240320', '-DMP_SYSINFO="Linux x86_64"', '-DMP_USE_ATOMIC', '-DMP_USE_HASH', '-DMP_USE_UNIQUE_PTR']
    objs = []
    for sname in srcs:
        o = os.path.join(d, os.path.basename(sname).replace('.', '_') + '.o')
        rc, out, err = sh(['g++', '-std=c++17', '-w', '-O0', '-g', '--coverage'] + defs + inc + ['-c', sname, '-o', o], timeout=900)
        if rc != 0:
            raise RuntimeError('coverage compile failed: ' + err[-2000:])
        objs.append(o)
    exe = os.path.join(d, 'h_expr_cov')
    rc, out, err = sh(['g++', '--coverage'] + objs + ['-o', exe], timeout=300)
    if rc != 0:
        raise RuntimeError('coverage link failed: ' + err[-2000:])
    env = dict(os.environ, C18_NOFORK='1', C18_TRIPLES=os.environ.get('C18_COV_TRIPLES', '10000'))
    n_lines = 0
    drv = ck.driver('drv_c18')
    arm_counts = collections.Counter()
    bad_trace = 0
    for args in [['file', c] for c in sorted(glob.glob(os.path.join(VERIF, 'corpus', 'C18', '*.txt')))] + [['gen', 'quick', str(ck.seed)]]:
        p = subprocess.run([exe] + args, stdout=subprocess.PIPE, stderr=subprocess.PIPE, text=True, env=env)
        n_lines += p.stdout.count('\nP ')
        q = subprocess.run([drv, '--arms'], input=p.stdout, stdout=subprocess.PIPE, text=True)
        for l_in, l_out in zip(p.stdout.split('\n'), q.stdout.split('\n')):
            if l_in.startswith('P '):
                if l_out in ('bad-trace', 'bad-op'):
                    bad_trace += 1
                for a in l_out.split():
                    arm_counts[a] += 1
        if p.returncode != 0:
            ck.log('coverage run %s exited %d: %s' % (args, p.returncode, p.stderr[-300:]))
    # merge gcov JSON of the two TUs that instantiate the anchored code
    files = {}
    for o in objs[:2]:
        rc, out, err = sh(['gcov-12', '-b', '-c', '-j', '-t', '-o', d, o], cwd=d, timeout=600)
        for doc in out.split('\n'):
            doc = doc.strip()
            if not doc.startswith('{'):
                continue
            for f in json.loads(doc).get('files', []):
                rel = os.path.relpath(os.path.realpath(f['file'] if os.path.isabs(f['file']) else os.path.join(d, f['file'])), os.path.realpath(REPO))
                if rel not in ANCHOR_FILES:
                    continue
                ent = files.setdefault(rel, {'lines': {}, 'funcs': {}})
                for fn in f['functions']:
                    k = (fn['demangled_name'], fn['start_line'])
                    e = ent['funcs'].setdefault(k, {'count': 0, 'end': fn['end_line']})
                    e['count'] += fn['execution_count']
                for l in f['lines']:
                    e = ent['lines'].setdefault(l['line_number'], {'count': 0, 'br': {}, 'fn': set()})
                    e['count'] += l['count']
                    if l.get('function_name'):
                        e['fn'].add(l['function_name'])
                    # branches are per instantiation: keep them apart by function
                    key = l.get('function_name', '')
                    br = e['br'].setdefault(key, [[0, b.get('throw', False)] for b in l['branches']])
                    if len(br) == len(l['branches']):
                        for i, b in enumerate(l['branches']):
                            br[i][0] += b['count']
    summary = {}
    md = ['# C18 — coverage of the anchored code by the quick-tier stream', '',
          'Measured with `VERIF_COVERAGE=1 ./check C18` (g++ -O0 --coverage build of harness/h_expr.cc + src/expr.cc, corpus + quick',
          'generator stream at seed %d, %d observation lines, forks disabled; gcov-12 -b -c, merged over the two TUs; branch' % (ck.seed, n_lines),
          'figures exclude exception edges).', '',
          '| file | lines hit / instrumented | line % | branches taken / total | branch % |', '|---|---|---|---|---|']
    tot = [0, 0, 0, 0]
    mech_unc_funcs, mech_unc_br, mech_unc_lines = [], [], []
    import subprocess as sp
    for rel in ANCHOR_FILES:
        ent = files.get(rel)
        if not ent:
            md.append('| %s | (nothing instrumented: no executable code reaches these TUs) | | | |' % rel)
            summary[rel] = None
            continue
        lh = sum(1 for l in ent['lines'].values() if l['count'] > 0)
        lt = len(ent['lines'])
        bh = bt = 0
        for ln, l in sorted(ent['lines'].items()):
            for key, br in l['br'].items():
                for i, (c, thr) in enumerate(br):
                    if thr:
                        continue
                    bt += 1
                    bh += 1 if c > 0 else 0
        md.append('| %s | %d / %d | %.1f | %d / %d | %.1f |' % (rel, lh, lt, 100.0 * lh / max(lt, 1), bh, bt, 100.0 * bh / max(bt, 1)))
        summary[rel] = {'lines_hit': lh, 'lines': lt, 'branches_taken': bh, 'branches': bt}
        tot = [tot[0] + lh, tot[1] + lt, tot[2] + bh, tot[3] + bt]
        # mechanism functions
        src_lines = open(os.path.join(REPO, rel)).read().split('\n')
        for (name, start), fn in sorted(ent['funcs'].items(), key=lambda x: (x[0][1], x[0][0])):
            if not any(m in name for m in MECH):
                continue
            if fn['count'] == 0:
                mech_unc_funcs.append('%s:%d %s' % (rel, start, name))
        for ln, l in sorted(ent['lines'].items()):
            for key, br in l['br'].items():
                dem = key
                if not any(m in key for m in ('ExprComparator', 'ExprHasher', 'Equal', 'HashCombine', '4hash')):
                    continue
                if all(c == 0 for c, _ in br):
                    continue   # line not executed at all in this instantiation: reported as line/function
                for i, (c, thr) in enumerate(br):
                    if not thr and c == 0:
                        mech_unc_br.append('%s:%d branch %d never taken in %s | `%s`' % (rel, ln, i, key, src_lines[ln - 1].strip()[:90]))
            if l['count'] == 0 and any(any(m in f for m in ('ExprComparator', 'ExprHasher', 'Equal', 'HashCombine', '4hash')) for f in l['fn']):
                mech_unc_lines.append('%s:%d `%s`' % (rel, ln, src_lines[ln - 1].strip()[:100]))
    md.append('| **all anchored files** | %d / %d | %.1f | %d / %d | %.1f |' % (tot[0], tot[1], 100.0 * tot[0] / max(tot[1], 1), tot[2], tot[3], 100.0 * tot[2] / max(tot[3], 1)))
    # demangle mangled function keys for readability
    def dem(txt):
        names = set(re.findall(r'_Z\w+', txt))
        if not names:
            return txt
        p = sp.run(['c++filt'], input='\n'.join(sorted(names)), capture_output=True, text=True)
        for a, b in zip(sorted(names), p.stdout.split('\n')):
            txt = txt.replace(a, b)
        return txt
    md += ['', '## Mechanism functions never executed (ExprComparator / ExprHasher / mp::Equal / std::hash<mp::Expr> / HashCombine)', '']
    md += ['* ' + x for x in mech_unc_funcs] or ['(none)']
    md += ['', '## Lines inside executed mechanism functions never executed', '']
    md += ['* ' + dem(x) for x in mech_unc_lines] or ['(none)']
    md += ['', '## Branches inside executed mechanism lines never taken (exception edges excluded)', '']
    md += ['* ' + dem(x) for x in mech_unc_br] or ['(none)']
    # arms of the Lean model (labels are the string literals of lean/MpVerif/C18/Trace.lean)
    tr = open(os.path.join(LEAN, 'MpVerif', 'C18', 'Trace.lean')).read()
    all_arms = set()
    for m in re.finditer(r'(ofB )?"((?:equalX|equalList|equalArgs|plPairs|hashX|hashList|and)\.[^"]*)"', tr):
        lab = m.group(2).replace(' ', '_')
        all_arms |= {lab + '.true', lab + '.false'} if m.group(1) else {lab}
    never = sorted(all_arms - set(arm_counts))
    md += ['', '## Arms of the Lean model taken by the same stream (`drv_c18 --arms`; observation lines on which the arm is taken)', '',
           '%d arms, %d taken, %d lines on which the instrumented copy disagreed with the model function.' % (len(all_arms), len(all_arms) - len(never), bad_trace), '',
           '| arm | lines |', '|---|---|']
    md += ['| %s | %d |' % (a, arm_counts.get(a, 0)) for a in sorted(all_arms)]
    md += ['', 'Never taken: ' + (', '.join(never) or '(none)')]
    os.makedirs(os.path.join(VERIF, 'design_notes', 'coverage'), exist_ok=True)
    open(os.path.join(VERIF, 'design_notes', 'coverage', 'C18.measured.md'), 'w').write('\n'.join(md) + '\n')
    js = {'anchor_line_cov': round(100.0 * tot[0] / max(tot[1], 1), 1), 'anchor_branch_cov': round(100.0 * tot[2] / max(tot[3], 1), 1),
          'per_file': summary, 'observation_lines': n_lines, 'seed': ck.seed,
          'mechanism_functions_never_executed': len(mech_unc_funcs), 'mechanism_lines_never_executed': len(mech_unc_lines),
          'mechanism_branches_never_taken': len(mech_unc_br),
          'model_arms': len(all_arms), 'model_arms_taken': len(all_arms) - len(never), 'model_arms_never_taken': never}
    json.dump(js, open(os.path.join(VERIF, 'design_notes', 'coverage', 'C18.json'), 'w'), indent=1)
    ck.log('coverage: lines %.1f%% branches %.1f%%; mechanism: %d functions, %d lines, %d branches uncovered' %
           (js['anchor_line_cov'], js['anchor_branch_cov'], len(mech_unc_funcs), len(mech_unc_lines), len(mech_unc_br)))
    ck.cov.update({'anchor_line_cov': js['anchor_line_cov'], 'anchor_branch_cov': js['anchor_branch_cov'], 'evaluations': n_lines,
                   'coverage_mode': True})


def run(ck):
    if os.environ.get('VERIF_COVERAGE') == '1':
        return run_coverage(ck)
    n_thm = 45
    # 1. regenerate the Lean description of Equal / hash / HashCombine from the current tree
    gen = os.path.join(LEAN, 'MpVerif', 'Gen', 'C18.lean')
    rc, out, err = sh([sys.executable, os.path.join(VERIF, 'translators', 'gen_expr_c18.py'), REPO, gen,
                       os.path.join(BUILD, 'tr', 'c18')], timeout=600)
    ck.log((out.strip() or err.strip())[-600:])
    translator_ok = rc == 0
    if translator_ok:
        proof_ok, failing = ck.proof_stage('MpVerif.C18.Props', 'MpVerif/C18/Props.lean', 'C18_',
                                           ['MpVerif/C18/*.lean', 'MpVerif/Gen/C18.lean'], expect_min=n_thm)
    else:
        proof_ok, failing = False, ['translator: ' + (out + err).strip()[-500:]]
        ck.cov.update({'obligations': n_thm, 'discharged': 0, 'checker_cmd': 'translators/gen_expr_c18.py failed'})
    ck.log('proof stage: ok=%s failing=%s' % (proof_ok, failing[:10]))
    if ck.tier == 'thorough' and proof_ok:
        bad = ck.leanchecker(['MpVerif.C18.Props'])
        if bad:
            failing += ['leanchecker rejected %s' % m for m in bad]
            proof_ok = False
    drv = ck.driver('drv_c18')
    st = Stats()
    # two builds of the same sources: assertions enabled (MP_ASSERT catches out-of-range accessor use that
    # the 8x over-allocated nodes would hide from ASan) and -DNDEBUG (what is shipped)
    counts = {'quick': (10000, 2500), 'thorough': (120000, 30000)}[ck.tier]
    variants = [('asserts-on', (), counts[0]), ('NDEBUG', ('-DNDEBUG',), counts[1])]
    corpus = sorted(glob.glob(os.path.join(VERIF, 'corpus', 'C18', '*.txt')))
    for vname, extra, count in variants:
        exe = build_harness(ck, extra)
        ck.log('harness (%s): %s' % (vname, os.path.basename(exe)))
        streams = [('corpus:' + os.path.basename(c), ['file', c]) for c in corpus]
        streams.append(('gen', ['gen', ck.tier, str(ck.seed if vname == 'asserts-on' else ck.seed + 1000003)]))
        for sname, args in streams:
            tag = re.sub(r'\W', '_', '%s_%s' % (vname, sname))
            outp = os.path.join(BUILD, 'c18.%s.impl.out' % tag)
            mo = os.path.join(BUILD, 'c18.%s.model.out' % tag)
            os.environ['C18_TRIPLES'] = str(count)
            abort_text = run_impl(ck, exe, args, outp)
            run_model(ck, drv, outp, mo)
            before = st.lines
            ob, cb, trunc = examine(ck, outp, mo, st, 'gen' if sname == 'gen' else 'corpus')
            report(ck, 'build/bin/' + os.path.basename(exe), ob, cb, trunc, abort_text, ' '.join(['C18_TRIPLES=%d build/bin/%s' % (count, os.path.basename(exe))] + args))
            ck.log('%s/%s: %d lines, oracle classes %s, %d model disagreements' % (vname, sname, st.lines - before, sorted(ob), len(cb)))
    # hypotheses of the theorems that are facts about libstdc++ / the enum, checked on what was printed
    if len(st.kind_codes) != ALL_KINDS or len(set(st.kind_codes.values())) != ALL_KINDS:
        ck.add_violation('kinds:not-distinct', 'the harness printed %d kinds with %d distinct codes (expected %d)' % (len(st.kind_codes), len(set(st.kind_codes.values())), ALL_KINDS),
                         {'kinds': st.kind_codes}, found_input=False)
    groups = {}
    for bits, hsh in st.dhash.items():       # == classes of the printed constants: by value, NaN equals nothing
        v = dbl(bits)
        if v == v:
            groups.setdefault(0.0 if v == 0 else v, []).append((bits, hsh))
    bad_h = [g for g in groups.values() if len({h for _, h in g}) > 1]
    if bad_h or 0 not in st.dhash or (1 << 63) not in st.dhash:
        ck.add_violation('hash-prim:double', 'std::hash<double> differs on == values %s: hypothesis hc of C18_hash_congr does not hold' % bad_h[:3],
                         {'pairs': bad_h[:10]}, found_input=bool(bad_h))
    if not proof_ok:
        for fdecl in failing:
            ck.add_violation('obligation:' + fdecl, 'proof obligation no longer checks: %s' % fdecl,
                             {'theorem': fdecl, 'module': 'MpVerif.C18.Props',
                              'searched': '%d observations of the real Equal/hash' % st.triples}, found_input=False)
    ck.level = 'proof'
    ck.cov.update({
        'evaluations': st.equal_calls + st.hash_calls,
        'equal_calls': st.equal_calls, 'hash_calls': st.hash_calls,
        'traces_validated_against_impl': st.lines,
        'distinct_nontrivial': len(st.distinct),
        'rule': 'distinct observation lines (triples of trees) with at least 6 nodes in total; every line compared with the Lean model and judged by the python oracle',
        'exhaustive': False,
        'triples': st.triples,
        'kinds_hit': dict(sorted(st.kinds.items())), 'kinds_hit_count': len(st.kinds),
        'how_B_and_C_were_made': dict(st.how.most_common()),
        'outcomes': dict(sorted(st.outcomes.items())),
        'tree_sizes': dict(st.sizes), 'tree_depths': {str(k): v for k, v in sorted(st.depths.items())},
        'equal_pairs_with_different_descriptions': st.pairs_equal_distinct_bits,
        'build_variants': [v for v, _, _ in variants],
        **anchor_cov(),
    })
    missing = [k for k in st.kind_codes if k not in st.kinds]
    if missing:
        ck.notes.append('kinds never generated in this run: %s' % missing)
    ck.assumptions += [
        'std::hash<int|double|bool|char|const char*> (libstdc++) are parameters of the model; their values are read from the run; hypothesis "== doubles hash alike" checked on every printed constant (incl. +0/-0)',
        'function identity = identity of the mp::Function object inside one factory (Function::operator== compares the impl pointer)',
        'string literals are compared/hashed as C strings (up to the first NUL), which is all StringLiteral::value() exposes',
        'if/implication nodes have three non-null children (MakeIf tolerates a null else_expr, which every visitor then dereferences: not generated)',
        'recursion depth: trees up to depth 200 are exercised; stack exhaustion on pathologically deep trees is outside the model',
        'typing of children (numeric/logical) is enforced by the C++ types of the factory API and is not represented in the model, which proves the theorems for a superset',
    ]
    ck.cov['trusted_base'] += ['harness/h_expr.cc (generator, builder through ExprFactory, fork isolation of crashing calls)',
                               'checks/c18.py oracle (python re-implementation of structural identity)',
                               'MpVerif/C18/Model.lean is a hand model of src/expr.cc; agreement is sampled on every run, not proved']


def replay(ck, path):
    obj = json.load(open(path))
    line = obj.get('replay', {}).get('line') or obj.get('replay', {}).get('op')
    if not line:
        print('nothing to replay in', path)
        return 2
    tmp = os.path.join(BUILD, 'c18.replay.txt')
    open(tmp, 'w').write(line.split(' => ')[0] + '\n')
    exe = build_harness(ck)
    outp = os.path.join(BUILD, 'c18.replay.impl.out')
    mo = os.path.join(BUILD, 'c18.replay.model.out')
    abort_text = run_impl(ck, exe, ['file', tmp], outp)
    run_model(ck, ck.driver('drv_c18'), outp, mo)
    st = Stats()
    ob, cb, trunc = examine(ck, outp, mo, st, 'corpus')
    for l in open(outp):
        if l.startswith('P '):
            print('implementation:', l.strip())
    for l, m in zip(open(outp), open(mo)):
        if l.startswith('P '):
            print('model:         ', m.strip())
    for sig, lst in ob.items():
        print('oracle: %s: %s' % (sig, lst[0][3]))
    report(ck, 'build/bin/' + os.path.basename(exe), ob, cb, trunc, abort_text, 'h_expr file ' + tmp)
    return ck.finish()

"""C19 — names given to the solver are complete, faithful and unique.

Stages
  1. proof obligations (lean/MpVerif/C19/Props.lean) + axiom audit
  2. NameProvider: real mp::NameProvider (ASan, guard page before every file mapping) vs the Lean byte-level model
  3. whole driver: generated NL models x names modes x .col/.row variants x acceptance sets through the
     recording driver; (a) property oracle directly on the names the ModelAPI received,
     (b) Lean recomputation: NameProvider model -> source names -> name presolve over the exported link
     graph -> delivered names, compared cell by cell; the decidable hypotheses of C19_unique are evaluated
     on every real graph
  4. replay of the proved counterexamples (adversarial source names) on the real driver
"""
import os, sys, json, re, subprocess, glob, shutil
from common import *
import recsolver
sys.path.insert(0, os.path.join(VERIF, 'gen'))
import nlgen, c19gen

CHAIN_RE = re.compile(r'(_(\d+|slk|equ)_)*\Z')
TOKSTART_RE = re.compile(r'_[^_]+_')
N_THEOREMS = 48


def hx(s):
    if isinstance(s, str):
        s = s.encode('latin-1', 'replace')
    return s.hex() if s else '-'


def unhx(h):
    return '' if h == '-' else bytes.fromhex(h).decode('latin-1')


class Drv:
    """persistent line-protocol session with drv_c19"""
    def __init__(self, exe):
        self.p = subprocess.Popen([exe], stdin=subprocess.PIPE, stdout=subprocess.PIPE, text=True, bufsize=1)
        self.n = 0

    def ask(self, line):
        self.p.stdin.write(line + '\n')
        self.p.stdin.flush()
        self.n += 1
        return self.p.stdout.readline().rstrip('\n')

    def many(self, lines):
        res = []
        for k in range(0, len(lines), 100):
            chunk = lines[k:k + 100]
            self.p.stdin.write('\n'.join(chunk) + '\n')
            self.p.stdin.flush()
            self.n += len(chunk)
            res += [self.p.stdout.readline().rstrip('\n') for _ in chunk]
        return res

    def close(self):
        try:
            self.p.stdin.close()
            self.p.wait(timeout=10)
        except Exception:
            self.p.kill()


# ------------------------------------------------------------------ independent reference (python)
def is_chain_liberal(t):
    """t is a concatenation of tokens _w_ (w non-empty, no underscore)"""
    i = 0
    while i < len(t):
        m = TOKSTART_RE.match(t, i)
        if not m:
            return False
        i = m.end()
    return True


def suffix_free(names):
    for i, a in enumerate(names):
        for j, b in enumerate(names):
            if i != j and a.startswith(b) and is_chain_liberal(a[len(b):]):
                return False
    return True


def file_lines(data):
    """names a well-formed reader gets from file bytes (LF or CRLF line ends); None if absent/empty"""
    if data is None or data == b'':
        return []
    out = []
    for ln in data.split(b'\n')[:-1]:
        if ln.endswith(b'\r'):
            ln = ln[:-1]
        out.append(ln.decode('latin-1'))
    return out


def expected_sources(mode, col, row, nv, ncon, nalg, nobj, objno, multi):
    """documented behaviour of cvt:names (python reference, independent of the Lean model).
    returns None if no names are requested/available, else (vars, cons, objs)"""
    if mode == 0:
        return None
    cl = file_lines(col) if mode <= 2 else []
    rl = file_lines(row) if mode <= 2 else []
    if mode < 2 and not cl and not rl:
        return None
    vs = [cl[i] if i < len(cl) else '_svar[%d]' % (i + 1) for i in range(nv)]
    cs = [rl[i] if i < len(rl) else ('_scon[%d]' % (i + 1) if i < nalg else '_slogcon[%d]' % (i - nalg + 1)) for i in range(ncon)]
    sel = list(range(nobj)) if multi else ([objno - 1] if nobj else [])
    os_ = [rl[ncon + k] if ncon + k < len(rl) else '_sobj[%d]' % (k + 1) for k in sel]
    return vs, cs, os_


# ------------------------------------------------------------------ graph parsing
class Graph:
    def __init__(self, lines, link_lines=None):
        self.links = []          # (kind, [src (node,b,e)], [dst (node,b,e)])  in execution order
        self.con_final = {}      # (type, index) -> dict(name, final, bridged, unused)
        self.var_final = {}
        self.node_size = {}
        self.bad = []
        order = []
        for l in lines:
            try:
                o = json.loads(l)
            except Exception:
                self.bad.append(l[:200])
                continue
            if 'link_type' in o:
                order.append(o)
            elif 'CON_TYPE' in o and 'index' in o:
                key = (o['CON_TYPE'], o['index'])
                self.touch(o['CON_TYPE'], o['index'])
                if 'final' in o:
                    self.con_final[key] = o
            elif 'VAR_index' in o:
                self.touch('dest_vars()', o['VAR_index'])
                if 'name' in o or 'printed' in o:
                    self.var_final[o['VAR_index']] = o
        order.sort(key=lambda o: tuple(o['link_index']))
        exported = []
        for o in order:
            src = [self.rng(d) for d in o['src_nodes']]
            dst = [self.rng(d) for d in o['dest_nodes']]
            exported.append((o['link_type'], src, dst))
        self.exported = exported
        if link_lines is None:
            self.links = exported
        else:
            # the entries as they really are when PresolveNames runs (RECSOLVER_LINKS dump), in execution order
            for l in link_lines:
                o = json.loads(l)
                src = [self.rng(d) for d in o['src_nodes']]
                dst = [self.rng(d) for d in o['dest_nodes']]
                self.links.append((o['link_type'], src, dst))
        # links into the ModelAPI-side nodes dest_cons(*) are registered by PushModelTo, i.e. after PresolveNames has run:
        # they take no part in the name presolve
        late = lambda e: any(n.startswith('dest_cons(') for (n, b_, e_) in e[2])
        self.late_links = [e for e in self.links if late(e)]
        self.links = [e for e in self.links if not late(e)]
        exported = [e for e in exported if not late(e)]
        self.exported = exported
        self.stale = self.links != exported

    def touch(self, node, idx):
        if self.node_size.get(node, 0) < idx + 1:
            self.node_size[node] = idx + 1

    def rng(self, d):
        (node, v), = d.items()
        if isinstance(v, list):
            b, e = v[0], v[1] + 1
        else:
            b, e = v, v + 1
        self.touch(node, e - 1)
        return (node, b, e)

    def layout(self):
        base, off = {}, 0
        for node in sorted(self.node_size):
            base[node] = off
            off += self.node_size[node]
        self.base = base
        return base

    def cell(self, node, i):
        return self.base[node] + i

    def op_lines(self):
        L = []
        for kind, src, dst in self.links:
            if kind == 'CopyLink':
                (sn, sb, se), (dn, db, de) = src[0], dst[0]
                if se - sb != de - db:
                    L.append('bad-copy-entry')
                else:
                    L.append('copy %d %d %d' % (self.cell(sn, sb), self.cell(dn, db), se - sb))
            elif kind in ('One2ManyLink', 'Many2OneLink', 'Many2ManyLink'):
                (sn, sb, se), (dn, db, de) = src[0], dst[0]
                L.append('m2m %d %d %d %d' % (self.cell(sn, sb), se - sb, self.cell(dn, db), de - db))
            elif kind.startswith('Range2Slk'):
                (sn, sb, se) = src[0]
                (cn, cb, ce), (vn, vb, ve) = dst[0], dst[1]
                L.append('slack %d %d %d' % (self.cell(sn, sb), self.cell(cn, cb), self.cell(vn, vb)))
            else:
                L.append('unknown-link ' + kind)
        return L

    def api_calls(self, root_cells):
        """the registration sequence as calls of the Lean constructor API (Model.lean `Call`)"""
        seen = set(root_cells)
        calls = ['broot %d' % c for c in root_cells]

        def tgt(c):
            if c in seen:
                return 'breuse %d' % c
            seen.add(c)
            return 'bcreate %d' % c
        i, L = 0, self.links
        unknown = 0
        while i < len(L):
            kind, src, dst = L[i]
            if kind == 'CopyLink':
                (sn, sb, se), (dn, db, de) = src[0], dst[0]
                for k in range(se - sb):
                    calls += ['bopen %d' % self.cell(sn, sb + k), tgt(self.cell(dn, db + k)), 'bclose']
                i += 1
            elif kind == 'One2ManyLink':
                # an entry may carry a source range: Many2ManyLink::AddEntry merges `same target, consecutive sources`
                # (last target of one scope = first target of the next); Distr runs source by source
                units = []
                while i < len(L) and L[i][0] == 'One2ManyLink':
                    (sn, sb, se), (dn, db, de) = L[i][1][0], L[i][2][0]
                    for sj in range(sb, se):
                        units.append((self.cell(sn, sj), [self.cell(dn, j) for j in range(db, de)]))
                    i += 1
                k = 0
                while k < len(units):
                    s0 = units[k][0]
                    calls.append('bopen %d' % s0)
                    while k < len(units) and units[k][0] == s0:
                        calls += [tgt(c) for c in units[k][1]]
                        k += 1
                    calls.append('bclose')
            elif kind == 'Many2OneLink':
                (dn, db, de) = dst[0]
                t = self.cell(dn, db)
                srcs = []
                while i < len(L) and L[i][0] == 'Many2OneLink' and self.cell(L[i][2][0][0], L[i][2][0][1]) == t:
                    (sn, sb, se) = L[i][1][0]
                    srcs += [self.cell(sn, j) for j in range(sb, se)]
                    i += 1
                seen.add(t)
                calls.append('bm2o %d %s' % (t, ' '.join(map(str, srcs))))
            elif kind.startswith('Range2Slk'):
                (sn, sb, se) = src[0]
                (cn, cb, ce), (vn, vb, ve) = dst[0], dst[1]
                con, slk = self.cell(cn, cb), self.cell(vn, vb)
                seen.add(con); seen.add(slk)
                calls += ['bopen %d' % self.cell(sn, sb), 'bslack %d %d' % (con, slk)]
                i += 1
            else:
                unknown += 1
                i += 1
        return calls, unknown

    def units(self):
        """the registered entries (execution order) as units (kind, source cell, [target cells]) / slack / many2one"""
        U = []
        for kind, src, dst in self.links:
            if kind == 'CopyLink':
                (sn, sb, se), (dn, db, de) = src[0], dst[0]
                for k in range(se - sb):
                    U.append(('copy', self.cell(sn, sb + k), [self.cell(dn, db + k)]))
            elif kind == 'One2ManyLink':
                (sn, sb, se), (dn, db, de) = src[0], dst[0]
                for sj in range(sb, se):
                    U.append(('o2m', self.cell(sn, sj), [self.cell(dn, j) for j in range(db, de)]))
            elif kind == 'Many2OneLink':
                (sn, sb, se), (dn, db, de) = src[0], dst[0]
                for sj in range(sb, se):
                    U.append(('m2o', self.cell(sn, sj), [self.cell(dn, db)]))
            elif kind.startswith('Range2Slk'):
                (sn, sb, se) = src[0]
                (cn, cb, ce), (vn, vb, ve) = dst[0], dst[1]
                U.append(('slack', self.cell(sn, sb), [self.cell(cn, cb), self.cell(vn, vb)]))
            else:
                U.append(('unknown', -1, []))
        return U

    def api_calls_from_events(self, root_cells, events):
        """constructor-API calls from the REAL auto-link scope events (RECSOLVER_SCOPES: every SetAutoLinkSource and
        TurnOffAutoLinking with the collected targets and the node sizes at opening) merged, in registration order, with the
        entries that are registered outside of scopes (explicit CopyLink / Many2OneLink / Range2Slk AddEntry calls, taken
        from the link dump).  create vs reuse of a scope target is decided by the real node size at scope opening.
        returns (calls, problems)"""
        problems = []
        scopes = []        # (src cell, sizes, [target cells in order] | None while open)
        cur = None
        for ev in events:
            if ev['ev'] == 'open':
                if ev.get('already_open'):
                    problems.append('nested-scope')
                cur = {'src': self.cell(ev['src'][0], ev['src'][1]), 'sizes': ev['sizes'], 'targets': None}
                scopes.append(cur)
            elif ev['ev'] == 'off':
                if ev['src'] is not None and cur is not None and cur['targets'] is None:
                    tg = []
                    for node, b, e in ev['targets']:
                        for j in range(b, e + 1):
                            tg.append((node, j))
                    cur['targets'] = tg
        seen = set(root_cells)
        calls = ['broot %d' % c for c in root_cells]
        U = self.units()
        j = 0

        def explicit(u):
            kind, s0, ds = u
            if kind == 'copy':
                d0 = ds[0]
                c = 'breuse %d' % d0 if d0 in seen else 'bcreate %d' % d0
                seen.add(d0)
                return ['bopen %d' % s0, c, 'bclose']
            return None
        empty_scopes = [sc['src'] for sc in scopes if not sc['targets']]
        slack_srcs = set(u[1] for u in U if u[0] == 'slack')

        def flush_explicit(upto_match):
            nonlocal j
            while j < len(U):
                if upto_match is not None and U[j:j + len(upto_match)] == upto_match:
                    return True
                u = U[j]
                if u[0] == 'copy':
                    calls.extend(explicit(u))
                    j += 1
                elif u[0] == 'm2o':
                    t = u[2][0]
                    srcs = []
                    while j < len(U) and U[j][0] == 'm2o' and U[j][2][0] == t:
                        srcs.append(U[j][1]); j += 1
                    seen.add(t)
                    calls.append('bm2o %d %s' % (t, ' '.join(map(str, srcs))))
                elif u[0] == 'slack':
                    if u[1] in empty_scopes:
                        empty_scopes.remove(u[1])
                    else:
                        problems.append('slack-entry-without-scope')
                    seen.update(u[2])
                    calls.extend(['bopen %d' % u[1], 'bslack %d %d' % (u[2][0], u[2][1])])
                    j += 1
                else:
                    problems.append('entry-not-explained-by-scope-events:%s' % u[0])
                    j += 1
            return upto_match is None
        def flush_one():
            nonlocal j
            if j >= len(U):
                return False
            j0 = j
            u = U[j]
            if u[0] == 'o2m':
                problems.append('one2many-entry-not-explained-by-scope-events')
                j += 1
                return True
            save = list(U)
            # emit just this explicit group
            U_tail = U[j + 1:]
            if u[0] == 'm2o':
                flush_m2o()
            else:
                del U[j + 1:]
                flush_explicit(None)
                U.extend(U_tail)
            return j > j0

        def flush_m2o():
            nonlocal j
            t = U[j][2][0]
            srcs = []
            while j < len(U) and U[j][0] == 'm2o' and U[j][2][0] == t:
                srcs.append(U[j][1]); j += 1
            seen.add(t)
            calls.append('bm2o %d %s' % (t, ' '.join(map(str, srcs))))
        for sc in scopes:
            if not sc['targets']:
                continue
            cells = [self.cell(n, i) for n, i in sc['targets']]
            # what ~AutoLinkScope registers (mirrors Model.closeOps): one CopyLink unit for a single target, else One2Many
            if len(cells) == 1:
                expected = [('copy', sc['src'], cells)]
            else:
                # one One2Many unit per collected target *range*; ranges are what FlatConverter::AutoLink merged
                expected = None
            created = set()
            body = []
            for (n, i), c in zip(sc['targets'], cells):
                if i >= sc['sizes'].get(n, 0) and c not in created:
                    body.append('bcreate %d' % c); created.add(c)
                else:
                    body.append('breuse %d' % c)
            if expected is None:
                # match greedily: consecutive o2m units with this source whose concatenated targets equal `cells`
                def try_match(k):
                    got = []
                    while k < len(U) and U[k][0] == 'o2m' and U[k][1] == sc['src'] and len(got) < len(cells):
                        got += U[k][2]; k += 1
                    return k if got == cells else None
                k0 = None
                while j < len(U):
                    k0 = try_match(j)
                    if k0 is not None:
                        break
                    if not flush_one():
                        break
                if k0 is None:
                    problems.append('scope-not-found-in-links')
                    continue
                j = k0
            else:
                if not flush_explicit(expected):
                    problems.append('scope-not-found-in-links')
                    continue
                j += len(expected)
            seen.update(cells)
            calls += ['bopen %d' % sc['src']] + body + ['bclose']
        flush_explicit(None)
        for s0 in empty_scopes:
            if s0 not in slack_srcs:
                calls += ['bopen %d' % s0, 'bclose']
        return calls, problems

    def ancestors(self):
        """root source cells reaching each cell (by flat cell id), following entries in order"""
        anc = {}

        def get(c):
            return anc.get(c, {c})
        for kind, src, dst in self.links:
            scells = [self.cell(n, i) for (n, b, e) in src for i in range(b, e)]
            dcells = [self.cell(n, i) for (n, b, e) in dst for i in range(b, e)]
            if kind == 'CopyLink':
                pairs = list(zip(scells, dcells))
            else:
                pairs = [(s, d) for s in scells for d in dcells]
            for s, d in pairs:
                anc[d] = anc.get(d, set()) | get(s)
        return anc


# ------------------------------------------------------------------ one case
FILE_VARIANTS = ['full', 'full', 'absent', 'colonly', 'rowonly', 'short', 'crlf', 'shortcrlf', 'full', 'full', 'absent', 'short', 'crlf', 'nonewline',
                 'mixed-crlf-then-lf', 'mixed-lf-then-crlf', 'mixed-random']


def make_files(rng, m, stub, variant):
    """returns (col bytes|None, row bytes|None) after writing/removing the files"""
    col_names = [m.vars[j]['name'] for j in m.perm] + [dv['name'] for dv in getattr(m, 'dvars', [])]
    row_names = [m.cons[i]['name'] for i in m.con_order] + [l['name'] for l in m.lcons] + [m.objs[i]['name'] for i in m.obj_order]
    eol = '\r\n' if 'crlf' in variant else '\n'
    if variant.startswith('short'):
        col_names = col_names[:rng.below(len(col_names) + 1)]
        row_names = row_names[:rng.below(len(row_names) + 1)]
    def join(names):
        if variant == 'mixed-crlf-then-lf':       # Windows lines, last line ends in a bare LF
            eols = ['\r\n'] * (len(names) - 1) + ['\n']
        elif variant == 'mixed-lf-then-crlf':
            eols = ['\n'] * (len(names) - 1) + ['\r\n']
        elif variant == 'mixed-random':
            eols = [rng.choice(['\n', '\r\n']) for _ in names]
        else:
            eols = [eol] * len(names)
        return ''.join(n + e for n, e in zip(names, eols)).encode('latin-1')
    col = join(col_names)
    row = join(row_names)
    if variant == 'nonewline' and row:
        row = row[:-1]                     # last line of .row not terminated: ReadError "missing newline"
    if variant == 'absent':
        col = row = None
    elif variant == 'colonly':
        row = None
    elif variant == 'rowonly':
        col = None
    for ext, data in (('.col', col), ('.row', row)):
        p = stub + ext
        if os.path.exists(p):
            os.remove(p)
        if data is not None:
            open(p, 'wb').write(data)
    return col, row


def sos_names(g):
    """names the flattener gives to SOS constraints built from .sosno/.ref (std::map order: ascending sosno)"""
    s1, s2 = [], []
    for no in sorted(g.sos_groups):
        if len(g.sos_groups[no]) > 1:
            (s2 if no < 0 else s1).append(('SOS2_%d_' if no < 0 else 'SOS1_%d_') % no)
    return s1, s2


class Stats:
    def __init__(self):
        self.d = {}

    def inc(self, k, n=1):
        self.d[k] = self.d.get(k, 0) + n


def gen_case(ck, rng, idx, workdir, size):
    """generate model + files + configuration (consumes the PRNG; runs nothing)"""
    stub = os.path.join(workdir, 'm%d' % idx)
    g = c19gen.Gen(rng, size)
    conic = (idx % 4 == 3)
    if conic:
        g.family = 'conic'
        m = g.conic_model()
    elif idx % 10 == 7:
        g.family = 'norows'
        m = g.model(norows=True)
    else:
        m = g.model()
    m.write(stub, names=False)
    variant = rng.choice(FILE_VARIANTS)
    mode = rng.choice([1, 1, 2, 2, 3, 0])
    col, row = make_files(rng, m, stub, variant)
    nobj = len(m.objs)
    multi, objno = False, 1
    opts = ['cvt:names=%d' % mode]
    if nobj >= 2:
        k = rng.below(3)
        if k == 1:
            objno = 2
            opts.append('obj:no=2')
        elif k == 2:
            multi = True
            opts.append('obj:multi=1')
    qenv = None
    if conic:
        accept = c19gen.gen_accept_conic(rng)
        copts, qenv = c19gen.conic_options(rng)
        opts += copts
        if g.has_compl and accept != ['ALL']:
            accept = accept + ['ComplementarityLinear']
    else:
        accept = c19gen.gen_accept(rng)
    if g.sos_groups and accept != ['ALL'] and rng.chance(4, 5):
        accept = accept + [t for t in ('SOS1Constraint', 'SOS2Constraint') if t not in accept]
    nv, nalg, ncon = len(m.vars), len(m.cons), len(m.cons) + len(m.lcons)
    export_names = rng.chance(1, 2)     # names not requested + cvt:writegraph: BasicProblem::item_name invents names
    ndv = len(getattr(m, 'dvars', []))
    replay = {'seed': ck.seed, 'case': idx, 'stub': os.path.relpath(stub, VERIF), 'options': opts, 'accept': ','.join(accept),
              'RECSOLVER_QUADOBJ': qenv, 'family': g.family,
              'variant': variant, 'scheme': g.scheme,
              'how': 'VERIF_SEED=%d ./check C19 regenerates build/c19/%s.{nl,col,row}; run build/bin/recsolver-* <stub> -AMPL <options> with RECSOLVER_ACCEPT/RECSOLVER_LOG set' % (ck.seed, os.path.basename(stub))}
    return dict(locals())


def exec_case(ck, exe, drv, st, case):
    """returns list of (sig, what, replay, found_input)"""
    out = []
    g, m, stub, variant, mode, col, row = (case[k] for k in ('g', 'm', 'stub', 'variant', 'mode', 'col', 'row'))
    nobj, multi, objno, opts, accept, nv, nalg, ncon, replay, idx = (case[k] for k in ('nobj', 'multi', 'objno', 'opts', 'accept', 'nv', 'nalg', 'ncon', 'replay', 'idx'))
    qenv = case['qenv']
    ndv, export_names = case['ndv'], case['export_names']
    st.inc('family=' + g.family)
    exp = expected_sources(mode, col, row, nv, ncon, nalg, nobj, objno, multi)
    src_kind = 'files-or-generic'
    nonl = variant == 'nonewline' and mode in (1, 2) and row is not None
    if nonl:
        exp = None
    if exp is None and export_names and not nonl and not multi and objno == 1:
        # nothing read / requested, but the graph export asks BasicProblem for names: _x[i], _CON<i>_, _LCON<i>_, _OBJ<i>_
        src_kind = 'item_name'
        exp = (['_x[%d]' % (i + 1) for i in range(nv)],
               ['_CON%d_' % (i + 1) if i < nalg else '_LCON%d_' % (i - nalg + 1) for i in range(ncon)],
               ['_OBJ%d_' % (i + 1) for i in range(min(nobj, 1))])     # objno=1: only the first objective is delivered
    st.inc('sources-from=' + src_kind)
    if exp is not None:      # arms of the NameProvider / readNamesModel / itemNamesModel taken by this case
        evs_, ecs_, eos_ = exp
        for cond, arm in ((nobj == 0, 'no-objective'), (multi, 'multiobj'), (objno == 2, 'objno=2'), (ndv > 0, 'defined-variables'),
                          (any(x.startswith('_svar[') for x in evs_), 'generic-_svar'), (any(x.startswith('_scon[') for x in ecs_), 'generic-_scon'),
                          (any(x.startswith('_slogcon[') for x in ecs_), 'generic-_slogcon'), (any(x.startswith('_sobj[') for x in eos_), 'generic-_sobj'),
                          (any(x.startswith('_LCON') for x in ecs_), 'item-_LCON'), (src_kind == 'item_name', 'item-names'),
                          ('crlf' in variant and mode in (1, 2), 'crlf-file'), (mode == 1 and col is None and row is not None, 'mode1-row-only'),
                          (mode == 1 and row is None and col is not None, 'mode1-col-only')):
            if cond:
                st.inc('arm:np:' + arm)
    st.inc('mode=%d' % mode)
    st.inc('files=' + variant)
    st.inc('scheme=' + g.scheme)
    st.inc('accept=' + ('ALL' if accept == ['ALL'] else 'linear' if set(accept) <= set(c19gen.LINEAR) else 'mixed'))
    linkf = stub + '.links'
    if os.path.exists(linkf):
        os.remove(linkf)
    r = recsolver.run(exe, stub, options=opts, accept=accept, graph=(exp is not None), timeout=60, env={'RECSOLVER_LINKS': linkf, 'RECSOLVER_SCOPES': stub + '.scopes'}, quadobj=qenv)
    log = r['log']
    if nonl:
        # a names file whose last line is not terminated: diagnosed error, no model may be delivered
        st.inc('class:names-file-missing-newline')
        ans = drv.ask('np %d %s %s %d %d %d %d %d %d %d' % (mode, '-' if col is None else ('0' if col == b'' else col.hex()), row.hex() if row else '0',
                                                           nv, ndv, ncon, nalg, nobj, objno, 1 if multi else 0))
        delivered_any = any(e.get('ev') in ('vars', 'con') for e in log)
        if (ans == 'error') != (not delivered_any):
            out.append(('model:missing-newline', 'unterminated .row: Lean model says %r, real driver %s a model' % (ans, 'delivered' if delivered_any else 'did not deliver'), replay, False))
        if delivered_any and 'missing newline' not in (r['sol'] or '') + r['err'] + r['out']:
            out.append(('names-file-error-ignored', 'unterminated last line of .row neither diagnosed nor harmless', replay, True))
        return out
    if r['rc'] != 0 or not any(e.get('ev') == 'end' for e in log):
        st.inc('run:rejected-or-failed')
        if r['rc'] not in (0, 1) and r['rc'] != 'timeout':
            # does it also die with names switched off?  then it is not a names defect (reported to the lead, counted)
            r0 = recsolver.run(exe, stub, options=[o for o in opts if not o.startswith('cvt:names')] + ['cvt:names=0'], accept=accept, graph=False, timeout=60, quadobj=qenv)
            if r0['rc'] == r['rc']:
                st.inc('run:driver-crash-also-without-names')
                if len(ck.cov.setdefault('driver_crashes_outside_names', [])) < 3:
                    ck.cov['driver_crashes_outside_names'].append({'case': idx, 'rc': r['rc'], 'stub': replay['stub'], 'accept': replay['accept']})
            else:
                out.append(('driver-crash-with-names', 'recsolver died with rc=%r only when names are requested: %s' % (r['rc'], r['err'][-300:]), replay, True))
        return out
    vars_ev = [e for e in log if e['ev'] == 'vars']
    vnames = vars_ev[0]['names'] if vars_ev and vars_ev[0]['has_names'] else None
    cons = [(e['type'], e['name']) for e in log if e['ev'] == 'con']
    objs = [e['name'] for e in sorted((e for e in log if e['ev'] == 'obj'), key=lambda e: e['i'])]
    st.inc('run:ok')
    st.inc('delivered_vars', vars_ev[0]['n'] if vars_ev else 0)
    st.inc('delivered_cons', len(cons))
    for t, _ in cons:
        st.inc('contype:' + t)
    if exp is None:
        # names not requested (mode 0) or mode 1 without any file: nothing may be invented
        st.inc('class:names-not-requested')
        if vnames is not None or any(n for t, n in cons if not (t.startswith('SOS') and n.startswith('SOS'))) or any(objs):
            out.append(('names-although-not-requested', 'cvt:names=%d, no name files, yet names were delivered' % mode, replay, True))
        return out
    st.inc('class:names-requested')
    evs, ecs, eos = exp
    srcs_v = list(evs)
    s1, s2 = sos_names(g)
    srcs_c = list(ecs) + s1 + s2
    srcs_all = srcs_v + srcs_c + list(eos)      # derived variables take names from constraints/objectives: one namespace of roots
    innocent = suffix_free(srcs_all) and all(srcs_all)
    st.inc('sources:' + ('suffix-free' if innocent else 'adversarial'))
    cls = 'innocent-sources' if innocent else 'adversarial-sources'
    # ---------------- (a) oracle on the delivered names
    if vnames is None and src_kind == 'item_name':
        # names were not requested; BasicProblem invents them lazily only when the graph export prints a variable
        st.inc('class:item-names-not-generated')
        return out
    if vnames is None:
        out.append(('no-names-delivered', 'names requested (mode %d, files %s) but AddVariables got no names' % (mode, variant), replay, True))
        return out
    pending = []     # (sig prefix, what, replay): the failing-input class is completed once the graph hypotheses are known
    allnames = [('var', n) for n in vnames] + [('con', n) for _, n in cons] + [('obj', n) for n in objs]
    for kind, n in allnames:
        if n == '':
            pending.append(('empty-name:%s' % kind, 'an item of kind %s was delivered with an empty name' % kind, replay))
            break
    for kind, lst in (('var', vnames), ('con', [n for _, n in cons])):
        seen = {}
        for n in lst:
            seen[n] = seen.get(n, 0) + 1
        dup = sorted(n for n, k in seen.items() if k > 1 and n != '')
        if dup:
            st.inc('duplicates:%s:%s' % (kind, cls))
            rp = dict(replay)
            rp['duplicate_names'] = dup[:5]
            rp['sources'] = {'vars': srcs_v, 'cons': srcs_c, 'objs': list(eos)}
            pending.append(('duplicate-%s-names:%s' % (kind, cls),
                            'two delivered %ss share the name %r (source names: %s)' % (kind, dup[0], 'suffix-free' if innocent else 'not suffix-free'), rp))
    if vnames[:nv] != evs:
        out.append(('original-var-name-lost', 'variables delivered as %r, name files/generic names say %r' % (vnames[:nv], evs), replay, True))
    if objs != eos:
        out.append(('original-obj-name-lost', 'objectives delivered as %r, expected %r' % (objs, eos), replay, True))
    # ---------------- graph-based checks
    link_lines = [l for l in open(linkf).read().split('\n') if l] if os.path.exists(linkf) else None
    if link_lines is None:
        st.inc('links:no-dump')
    G = Graph(r['graph'] or [], link_lines)
    st.inc('export-stale=%d' % G.stale)
    if G.stale:
        # since repo commit 5f9dc1e an entry is extended only while it is the last registered one, i.e. before it is exported
        out.append(('link-entry-changed-after-export', 'the link entries at presolve time differ from the cvt:writegraph export (an entry was extended in place after registration)',
                    dict(replay, exported=[str(x) for x in G.exported if x not in G.links][:3], real=[str(x) for x in G.links if x not in G.exported][:3]), True))
    if G.bad:
        st.inc('graph:unparsable-lines', len(G.bad))
    for node, n in (('src_vars()', nv), ('src_cons()', ncon), ('src_objs()', len(eos)), ('dest_objs()', len(eos)),
                    ('dest_vars()', len(vnames)), ('_sos1', len(s1)), ('_sos2', len(s2))):
        if n:
            G.touch(node, n - 1)
    G.layout()
    root_name = {}
    for i, n in enumerate(evs):
        root_name[G.cell('src_vars()', i)] = n
    for i, n in enumerate(ecs):
        root_name[G.cell('src_cons()', i)] = n
    for i, n in enumerate(eos):
        root_name[G.cell('src_objs()', i)] = n
    for i, n in enumerate(s1):
        root_name[G.cell('_sos1', i)] = n
    for i, n in enumerate(s2):
        root_name[G.cell('_sos2', i)] = n
    anc = G.ancestors()
    final_cons = [(k, o) for k, o in sorted(G.con_final.items()) if o.get('final')]
    # delivered constraints as the graph export sees them must be the ones the API received
    if sorted(o.get('name', '') for _, o in final_cons) != sorted(n for _, n in cons):
        st.inc('graph:final-names-differ-from-api')
        out.append(('export-vs-api-names', 'names of final constraints in the graph export differ from the names the ModelAPI received',
                    dict(replay, export=sorted(o.get('name', '') for _, o in final_cons)[:20], api=sorted(n for _, n in cons)[:20]), False))

    def derived_ok(cell, name):
        for rt in anc.get(cell, {cell}):
            rn = root_name.get(rt)
            if rn is not None and name.startswith(rn) and CHAIN_RE.match(name[len(rn):]):
                return True
        return False
    for (t, i), o in final_cons:
        if not derived_ok(G.cell(t, i), o.get('name', '')):
            if o.get('name', '') != '':      # empty names are reported by the non-emptiness oracle
                out.append(('underived-con-name', 'constraint %s[%d] is named %r, which is not <name of an item it comes from> + suffix chain' % (t, i, o.get('name', '')), replay, True))
                break
    for i, n in enumerate(vnames):
        if not derived_ok(G.cell('dest_vars()', i), n):
            if n != '':
                out.append(('underived-var-name', 'variable %d is named %r, which is not <name of an item it comes from> + suffix chain' % (i, n), replay, True))
                break
    # ---------------- (b) Lean recomputation
    np_line = 'np %d %s %s %d %d %d %d %d %d %d' % (
        mode, '-' if col is None else ('0' if col == b'' else col.hex()), '-' if row is None else ('0' if row == b'' else row.hex()),
        nv, ndv, ncon, nalg, nobj, objno, 1 if multi else 0)
    if src_kind == 'item_name':
        np_line = 'inames %d %d %d %d %d' % (nv, ndv, ncon, nalg, nobj)
    ans = drv.ask(np_line)
    if not ans.startswith('names '):
        out.append(('model:nameprovider', 'Lean NameProvider model says %r but the real driver delivered names' % ans, dict(replay, op=np_line), False))
        return out + [(sg + ':unclassified', w, rp, True) for sg, w, rp in pending]
    mm = re.match(r'names V(.*) C(.*) O(.*)\Z', ans)
    lv, lc, lo = ([unhx(h) for h in mm.group(k).split()] for k in (1, 2, 3))
    if src_kind == 'item_name':
        lo = lo[:len(eos)]
    lv = lv[:nv]          # FlatConverter keeps the names of the NL variables only (defined-variable names are cut off)
    if ndv:
        st.inc('arm:names-with-defined-variables')
    if (lv, lc, lo) != (evs, ecs, eos):
        out.append(('model:nameprovider-vs-reference', 'Lean NameProvider model %r differs from the documented reference %r' % ((lv, lc, lo), (evs, ecs, eos)), dict(replay, op=np_line), False))
    lines = ['reset']
    for i, n in enumerate(lv[:nv]):
        lines.append('src %d %s' % (G.cell('src_vars()', i), hx(n)))
    for i, n in enumerate(lc):
        lines.append('src %d %s' % (G.cell('src_cons()', i), hx(n)))
    for i, n in enumerate(lo):
        lines.append('src %d %s' % (G.cell('src_objs()', i), hx(n)))
    for i, n in enumerate(s1):
        lines.append('src %d %s' % (G.cell('_sos1', i), hx(n)))
    for i, n in enumerate(s2):
        lines.append('src %d %s' % (G.cell('_sos2', i), hx(n)))
    ops = G.op_lines()
    for o in ops:
        st.inc('linkop:' + o.split()[0])
    root_cells = sorted(root_name)
    try:
        events = [json.loads(l) for l in open(stub + '.scopes') if l.strip()]
    except Exception:
        events = None
    if events is None:
        api, api_problems = G.api_calls(root_cells)[0], ['no-scope-events']
    else:
        api, api_problems = G.api_calls_from_events(root_cells, events)
    api_unknown = len(api_problems)
    for pr in api_problems:
        st.inc('api:problem:' + pr)
    st.inc('api:scope-events', len(events or []))
    lines += ops + api + ['bend', 'run']
    res = drv.many(lines)
    bad = [(l, a) for l, a in zip(lines, res) if a == 'bad-op' or (a != 'ok' and not a.startswith('run ') and not a.startswith('ok='))]
    if bad:
        out.append(('model:bad-op', 'the Lean driver cannot interpret %r' % (bad[0],), replay, False))
        return out + [(sg + ':unclassified', w, rp, True) for sg, w, rp in pending]
    runinfo = dict(kv.split('=') for kv in res[-1].split()[1:])
    count_arms(st, runinfo)
    binfo = dict(kv.split('=', 1) for kv in res[-2].split())
    built = binfo.get('ok') == '1' and binfo.get('closed') == '1' and binfo.get('opsequal') == '1' and not api_unknown
    st.inc('api:built=%d' % built)
    st.inc('api:calls', len(api))
    api_leaves = set(int(x) for x in binfo.get('leaves', '').split(',') if x)
    delivered_cells = [G.cell('dest_vars()', i) for i in range(len(vnames))] + [G.cell(t, i) for (t, i), o in final_cons] + [G.cell('dest_objs()', i) for i in range(len(objs))]
    not_leaf = [c for c in delivered_cells if c not in api_leaves]
    st.inc('api:delivered-not-a-leaf', len(not_leaf))
    inv_base = sorted(((v, k) for k, v in G.base.items()), reverse=True)
    for c in not_leaf:
        st.inc('api:not-leaf-node:' + next(k for v, k in inv_base if v <= c))
    if not built:
        # the real registration sequence is not a sequence of constructor-API calls (or yields other operations):
        # the by-construction theorems (C19_*_built) do not cover this run
        out.append(('registration-outside-constructor-api',
                    'the real link registration cannot be replayed through the constructor API: ok=%s closed=%s opsequal=%s problems=%d' % (
                        binfo.get('ok'), binfo.get('closed'), binfo.get('opsequal'), api_unknown), dict(replay, api_calls=api[:60], problems=api_problems[:5]), True))
    q = ['var %d' % G.cell('dest_vars()', i) for i in range(len(vnames))]
    q += ['var %d' % G.cell('dest_objs()', i) for i in range(len(objs))]
    conkeys = sorted(G.con_final)
    q += ['con %d' % G.cell(t, i) for (t, i) in conkeys]
    leafq = ['dvars ' + ' '.join(str(G.cell('dest_vars()', i)) for i in range(len(vnames))),
             'dcons ' + ' '.join(str(G.cell(t, i)) for (t, i), o in final_cons),
             'dvars ' + ' '.join(str(G.cell('dest_objs()', i)) for i in range(len(objs)))]
    a = drv.many(q + leafq)
    got = [unhx(h) if re.fullmatch(r'-|([0-9a-f]{2})+', h) else '?' + h for h in a[:len(q)]]
    real = list(vnames) + list(objs) + [G.con_final[k].get('name', '') for k in conkeys]
    st.inc('cells_compared', len(q))
    diffs = [(qq, rr, gg) for qq, rr, gg in zip(q, real, got) if rr != gg]
    if diffs:
        st.inc('model-vs-impl:cells-differ', len(diffs))
        qq, rr, gg = diffs[0]
        out.append(('model:derived-names-differ',
                    'name presolve model over the exported graph gives %r for cell "%s", the real run %r (%d cells differ)' % (gg, qq, rr, len(diffs)),
                    dict(replay, first=diffs[:5]), False))
    dinfo = [dict(kv.split('=') for kv in x.split()) for x in a[len(q):]]
    leaves = all(x.get('belowfree') == '1' and x.get('uncounted') == '1' for x in dinfo)
    sfv = sfc = drv.ask('sf ' + ' '.join(hx(n) for n in srcs_all))
    if (sfv == '1') != suffix_free(srcs_all):
        out.append(('model:suffixfree-differs', 'Lean suffixFreeB and the python reference disagree on %r' % (srcs_all,), replay, False))
    st.inc('hyp:topo=%d' % (runinfo.get('topo') == '1'))
    if runinfo.get('topo') == '1' and runinfo.get('wellfed') != '1':
        out.append(('model:topo-implies-wellfed-contradicted', 'topoB holds but wellFed does not on this run (C19_wellFed_of_topological)', replay, False))
    if runinfo.get('topo') != '1':
        # since repo commit 5f9dc1e links run in registration order; a source that is neither an original
        # item nor the target of an earlier entry means the converter registered links out of order
        out.append(('link-source-not-fed-by-earlier-entry', 'a link entry reads a cell that is neither an original item nor the target of an earlier entry (topoB false)', replay, True))
    hyps = {'wellfed': runinfo.get('wellfed') == '1', 'sib': runinfo.get('sib') == '1',
            'plainsafe': runinfo.get('noclash') == '1' and runinfo.get('closed') == '1',
            'leaves': leaves, 'suffixfree': sfv == '1' and sfc == '1'}
    # by construction (C19_*_built theorems): only SuffixFree and NoClash remain as hypotheses when the run is a built graph
    # whose delivered items are exactly leaves
    hyps_built = {'built': built, 'roots-named': all(srcs_all), 'delivered-are-leaves': not not_leaf, 'suffixfree': hyps['suffixfree'], 'noclash': hyps['plainsafe']}
    for k_, v_ in hyps_built.items():
        st.inc('built-hyp:%s=%d' % (k_, v_))
    st.inc('built-theorem-applies=%d' % all(hyps_built.values()))
    if built and not not_leaf and not all(hyps[k] for k in ('wellfed', 'sib', 'leaves')):
        out.append(('model:built-theorem-contradicted', 'a built graph with leaf deliveries violates a structural hypothesis that C19_built_* prove: %r' % hyps, replay, False))
    for k, v in hyps.items():
        st.inc('hyp:%s=%d' % (k, v))
    st.inc('edges', int(runinfo.get('edges', 0)))
    # failing-input class = the first hypothesis of the theorems that this run violates
    linked = set(anc) | set(root_name)
    unlinked_v = [i for i in range(len(vnames)) if G.cell('dest_vars()', i) not in linked]
    unlinked_c = [(t, i) for (t, i), o in final_cons if G.cell(t, i) not in linked]
    st.inc('delivered-items-without-any-link', len(unlinked_v) + len(unlinked_c))
    covered = all(x.get('covered') == '1' for x in dinfo)
    st.inc('hyp:covered=%d' % covered)
    if covered != (not (unlinked_v or unlinked_c)):
        out.append(('model:covered-differs', 'Lean coveredB=%s but the python graph walk finds unlinked delivered items %r %r' % (covered, unlinked_v[:3], unlinked_c[:3]), replay, False))
    if unlinked_v or unlinked_c or not covered:
        why = 'unlinked-item'                  # a delivered item is neither an original item nor the target of any link entry
    elif not hyps['wellfed']:
        why = 'unnamed-link-source'            # a link entry ran before its source cell had a name
    elif not hyps['leaves']:
        why = 'delivered-item-also-converted'  # a delivered item is the source of further (named) items
    elif not hyps['plainsafe']:
        why = 'plain-child-converted-further'
    elif not hyps['sib']:
        why = 'range-converted-twice'
    else:
        why = 'unexplained'
    for sig, what, rp in pending:
        if sig.endswith('adversarial-sources'):
            out.append((sig, what, rp, True))
        else:
            out.append((sig + ':' + why, what + ' [%s]' % why, dict(rp, hypotheses=hyps), True))
    if all(hyps.values()):
        st.inc('theorem-applies')
        # C19_unique / C19_nonempty apply to this run: with the cells equal (checked above) the real names are
        # pairwise different and non-empty.  Anything else contradicts the theorems => model drift.
        if pending and why == 'unexplained':
            out.append(('model:theorem-contradicted', 'all hypotheses of C19_unique/C19_nonempty hold on this run, yet %s' % pending[0][0], replay, False))
    else:
        st.inc('theorem-not-applicable')
        if not hyps['plainsafe'] or not hyps['leaves'] or not hyps['sib'] or not hyps['wellfed']:
            st.inc('graph-hypothesis-fails')
            if len(ck.cov.setdefault('graph_hypothesis_failures', [])) < 5:
                ck.cov['graph_hypothesis_failures'].append({'case': idx, 'hyps': hyps, 'options': opts, 'accept': ','.join(accept)})
    return out


ARM_NAMES = ['copy:stores-first-copy', 'copy:stores-counted-copy', 'copy:target-already-named', 'distr:stores-first-copy',
             'distr:stores-counted-copy', 'distr:target-already-named', 'sgive:stores', 'sgive:target-already-named']


def count_arms(st, runinfo):
    for nm, v in zip(ARM_NAMES, (runinfo.get('arms') or '').split(',')):
        if v.isdigit():
            st.inc('arm:' + nm, int(v))


# ------------------------------------------------------------------ direct link-level stage (harness/h_links.cc)
def link_scenario(rng):
    """random node sizes, initial names and a random sequence of AddEntry calls (incl. consecutive/extendable ones,
    interleavings, reads of unnamed cells, writes into named cells)"""
    nn = rng.rint(6, 8)
    sizes = [rng.rint(1, 4), rng.rint(1, 4), rng.rint(0, 2), rng.rint(3, 8), rng.rint(2, 5), rng.rint(2, 5)] + [rng.rint(1, 6) for _ in range(nn - 6)]
    base = ['x', 'c', 'o']
    adv = rng.chance(1, 4)
    src = []
    for k in range(3):
        cnt = max(0, sizes[k] + rng.choice([0, 0, 0, -1, 1]))
        names = ['%s%d' % (base[k], i + 1) for i in range(cnt)]
        if adv and cnt > 1 and rng.chance(1, 2):
            names[-1] = names[0] + rng.choice(['_2_', '_slk_', '_3__2_'])
        src.append(names)
    presets = []
    for _ in range(rng.below(3)):
        n = rng.rint(3, nn - 1)
        cand = (n, rng.below(sizes[n]), rng.choice(['SOS1_1_', 'SOS2_-1_', 'p', 'x1', 'c1_2_']))
        if not any(pn == cand[0] and pi == cand[1] for pn, pi, _ in presets):
            presets.append(cand)
    cmds = []
    last = None
    for _ in range(rng.rint(3, 14)):
        k = rng.below(12)
        if last is not None and rng.chance(1, 3):
            # try to continue the previous entry (extendable ranges)
            kind = last[0]
            if kind == 'copy':
                _, l, sn, sb, dn, db, ln = last
                ln2 = rng.rint(1, 2)
                if sb + ln + ln2 <= sizes[sn] and db + ln + ln2 <= sizes[dn]:
                    last = ('copy', l, sn, sb + ln, dn, db + ln, ln2); cmds.append(last); continue
            elif kind == 'o2m':
                _, sn, si, dn, db, dl = last
                if db + dl + 1 <= sizes[dn]:
                    last = ('o2m', sn, si, dn, db + dl, 1); cmds.append(last); continue
            elif kind == 'm2o':
                _, sn, sb, sl, dn, di = last
                if sb + sl + 1 <= sizes[sn]:
                    last = ('m2o', sn, sb + sl, 1, dn, di); cmds.append(last); continue
        sn = rng.below(nn)
        dn = rng.rint(3, nn - 1)
        if sizes[sn] == 0:
            continue
        if k < 4:
            ln = rng.rint(1, min(2, sizes[sn], sizes[dn]))
            last = ('copy', rng.below(2), sn, rng.below(sizes[sn] - ln + 1), dn, rng.below(sizes[dn] - ln + 1), ln)
        elif k < 8:
            dl = rng.rint(1, min(3, sizes[dn]))
            last = ('o2m', sn, rng.below(sizes[sn]), dn, rng.below(sizes[dn] - dl + 1), dl)
        elif k == 8:
            sl = rng.rint(1, min(3, sizes[sn]))
            last = ('m2o', sn, rng.below(sizes[sn] - sl + 1), sl, dn, rng.below(sizes[dn]))
        elif k == 9:
            sl = rng.rint(1, min(2, sizes[sn])); dl = rng.rint(1, min(2, sizes[dn]))
            last = ('m2m', sn, rng.below(sizes[sn] - sl + 1), sl, dn, rng.below(sizes[dn] - dl + 1), dl)
        else:
            last = ('slack', rng.below(sizes[4]), rng.below(sizes[5]), rng.below(sizes[3]))
        cmds.append(last)
    return sizes, src, presets, cmds


def stage_links(ck, drv, st, rng, n, cov=False):
    fl = ['-O0', '-g', '--coverage'] if cov else ['-O1', '-g', '-fsanitize=address,undefined', '-fno-sanitize-recover=all']
    h = ck.objects([os.path.join(VERIF, 'harness', 'h_links.cc')], flags=fl, tag='c19')
    exe = ck.link('h_links', h + ck.libmp_objects(flags=tuple(fl)), flags=['--coverage'] if cov else ['-fsanitize=address,undefined'])
    ck.log('h_links built')
    scen = [link_scenario(rng) for _ in range(n)]
    inp = []
    for sizes, src, presets, cmds in scen:
        inp.append('nodes ' + ' '.join(map(str, sizes)))
        for k in range(3):
            inp.append('src %d %s' % (k, ' '.join(hx(x) for x in src[k])))
        for nnode, i, nm in presets:
            inp.append('preset %d %d %s' % (nnode, i, hx(nm)))
        for c in cmds:
            inp.append(' '.join(map(str, c)))
        inp.append('run')
    p = subprocess.run([exe], input='\n'.join(inp) + '\n', capture_output=True, text=True, env=dict(os.environ, ASAN_OPTIONS='detect_leaks=0'), timeout=900)
    outl = [l for l in p.stdout.split('\n') if l.startswith('cells')]
    if p.returncode != 0 or len(outl) != len(scen):
        ck.add_violation('links:harness-died', 'harness/h_links died (rc=%r) after %d of %d scenarios: %s' % (p.returncode, len(outl), len(scen), p.stderr[-400:]),
                         {'scenario': scen[len(outl)] if len(outl) < len(scen) else None}, found_input=True)
    LINKID = {'o2m': 2, 'm2o': 3, 'm2m': 4, 'slack': 5}
    for (sizes, src, presets, cmds), real in zip(scen, outl):
        st.inc('links:scenarios')
        bases = [sum(sizes[:i]) for i in range(len(sizes))]
        L = ['reset', 'bases ' + ' '.join(map(str, bases))]
        roots = []
        for k in range(3):
            for i, nm in enumerate(src[k][:sizes[k]]):
                L.append('src %d %s' % (bases[k] + i, hx(nm)))
                roots.append(nm)
        for nnode, i, nm in presets:
            L.append('src %d %s' % (bases[nnode] + i, hx(nm)))
            roots.append(nm)
        # a later preset of the same cell wins in the harness as well (plain assignment into an empty VCString keeps the first!)
        for c in cmds:
            st.inc('links:' + c[0])
            if c[0] == 'copy':
                L.append('acopy %d %d %d %d %d %d' % c[1:])
            elif c[0] == 'o2m':
                L.append('am2m 2 %d %d 1 %d %d %d' % c[1:])
            elif c[0] == 'm2o':
                L.append('am2m 3 %d %d %d %d %d 1' % c[1:])
            elif c[0] == 'm2m':
                L.append('am2m 4 %d %d %d %d %d %d' % c[1:])
            else:
                L.append('aslack 5 4 %d 5 %d 3 %d' % c[1:])
        L += ['sched', 'run']
        res = drv.many(L)
        if any(a == 'bad-op' for a in res):
            ck.add_violation('model:bad-op', 'links stage: Lean driver rejected %r' % ([l for l, a in zip(L, res) if a == 'bad-op'][:2],), {'lines': L}, found_input=False)
            continue
        runinfo = dict(kv.split('=') for kv in res[-1].split()[1:])
        count_arms(st, runinfo)
        st.inc('links:sched-entries', int(res[-2].split('=')[1]))
        st.inc('links:added-entries', len(cmds))
        ncell = sum(sizes)
        q = ['con %d' % c for c in range(ncell)] + ['var %d' % (bases[3] + i) for i in range(sizes[3])]
        got = drv.many(q)
        cells_part, tv_part = real.split(' | tvars')
        realcells = []
        for tok in cells_part.split()[1:]:
            node, vals = tok.split(':')
            realcells += [v for v in vals.split(',')] if vals else []
        realtv = [v for v in tv_part.strip().split(',')] if tv_part.strip() else []
        st.inc('links:cells', len(q))
        if realcells + realtv != got:
            diffs = [(i, a, b) for i, (a, b) in enumerate(zip(realcells + realtv, got)) if a != b]
            ck.add_violation('model:link-level-names-differ',
                             'direct link-level run: real value-presolver names differ from the Lean schedule/presolve model in %d cells (first: cell %r real %r model %r)' % (
                                 len(diffs), diffs[0][0] if diffs else '?', unhx(diffs[0][1]) if diffs else '?', unhx(diffs[0][2]) if diffs else '?'),
                             {'sizes': sizes, 'src': src, 'presets': presets, 'cmds': cmds, 'real': real, 'model': got, 'harness': 'harness/h_links.cc'}, found_input=False)
            continue
        # theorem consequences on the real names of the target variables (node 3)
        D = [bases[3] + i for i in range(sizes[3])]
        dinfo = dict(kv.split('=') for kv in drv.ask('dvars ' + ' '.join(map(str, D))).split())
        sf = drv.ask('sf ' + ' '.join(hx(x) for x in roots)) == '1' and all(roots)
        hyp = (runinfo.get('wellfed') == '1' and runinfo.get('sib') == '1' and runinfo.get('closed') == '1' and runinfo.get('noclash') == '1'
               and dinfo.get('belowfree') == '1' and dinfo.get('uncounted') == '1' and sf)
        st.inc('links:hyps-hold=%d' % hyp)
        names = [unhx(v) for v in realtv]
        named = [x for x in names if x]
        if hyp and len(set(named)) != len(named):
            ck.add_violation('model:theorem-contradicted', 'link-level scenario: all hypotheses of C19_unique_vars_partial hold but target variables share a name: %r' % (names,),
                             {'sizes': sizes, 'src': src, 'presets': presets, 'cmds': cmds}, found_input=False)
        if runinfo.get('topo') == '1' and dinfo.get('covered') == '1' and '' in names:
            ck.add_violation('model:theorem-contradicted', 'link-level scenario: topoB and coveredB hold but a target variable is unnamed: %r' % (names,),
                             {'sizes': sizes, 'src': src, 'presets': presets, 'cmds': cmds}, found_input=False)
    return len(scen)


# ------------------------------------------------------------------ NameProvider stage
def nameprovider_cases(rng, n):
    cases = [b'x\ny\nz\n', b'x\r\ny\r\n', b'\ny\n', b'x\n\nz\n', b'x\ny', b'', None, b'\r\n', b'a\rb\n', b'q\na\rb\n',
             b'\r\r\n', b'abc\r\n\r\nd\n', b'\n', b'\n\n', b'a\n\r\n', b'x[1]\nx[2]\n', b'\rx\n', b'a\r\r\nb\n',
             b'x1\r\nx11\n', b'x\r\ny\r\nz\n', b'x\ny\r\n', b'ab\r\ncd\nef\r\ngh\n']
    alpha = [b'a', b'b', b'x', b'_', b'[', b']', b'1', b'2', b'\r', b'\n', b'\n', b'\r\n', b' ']
    for _ in range(n):
        k = rng.below(4)
        if k == 0:     # well-formed LF
            cases.append(b''.join(bytes('n%d' % rng.below(100), 'ascii') + b'\n' for _ in range(rng.rint(1, 6))))
        elif k == 1 and rng.chance(1, 2):   # well-formed, mixed line ends (some CRLF, some LF)
            cases.append(b''.join(bytes('m%d' % rng.below(100), 'ascii') + rng.choice([b'\n', b'\r\n']) for _ in range(rng.rint(2, 6))))
        elif k == 1:   # well-formed CRLF
            cases.append(b''.join(bytes('v[%d]' % rng.below(100), 'ascii') + b'\r\n' for _ in range(rng.rint(1, 6))))
        else:          # arbitrary bytes from a small alphabet
            cases.append(b''.join(rng.choice(alpha) for _ in range(rng.rint(1, 12))))
    return cases


def stage_nameprovider(ck, drv, st, rng, workdir, n, cov=False):
    fl = ['-O0', '-g', '--coverage'] if cov else ['-O1', '-g', '-fsanitize=address,undefined', '-fno-sanitize-recover=all']
    objs = ck.objects([os.path.join(REPO, s) for s in ['src/nl-reader.cc', 'src/os.cc', 'src/posix.cc', 'src/format.cc']], flags=fl, tag='mpcov' if cov else 'mpasan')
    h = ck.objects([os.path.join(VERIF, 'harness', 'h_names.cc')], flags=fl, tag='c19')
    exe = ck.link('h_names', h + objs, flags=(['--coverage'] if cov else ['-fsanitize=address,undefined']) + ['-Wl,--wrap=mmap'])
    ck.log('h_names built')
    cases = nameprovider_cases(rng, n)
    inp = ''.join(('-' if c is None else ('0' if c == b'' else c.hex())) + '\n' for c in cases)
    p = subprocess.run([exe, workdir], input=inp, capture_output=True, text=True, env=dict(os.environ, ASAN_OPTIONS='detect_leaks=0'), timeout=600)
    impl = p.stdout.split('\n')[:len(cases)]
    model = drv.many(['file ' + l for l in inp.split('\n') if l])
    for c, a, b in zip(cases, impl, model):
        st.inc('np:cases')
        b_cmp = b.rstrip()
        a_cmp = a.replace(' ub=0', '', 1).rstrip()
        st.inc('np:' + ('error' if a == 'error' else 'ub' if ' ub=1' in a else 'names'))
        if a_cmp != b_cmp:
            ck.add_violation('model:nameprovider-bytes', 'NameProvider on file bytes %r: real %r, Lean model %r' % (c, a, b),
                             {'file_hex': None if c is None else c.hex(), 'impl': a, 'model': b, 'harness': 'harness/h_names.cc'}, found_input=False)
        if ' ub=1' in a:
            # real code faulted reading before the mapped file
            ck.add_violation('nameprovider:reads-before-buffer',
                             'mp::NameProvider::name() reads the byte before the mapped names file (first line empty): file bytes %r; with a guard page before the mapping the read faults (ASan: SEGV in nl-reader.cc NameProvider::name)' % (c,),
                             {'file_hex': c.hex(), 'replay': 'build harness/h_names.cc (see checks/c19.py stage_nameprovider), feed the hex line on stdin'}, found_input=True)
        elif a != 'error' and c:
            # oracle: well-formed files give back exactly their lines
            names = [unhx(h) if re.fullmatch(r'-|([0-9a-f]{2})+', h) else '?' + h for h in a.split()[2:]]
            wf = file_lines(c)
            if b'\r' not in c.replace(b'\r\n', b'') and c.endswith(b'\n') and all(wf):
                st.inc('np:wellformed')
                if names != wf:
                    ck.add_violation('nameprovider:wrong-names', 'well-formed names file %r read as %r' % (c, names), {'file_hex': c.hex()}, found_input=True)
    ck.sample('NameProvider %r -> %s' % (cases[1], impl[1]))
    return len(cases)


# ------------------------------------------------------------------ counterexample replay
def stage_counterexamples(ck, exe, st, workdir):
    """the proved negation witnesses of Props.lean, replayed on the real driver on every run"""
    def delivered(r):
        return [e['name'] for e in r['log'] if e['ev'] == 'con']
    # 1. C19_counterexample_adversarial: rows `c` (nonlinear -> derived children c_2_, c_3_ ...) and `c_3_`
    m = nlgen.Model()
    x = m.var(-5, 5, name='x'); y = m.var(-5, 5, name='y')
    m.obj('min', {x: 1}, name='total')
    m.con(None, 3, {y: 1}, ('abs', ('v', x)), name='c')
    m.con(None, 4, {x: 1, y: 1}, None, name='c_3_')
    stub = os.path.join(workdir, 'cex_adversarial')
    m.write(stub)
    cons = delivered(recsolver.run(exe, stub, options=[], graph=False))
    st.inc('cex:runs')
    dup = sorted({n for n in cons if cons.count(n) > 1})
    ck.sample('counterexample replay (adversarial): rows c, c_3_ -> delivered constraints %r' % (cons,))
    if dup:
        ck.add_violation('duplicate-con-names:adversarial-sources',
                         'rows named c and c_3_ (c is nonlinear): a constraint derived from c is also named %r' % dup[0],
                         {'stub': os.path.relpath(stub, VERIF), 'delivered': cons, 'how': 'recsolver %s -AMPL' % stub}, found_input=True)
    else:
        ck.add_violation('counterexample-stale:adversarial', 'the adversarial-name witness no longer yields duplicate names: %r (Props counterexample / known finding are stale)' % (cons,),
                         {'delivered': cons}, found_input=False)
    # 2. C19_counterexample_innocent_clash: one innocent row name, numeric if-then-else, default acceptance
    m = nlgen.Model()
    x = m.var(-5, 5, name='x'); y = m.var(-5, 5, name='y'); w = m.var(-5, 5, name='w'); z = m.var(0, 3, True, name='z')
    m.obj('min', {x: 1}, name='total')
    m.con(None, 5, {x: 1}, ('if', ('le', ('v', z), ('n', 1)), ('v', y), ('v', w)), name='c')
    stub = os.path.join(workdir, 'cex_innocent')
    m.write(stub)
    cons = delivered(recsolver.run(exe, stub, options=[], graph=False))
    st.inc('cex:runs')
    dup = sorted({n for n in cons if cons.count(n) > 1})
    ck.sample('counterexample replay (innocent): c: x + (if z <= 1 then y else w) <= 5 -> delivered constraints %r' % (cons,))
    if dup:
        ck.add_violation('duplicate-con-names:innocent-sources:plain-child-converted-further',
                         'single row `c: x + (if z<=1 then y else w) <= 5`, default options: two delivered constraints are named %r' % dup[0],
                         {'stub': os.path.relpath(stub, VERIF), 'delivered': cons, 'how': 'recsolver %s -AMPL' % stub}, found_input=True)
    else:
        ck.add_violation('counterexample-stale:innocent-clash', 'the if-then-else witness no longer yields duplicate names: %r' % (cons,), {'delivered': cons}, found_input=False)
    # 3. regression input of the fixed finding C19-link-entry-extended-in-place (repo commit 5f9dc1e):
    #    before the fix this corpus case delivered a constraint with an empty name
    cdir = os.path.join(VERIF, 'corpus', 'C19')
    meta = json.load(open(os.path.join(cdir, 'empty-name.json')))
    stub = os.path.join(workdir, 'cex_empty')
    for ext in ('.nl', '.col', '.row'):
        shutil.copy(os.path.join(cdir, 'empty-name' + ext), stub + ext)
    cons = delivered(recsolver.run(exe, stub, options=meta['options'], accept=meta['accept'], graph=False))
    st.inc('cex:runs')
    ck.sample('regression replay (fixed 5f9dc1e): corpus/C19/empty-name -> delivered constraints %r' % (cons,))
    if '' in cons or not cons:
        ck.add_violation('empty-name:con:unnamed-link-source', 'corpus/C19/empty-name.nl (+.col/.row, %s): a constraint is delivered with an empty name' % ' '.join(meta['options']),
                         {'stub': 'corpus/C19/empty-name', 'options': meta['options'], 'accept': meta['accept'], 'delivered': cons}, found_input=True)


# ------------------------------------------------------------------ main
def build_cov_recsolver(ck):
    fl = ('-O0', '-g', '--coverage')
    srcs = [os.path.join(recsolver.RDIR, f) for f in ['recmain.cc', 'recmodelmgr.cc', 'recmodelapi.cc', 'recbackend.cc']]
    objs = ck.objects(srcs, flags=fl, extra_inc=[recsolver.RDIR], tag='rec')
    return ck.link('recsolver_cov', objs + ck.libmp_objects(flags=fl), flags=['--coverage'])


def run(ck):
    cov = os.environ.get('VERIF_COVERAGE') == '1'
    if cov:
        import common, c19_cov
        common.BUILD = os.path.join(VERIF, 'build', 'cov')      # separate build dir: objects carry .gcno/.gcda
        os.makedirs(common.BUILD, exist_ok=True)
        c19_cov.clean(common.BUILD)
    st = Stats()
    # translator: regenerate lean/MpVerif/Gen/C19Names.lean from the current tree (written only if changed)
    gen = os.path.join(LEAN, 'MpVerif', 'Gen', 'C19Names.lean')
    rc, tout, terr = sh([sys.executable, os.path.join(VERIF, 'translators', 'gen_names.py'), REPO, gen, os.path.join(BUILD, 'tr_c19')], timeout=600)
    ck.log((tout.strip() or terr.strip())[-300:])
    translator_ok = rc == 0
    proof_ok, failing = ck.proof_stage('MpVerif.C19.Props', 'MpVerif/C19/Props.lean', 'C19_', ['MpVerif/C19/*.lean', 'MpVerif/Gen/C19Names.lean'], expect_min=N_THEOREMS)
    if not translator_ok:
        proof_ok = False
        failing = ['translator gen_names.py: ' + (tout + terr).strip()[-300:]] + failing
    ck.log('proof stage: ok=%s failing=%s' % (proof_ok, failing[:10]))
    if ck.tier == 'thorough' and proof_ok:
        bad = ck.leanchecker(['MpVerif.C19.Props'])
        if bad:
            failing += ['leanchecker rejected %s' % b for b in bad]
            proof_ok = False
    exe = build_cov_recsolver(ck) if cov else recsolver.build(ck)
    ck.log('recsolver built')
    drv = Drv(ck.driver('drv_c19'))
    ck.log('lean driver built')
    workdir = os.path.join(BUILD, 'c19')
    shutil.rmtree(workdir, ignore_errors=True)
    os.makedirs(workdir)
    rng = nlgen.Rng(ck.seed * 7919 + 19)
    n_np = stage_nameprovider(ck, drv, st, rng, workdir, 150 if ck.tier == 'quick' else 1500, cov=cov)
    ck.log('NameProvider stage: %d files' % n_np)
    n_lk = stage_links(ck, drv, st, rng, 400 if ck.tier == 'quick' else 4000, cov=cov)
    ck.log('link-level stage: %d scenarios' % n_lk)
    stage_counterexamples(ck, exe, st, workdir)
    ncases = 1200 if ck.tier == 'quick' else 12000
    found = {}
    only = [int(t) for t in os.environ['C19_ONLY'].split(',')] if os.environ.get('C19_ONLY') else None
    for idx in range(ncases):
        size = 1 if idx % 3 else 2
        try:
            case = gen_case(ck, rng, idx, workdir, size)
            if only is not None and idx not in only:
                continue
            res = exec_case(ck, exe, drv, st, case)
        except Exception as e:
            import traceback
            res = [('check-case-crashed', 'case %d: %r' % (idx, e), {'case': idx, 'tb': traceback.format_exc()[-1500:]}, False)]
        for sig, what, replay, fi in res:
            if sig not in found:
                found[sig] = (what, replay, fi)
                ck.log('case %d: %s: %s' % (idx, sig, what[:200]))
            st.inc('finding:' + sig)
    drv.close()
    if cov:
        c19_cov.report(ck, common.BUILD, dict(st.d))
    for sig, (what, replay, fi) in found.items():
        ck.add_violation(sig, what, replay, found_input=fi)
    if not proof_ok:
        for f in failing:
            ck.add_violation('obligation:%s' % f, 'proof obligation no longer checks: %s' % f,
                             {'theorem': f, 'module': 'MpVerif.C19.Props', 'searched': '%d driver runs' % st.d.get('run:ok', 0)}, found_input=False)
    d = st.d
    ck.cov['evaluations'] = d.get('run:ok', 0) + n_np
    ck.cov['traces_validated_against_impl'] = d.get('class:names-requested', 0)
    ck.cov['distinct_nontrivial'] = d.get('class:names-requested', 0)
    ck.cov['rule'] = 'a driver run counts if names were requested and delivered and the Lean recomputation over its exported graph was compared cell by cell'
    ck.cov['exhaustive'] = False
    ck.cov['generator_histogram'] = dict(sorted(d.items()))
    ck.cov['correspondence'] = {'cells_compared_model_vs_impl': d.get('cells_compared', 0), 'cells_differ': d.get('model-vs-impl:cells-differ', 0),
                                'nameprovider_files': n_np, 'lean_driver_ops': drv.n}
    ck.cov['unique_theorem_applicability'] = {'runs_where_all_hypotheses_hold': d.get('theorem-applies', 0),
                                              'runs_where_some_hypothesis_fails': d.get('theorem-not-applicable', 0)}
    try:
        cj = json.load(open(os.path.join(VERIF, 'design_notes', 'coverage', 'C19.json')))
        ck.cov['anchor_line_cov'] = cj['anchor_line_cov']
        ck.cov['anchor_branch_cov'] = cj['anchor_branch_cov']
        ck.cov['mechanism_line_cov'] = cj['mechanism_line_cov']
        ck.cov['mechanism_branch_cov'] = cj['mechanism_branch_cov']
        ck.cov['coverage_note'] = 'gcov of anchors.files under the quick-tier stream, last VERIF_COVERAGE=1 run (seed %s); see design_notes/coverage/C19.md' % cj.get('seed')
    except Exception:
        pass
    ck.level = 'proof'
    ck.notes.append('partial: uniqueness and non-emptiness hold only under decidable hypotheses evaluated per run; the full-strength property is refuted by three proved counterexamples replayed on the real driver (open known findings)')
    ck.assumptions += [
        'uniqueness is proved under decidable hypotheses evaluated on every run: source names suffix-free, every link source named when used (implied by the structural condition topoB), sibling labels distinct, no equal non-plain label leaving plain-related cells, no delivered cell below another delivered cell',
        'the exported graph (cvt:writegraph) lists the link entries in the order PresolveNames executes them',
        'names files: LF or CRLF line ends, non-empty lines (empty lines give empty names)']
    ck.cov['trusted_base'] += ['translators/gen_names.py + clang-14 typed AST: std::string / fmt writer / C strings as List Char, size_t, int and char pointers into the names file as Nat (offsets; subtraction only where the code guards it), evaluation order of n_++ before the conditional operands',
                               'harness/recsolver (recording ModelAPI), harness/h_names.cc (mmap wrapped to put a guard page before the file)',
                               'python reference for documented names (checks/c19.py expected_sources)']

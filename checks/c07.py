"""C07 — the automatic solution check reports a violation iff the model is violated.

Stages (see design_notes/C07.md):
  1. proof obligations: lean/MpVerif/C07/Props.lean (C07_* theorems about the Lean model of sol_check.h & co.)
  2. correspondence: the real checker (harness/c07: recording driver + flat-model dump around the unmodified
     SolutionChecker::CheckSolution) vs. the Lean model (drv_c07) on generated models x candidate points x options:
     return value, complete text of the 'Tolerance violations' report, solve_result code.
  3. property oracle, independent of the Lean model: exact evaluation of the *NL-level* model at the candidate point
     (gen/nlgen.py) decides whether a report is expected.
"""
import os, sys, json, re, shutil, math, hashlib, time
from concurrent.futures import ThreadPoolExecutor
from fractions import Fraction as F
from common import *
import recsolver as rs
sys.path.insert(0, os.path.join(VERIF, 'gen'))
import nlgen
from nlgen import Rng

RD = os.path.join(VERIF, 'harness', 'recsolver')
CD = os.path.join(VERIF, 'harness', 'c07')
INF = float('inf')

HEADER = 'Type                         MaxAbs [Name]   MaxRel [Name]'
DOCLINE = 'Documentation: mp.ampl.com/modeling-tools.html#automatic-solution-check.'
STARLINE = "*: Using the solver's aux variable values."

FUNC_KINDS = {'MaxConstraint': 'max', 'MinConstraint': 'min', 'AbsConstraint': 'abs', 'AndConstraint': 'and',
              'OrConstraint': 'or', 'NotConstraint': 'not', 'DivConstraint': 'div', 'IfThenConstraint': 'ifthen',
              'ImplicationConstraint': 'impl', 'AllDiffConstraint': 'alldiff', 'NumberofConstConstraint': 'nofc',
              'NumberofVarConstraint': 'nofv', 'CountConstraint': 'count'}
# evaluated with libm: outside the exact model, observed through a floating-point oracle only
TRANSC = {'ExpConstraint': 'exp', 'ExpAConstraint': 'expa', 'LogConstraint': 'log', 'LogAConstraint': 'loga',
          'SinConstraint': 'sin', 'CosConstraint': 'cos', 'TanConstraint': 'tan', 'AsinConstraint': 'asin',
          'AcosConstraint': 'acos', 'AtanConstraint': 'atan', 'SinhConstraint': 'sinh', 'CoshConstraint': 'cosh',
          'TanhConstraint': 'tanh', 'AsinhConstraint': 'asinh', 'AcoshConstraint': 'acosh', 'AtanhConstraint': 'atanh'}
TFUN = {'exp': math.exp, 'log': math.log, 'sin': math.sin, 'cos': math.cos, 'tan': math.tan, 'asin': math.asin,
        'acos': math.acos, 'atan': math.atan, 'sinh': math.sinh, 'cosh': math.cosh, 'tanh': math.tanh,
        'asinh': math.asinh, 'acosh': math.acosh, 'atanh': math.atanh}
ALG_KINDS = {'Range': 'range', 'LT': 'lt', 'LE': 'le', 'EQ': 'eq', 'GE': 'ge', 'GT': 'gt'}


def build_solver(ck, flags=('-O1', '-g')):
    srcs = [os.path.join(RD, f) for f in ['recmain.cc', 'recmodelapi.cc', 'recbackend.cc']] + [os.path.join(CD, 'c07modelmgr.cc')]
    # the harness TUs without debug information (c07modelmgr.cc instantiates the whole converter: -g made a 155 MB object and
    # a 2 min compile); the library objects keep the flags they share with the other checks' caches
    objs = ck.objects(srcs, flags=tuple(f for f in flags if f != '-g'), extra_inc=[RD], tag='c07')
    return ck.link('c07solver', objs + ck.libmp_objects(flags=flags))


# ----------------------------------------------------------------------------------------------- flat model (from the dump)
def fr(s):
    return rs.num(s)


def rstr(q):
    q = F(q)
    return str(q.numerator) if q.denominator == 1 else '%d/%d' % (q.numerator, q.denominator)


class Unsupported(Exception):
    pass


def lo_str(v):
    if v == -INF:
        return '-inf'
    if v is None or v == INF:
        raise Unsupported('lower bound ' + str(v))
    return rstr(v)


def hi_str(v):
    if v == INF:
        return 'inf'
    if v is None or v == -INF:
        raise Unsupported('upper bound ' + str(v))
    return rstr(v)


def fin(v):
    if v is None or isinstance(v, float):
        raise Unsupported('non-finite number')
    return v


class Body:
    def __init__(self, lin=None, quad=None, const=F(0)):
        self.lin = lin or []      # [(c, v)]
        self.quad = quad or []    # [(c, v1, v2)]
        self.const = const

    @staticmethod
    def from_lin(j, const='0'):
        return Body([(fin(fr(c)), v) for c, v in zip(j['c'], j['v'])], [], fin(fr(const)))

    @staticmethod
    def from_quad(jl, jq, const='0'):
        return Body([(fin(fr(c)), v) for c, v in zip(jl['c'], jl['v'])],
                    [(fin(fr(c)), a, b) for c, a, b in zip(jq['c'], jq['v1'], jq['v2'])], fin(fr(const)))

    def val(self, x):
        return sum((c * x[v] for c, v in self.lin), F(0)) + sum((c * x[a] * x[b] for c, a, b in self.quad), F(0)) + self.const

    def vars(self):
        return [v for _, v in self.lin] + [t for _, a, b in self.quad for t in (a, b)]

    def ops(self):
        return 'L %d %s Q %d %s K %s' % (len(self.lin), ' '.join('%s %d' % (rstr(c), v) for c, v in self.lin), len(self.quad),
                                         ' '.join('%s %d %d' % (rstr(c), a, b) for c, a, b in self.quad), rstr(self.const))


def alg_from(tn, d):
    """tn: LinConLE / QuadConRange ...; d: data json"""
    m = re.match(r'(Lin|Quad)Con(Range|LT|LE|EQ|GE|GT)$', tn)
    if not m:
        raise Unsupported(tn)
    body = Body.from_lin(d['body']) if m.group(1) == 'Lin' else Body.from_quad(d['body']['lin'], d['body']['quad'])
    return {'kind': ALG_KINDS[m.group(2)], 'lo': fr(d['lb']), 'hi': fr(d['ub']), 'body': body}


def alg_ops(a):
    return '%s %s %s %s' % (a['kind'], lo_str(a['lo']), hi_str(a['hi']), a['body'].ops())


def alg_valid(a, bd):
    k = a['kind']
    if k == 'lt':
        return bd < a['hi']
    if k == 'gt':
        return bd > a['lo']
    return a['lo'] <= bd <= a['hi']


def pl_points_value(pts, x):
    """the piecewise-linear function through pts (x increasing), first/last segment extended; python side"""
    if len(pts) < 2:
        return pts[0][1]
    k = 0
    while k + 2 < len(pts) and x > pts[k + 1][0]:
        k += 1
    (xa, ya), (xb, yb) = pts[k], pts[k + 1]
    return ya + (yb - ya) / (xb - xa) * (x - xa)


class Flat:
    """the flat model as dumped by harness/c07 at the time of the solution check"""

    def __init__(self, log):
        self.vars, self.objs, self.items = [], [], []
        self.supported = True
        self.why = None
        self.chk = None
        self.end = None
        for e in log:
            ev = e.get('ev')
            if ev == 'flatvar':
                self.vars.append({'lb': fr(e['lb']), 'ub': fr(e['ub']), 'int': bool(e['int']), 'orig': bool(e['orig']),
                                  'name': e['name'], 'init': e['init']})
            elif ev == 'flatobj':
                self.objs.append(e)
            elif ev == 'flatcon':
                self.items.append(e)
            elif ev == 'chk_begin' and self.chk is None:
                self.chk = e
            elif ev == 'chk_end' and self.end is None:
                self.end = e
        self.keepers = {}
        for it in self.items:
            k = self.keepers.setdefault(it['short'], {'logical': bool(it['logical']), 'items': []})
            assert len(k['items']) == it['i']
            k['items'].append(it)
        self.keys = sorted(self.keepers)          # std::map<std::string,...> order
        self.types = sorted({it['type'] for it in self.items})
        try:
            for it in self.items:
                it['con'] = self.con_of(it)
            self.objbodies = [Body.from_quad(o['lin'], o['quad']) for o in self.objs]
        except Unsupported as u:
            self.supported = False
            self.why = str(u)

    @staticmethod
    def con_of(it):
        tn, d = it['type'], it['data']
        if re.match(r'(Lin|Quad)Con', tn):
            return ('alg', alg_from(tn, d))
        if tn in ('LinearFunctionalConstraint', 'QuadraticFunctionalConstraint'):
            e = d['expr']
            b = Body.from_quad(e['lin'], e['quad'], e['const']) if 'quad' in e else Body.from_lin(e['lin'], e['const'])
            return ('adef', d['res'], d['ctx'], ('affine', b))
        if tn in FUNC_KINDS:
            k = FUNC_KINDS[tn]
            args = d['args']
            if k == 'nofc':
                return ('func', d['res'], d['ctx'], (k, fin(fr(d['params'][0])), args))
            if k == 'nofv':
                return ('func', d['res'], d['ctx'], (k, args[0], args[1:]))
            return ('func', d['res'], d['ctx'], (k, args))
        if tn == 'PowConstraint':
            ex = fin(fr(d['params'][0]))
            if ex.denominator != 1 or ex < 0 or ex > 8:
                return ('tfunc', d['res'], d['ctx'], ('powc', d['args'], [float(ex)]))
            return ('func', d['res'], d['ctx'], ('pow', d['args'], int(ex)))
        if tn in TRANSC:
            return ('tfunc', d['res'], d['ctx'], (TRANSC[tn], d['args'], [float(fin(fr(t))) for t in d.get('params', [])]))
        if tn == 'PLConstraint':
            pr = d['params']
            pts = [(fin(fr(a)), fin(fr(b))) for a, b in zip(pr['x'], pr['y'])]
            return ('func', d['res'], d['ctx'], ('pl', d['args'], pts))
        if tn.startswith('Cond'):
            return ('cond', d['res'], d['ctx'], alg_from(tn[4:], d['con']))
        if tn.startswith('Indicator'):
            return ('ind', d['b'], d['bv'], alg_from(tn[9:], d['con']))
        if tn in ('SOS1Constraint', 'SOS2Constraint'):
            return ('sos1' if tn[3] == '1' else 'sos2', d['vars'])
        if tn in ('ComplementarityLinear', 'ComplementarityQuadratic'):
            e = d['expr']
            b = Body.from_quad(e['lin'], e['quad'], e['const']) if 'quad' in e else Body.from_lin(e['lin'], e['const'])
            return ('compl', d['var'], b)
        raise Unsupported(tn)

    # ---- ops for the Lean driver
    def model_ops(self):
        L = ['reset']
        kno = {k: i for i, k in enumerate(self.keys)}
        for v in self.vars:
            init = v['init']
            L.append('var %s %s %d %d n:%s %d %d' % (lo_str(v['lb']), hi_str(v['ub']), v['int'], v['orig'], v['name'],
                                                    kno[init['short']] if init else -1, init['i'] if init else -1))
        for o, b in zip(self.objs, self.objbodies):
            L.append('obj n:%s %s' % (o['name'], b.ops()))
        for k in self.keys:
            kp = self.keepers[k]
            L.append('keeper n:%s %d' % (k, kp['logical']))
            for it in kp['items']:
                L.append('con %d %d %d n:%s %s' % (it['depth'], it['bridged'], it['unused'], it['name'], self.con_ops(it['con'])))
        return L

    @staticmethod
    def con_ops(c):
        k = c[0]
        if k == 'alg':
            return 'alg ' + alg_ops(c[1])
        if k == 'func':
            f = c[3]
            fk = f[0]
            if fk == 'affine':
                fs = 'affine ' + f[1].ops()
            elif fk in ('abs', 'not'):
                fs = '%s %d' % (fk, f[1][0])
            elif fk == 'div':
                fs = 'div %d %d' % (f[1][0], f[1][1])
            elif fk in ('ifthen', 'impl'):
                fs = '%s %d %d %d' % (fk, f[1][0], f[1][1], f[1][2])
            elif fk == 'pow':
                fs = 'pow %d %d' % (f[1][0], f[2])
            elif fk == 'pl':
                fs = 'pl %d %s %d' % (len(f[2]), ' '.join('%s %s' % (rstr(a), rstr(b)) for a, b in f[2]), f[1][0])
            elif fk == 'nofc':
                fs = 'nofc %s %d %s' % (rstr(f[1]), len(f[2]), ' '.join(map(str, f[2])))
            elif fk == 'nofv':
                fs = 'nofv %d %d %s' % (f[1], len(f[2]), ' '.join(map(str, f[2])))
            else:
                fs = '%s %d %s' % (fk, len(f[1]), ' '.join(map(str, f[1])))
            return 'func %d %s %s' % (c[1], c[2], fs)
        if k == 'tfunc':
            raise Unsupported('transcendental:' + c[3][0])
        if k == 'adef':
            return 'adef %d %s %s' % (c[1], c[2], c[3][1].ops())
        if k == 'cond':
            return 'cond %d %s %s' % (c[1], c[2], alg_ops(c[3]))
        if k == 'ind':
            return 'ind %d %d %s' % (c[1], c[2], alg_ops(c[3]))
        if k in ('sos1', 'sos2'):
            return '%s %d %s' % (k, len(c[1]), ' '.join(map(str, c[1])))
        if k == 'compl':
            return 'compl %d %s' % (c[1], c[2].ops())
        raise Unsupported(k)

    def opts_ops(self):
        c = self.chk
        return 'opts %d %s %s %s %s %s %d %d' % (c['mode'], rstr(fin(fr(c['feastol']))), rstr(fin(fr(c['feastolrel']))),
                                                 rstr(fin(fr(c['inttol']))), c['round'] if c['round'] < 100 else 'none',
                                                 c['prec'] if c['prec'] < 100 else 'none', c['fail'], c['infeas'])

    def check_ops(self, code=0):
        """the solve code is the scripted one (what the 'solver' reported), NOT the flag the checker received"""
        c = self.chk
        xs = [fin(fr(t)) for t in c['x']]
        ov = [fin(fr(t)) for t in c['obj']]
        return 'check %d X %d %s O %d %s' % (code, len(xs), ' '.join(map(rstr, xs)), len(ov), ' '.join(map(rstr, ov)))

    # ---- exact mathematical value of a defining expression (python side, independent of the Lean model)
    def math_value(self, c, x):
        if c[0] == 'cond':
            return F(1) if alg_valid(c[3], c[3]['body'].val(x)) else F(0)
        f = c[3]
        k = f[0]
        if k == 'affine':
            return f[1].val(x)
        if k == 'max':
            return max(x[i] for i in f[1])
        if k == 'min':
            return min(x[i] for i in f[1])
        if k == 'abs':
            return abs(x[f[1][0]])
        if k == 'and':
            return F(int(all(x[i] >= F(1, 2) for i in f[1])))
        if k == 'or':
            return F(int(any(x[i] >= F(1, 2) for i in f[1])))
        if k == 'not':
            return F(int(x[f[1][0]] < F(1, 2)))
        if k == 'div':
            if x[f[1][1]] == 0:
                raise Unsupported('div0')
            return x[f[1][0]] / x[f[1][1]]
        if k == 'ifthen':
            return x[f[1][1]] if x[f[1][0]] >= F(1, 2) else x[f[1][2]]
        if k == 'impl':
            return F(int(x[f[1][1]] >= F(1, 2) if x[f[1][0]] >= F(1, 2) else x[f[1][2]] >= F(1, 2)))
        if k == 'alldiff':
            vals = [x[i] for i in f[1]]
            return F(int(len(set(vals)) == len(vals)))
        if k == 'nofc':
            return F(sum(1 for i in f[2] if x[i] == f[1]))
        if k == 'nofv':
            return F(sum(1 for i in f[2] if x[i] == x[f[1]]))
        if k == 'count':
            return F(sum(1 for i in f[1] if x[i] >= F(1, 2)))
        if k == 'pl':
            return pl_points_value(f[2], x[f[1][0]])
        if k == 'pow':
            return x[f[1][0]] ** f[2]
        raise Unsupported(k)

    def con_vars(self, c):
        if c[0] == 'cond':
            return c[3]['body'].vars()
        f = c[3]
        if f[0] == 'affine':
            return f[1].vars()
        if f[0] == 'nofc':
            return list(f[2])
        if f[0] == 'nofv':
            return [f[1]] + list(f[2])
        return list(f[1])

    def def_of(self, i):
        init = self.vars[i]['init']
        if not init:
            return None
        it = self.keepers[init['short']]['items'][init['i']]
        if it['unused'] or it['con'][0] not in ('func', 'cond', 'adef'):
            return None
        return it['con']

    def float_point(self, xorig):
        """double values of all variables: originals as given, defined variables by evaluating their expression with
        python's libm (the C++ uses the same libm), others at their lower bound; None if not computable"""
        n = len(self.vars)
        x = [None] * n
        state = [0] * n

        def val(i):
            if state[i] == 2:
                return True
            if state[i] == 1:
                return False
            state[i] = 1
            v = self.vars[i]
            if v['orig']:
                x[i] = float(xorig[i])
            else:
                init = v['init']
                it = self.keepers[init['short']]['items'][init['i']] if init else None
                d = it['con'] if it is not None and not it['unused'] and it['con'][0] in ('func', 'adef', 'tfunc', 'cond') else None
                if d is None:
                    x[i] = float(v['lb']) if v['lb'] != -INF else (float(v['ub']) if v['ub'] != INF else 0.0)
                else:
                    args = item_vars(d)[1:]
                    for j in args:
                        if not val(j):
                            return False
                    try:
                        if d[0] == 'tfunc':
                            nm, a, pr = d[3]
                            t = x[a[0]]
                            x[i] = (pr[0] ** t if nm == 'expa' else math.log(t) / math.log(pr[0]) if nm == 'loga'
                                    else t ** pr[0] if nm == 'powc' else TFUN[nm](t))
                        else:
                            x[i] = float(self.math_value(d, [None if t is None else F(t) for t in x]))
                    except (Unsupported, ValueError, OverflowError, ZeroDivisionError):
                        return False
            state[i] = 2
            return True
        for i in range(n):
            if not val(i):
                return None
        return x

    def best_def(self, i):
        """the expression that gives variable i its mathematical value: among the not-unused functional constraints
        with result i the one closest to the NL model (smallest depth); a variable redefined during conversion (e.g.
        a PL term rewritten over lambda variables) keeps its original depth-0 expression"""
        if not hasattr(self, '_by_res'):
            self._by_res = {}
            for it in self.items:
                if not it['unused'] and it['con'][0] in ('func', 'cond', 'adef', 'tfunc'):
                    self._by_res.setdefault(it['con'][1], []).append(it)
        cands = self._by_res.get(i)
        if not cands:
            return self.def_of(i)
        init = self.def_of(i)
        best = min(cands, key=lambda it: (it['depth'], 0 if it['con'] is init else 1))
        return best['con']

    def consistent(self, xorig, rng=None, override=None):
        """extend values of the original variables by the exact values of all defining expressions (evaluated in
        dependency order); variables without a definition get their lower bound (or a random bound).
        None if the definitions are cyclic or not computable."""
        n = len(self.vars)
        x = [None] * n
        state = [0] * n           # 0 new, 1 in progress, 2 done

        def val(i):
            if state[i] == 2:
                return True
            if state[i] == 1:
                return False
            state[i] = 1
            v = self.vars[i]
            d = None if v['orig'] else self.best_def(i)
            if override and i in override:
                x[i] = F(override[i])        # the solver's claim; everything downstream is computed from it
            elif v['orig']:
                x[i] = F(xorig[i])
            elif d is None:
                lb, ub = v['lb'], v['ub']
                if lb == -INF and ub == INF:
                    x[i] = F(0)
                elif lb == -INF:
                    x[i] = F(ub)
                elif ub == INF or ub > 2 ** 40 or rng is None or rng.chance(2, 3):
                    x[i] = F(lb)            # (huge 'practically infinite' bounds would swamp double arithmetic)
                else:
                    x[i] = F(ub)
            else:
                for j in self.con_vars(d):
                    if not val(j):
                        return False
                try:
                    x[i] = self.math_value(d, x)
                except Unsupported:
                    return False
            state[i] = 2
            return True
        for i in range(n):
            if not val(i):
                return None
        return x


# ----------------------------------------------------------------------------------------------- report rendering
def g1(fmax, val, name):
    s = ''
    if val == 'inf' or (val != '-inf' and F(val) > 0):
        if fmax:
            s += 'INF' if val == 'inf' else '%.0E' % float(F(val))
        if name:
            s += (' [' if fmax else '[') + name + ']'
    return s or '-'


def parse_model_lines(s):
    out = []
    if not s:
        return out
    for ln in s.split(';;'):
        label, fmax, n, mabs, nabs, mrel, nrel = ln.split('~')
        out.append({'label': label, 'fmax': fmax == '1', 'n': int(n), 'maxabs': mabs, 'nameabs': nabs[2:] if nabs != '-' else None,
                    'maxrel': mrel, 'namerel': nrel[2:] if nrel != '-' else None})
    return out


def render(lines, star):
    t = ''
    for l in lines:
        row = '  %-27s' % l['label'] + '  %-14s' % g1(l['fmax'], l['maxabs'], l['nameabs']) + '  %-14s' % g1(l['fmax'], l['maxrel'], l['namerel'])
        if star:
            row = '*' + row[1:]
        t += row + '\n'
    return t


def g1_alts(fmax, val, name):
    """renderings of one 'max violation' field allowing for a last-ulp difference between the exact value and the
    double the C++ formatted (only matters when the value sits on a rounding boundary of the 1-digit format, which
    happens with non-dyadic constants introduced by the conversion, e.g. strict-inequality epsilons)"""
    out = {g1(fmax, val, name)}
    if val not in ('inf', '-inf') and F(val) > 0 and fmax:
        for k in (F(1) - F(1, 10 ** 9), F(1) + F(1, 10 ** 9)):
            out.add(g1(fmax, rstr(F(val) * k), name))
    return out


def has_nondyadic(f):
    """does the flat model contain constants that are not small dyadic rationals (strict-inequality epsilons, big-M products
    introduced by the conversion)?  Then double arithmetic in the C++ is not exact and near-ties can resolve differently."""
    def nd(q):
        q = F(q)
        d = q.denominator
        return d & (d - 1) != 0 or d > 2 ** 30
    for it in f.items:
        for t in re.findall(r'"(-?\d+)\*2\^(-?\d+)"', json.dumps(it['data'])):
            if int(t[1]) < -30:
                return True
    return False


def text_matches(obs_text, ideal, real, name_ties=False):
    """observed report text vs model lines, numbers compared up to the rounding-boundary allowance of g1_alts"""
    exp = expected_text(ideal, real)
    if obs_text is None or exp is None:
        return obs_text is None and exp is None
    ol = obs_text.split('\n')
    el = norm_text(exp).split('\n')
    if len(ol) != len(el):
        return False
    lines = [(l, False) for l in ideal] + [(l, True) for l in real]
    k = 0
    for o, e in zip(ol, el):
        if o == e:
            if e.startswith('  ') or (e.startswith('* ') and not e.startswith('*:')):
                k += 1
            continue
        if not (e.startswith('  ') or e.startswith('* ')) or k >= len(lines):
            return False
        l, star = lines[k]
        k += 1
        ok = False
        for a in g1_alts(l['fmax'], l['maxabs'], l['nameabs']):
            for b in g1_alts(l['fmax'], l['maxrel'], l['namerel']):
                row = '  %-27s' % l['label'] + '  %-14s' % a + '  %-14s' % b
                if star:
                    row = '*' + row[1:]
                if row.rstrip() == o:
                    ok = True
                elif name_ties and re.sub(r' +', ' ', re.sub(r'\[[^\]]*\]', '[]', row.rstrip())) == re.sub(r' +', ' ', re.sub(r'\[[^\]]*\]', '[]', o)):
                    ok = True                 # same numbers, another item named: a near-tie between inexact doubles (column padding depends on the name length)
        if not ok:
            return False
    return True


def expected_text(ideal, real):
    if not ideal and not real:
        return None
    t = HEADER + '\n' + render(ideal, False)
    if real:
        t += render(real, True) + STARLINE + '\n'
    return t + DOCLINE


def norm_text(t):
    return None if t is None else '\n'.join(l.rstrip() for l in t.split('\n'))


def observed_text(msg):
    """the report block inside a solve message / exception text"""
    if msg is None:
        return None
    i = msg.find(HEADER)
    if i < 0:
        return None
    j = msg.find(DOCLINE, i)
    if j < 0:
        return msg[i:]
    return msg[i:j + len(DOCLINE)]


MODEL_RE = re.compile(r'ret=(\d) code=(\S+) warn=(\d) ideal=\[(.*)\] real=\[(.*)\]$')


def parse_model_out(line):
    if line.startswith('ret=1') and line.endswith('skipped'):
        return {'ret': 1, 'code': None, 'warn': 0, 'ideal': [], 'real': [], 'skipped': True}
    m = MODEL_RE.match(line)
    if not m:
        return None
    return {'ret': int(m.group(1)), 'code': None if m.group(2) == '-' else int(m.group(2)), 'warn': int(m.group(3)),
            'ideal': parse_model_lines(m.group(4)), 'real': parse_model_lines(m.group(5)), 'skipped': False}


# ----------------------------------------------------------------------------------------------- NL model generator
GRID = 4   # numeric data are multiples of 1/GRID (dyadic): double arithmetic is exact


def gq(rng, lo, hi):
    return F(rng.rint(lo * GRID, hi * GRID), GRID)


class Gen:
    def __init__(self, rng, profile):
        self.r = rng
        self.profile = profile
        self.hist = {}

    def hit(self, k):
        self.hist[k] = self.hist.get(k, 0) + 1

    def num_leaf(self, m, xs):
        r = self.r
        if r.chance(1, 5):
            return ('n', gq(r, -3, 3))
        return ('v', r.below(len(m.vars)))

    def lin(self, m, xs, nt=None):
        r = self.r
        nt = nt or r.rint(1, 3)
        terms = []
        for j in sorted({r.below(len(m.vars)) for _ in range(nt)}):      # distinct variables: no cancelling terms
            c = r.choice([F(1), F(-1), F(2), F(1, 2), F(-2), F(3)])
            terms.append(('*', ('n', c), ('v', j)))
        e = terms[0]
        for t in terms[1:]:
            e = ('+', e, t)
        if r.chance(1, 3):
            e = ('+', e, ('n', gq(r, -2, 2)))
        return e

    def num(self, m, xs, depth):
        r = self.r
        if depth <= 0 or r.chance(1, 4) or not self.profile['num']:
            return self.lin(m, xs) if r.chance(2, 3) else self.num_leaf(m, xs)
        k = r.choice(self.profile['num'])
        self.hit('num:' + k)
        if k == 'abs':
            # abs(<negative constant>) used to be flattened to variable 0 (fixed in /repo 15ae342): generated again
            return ('abs', self.num(m, xs, depth - 1))
        if k in ('min', 'max'):
            return (k, [self.num(m, xs, depth - 1) for _ in range(r.rint(2, 3))])
        if k == 'mul':
            return ('*', self.num_leaf(m, xs), self.num_leaf(m, xs))
        if k in ('absmul', 'maxmul'):
            # a product nested in another expression becomes a QuadraticFunctionalConstraint
            pr = ('*', ('v', r.below(len(m.vars))), ('v', r.below(len(m.vars))))
            if r.chance(1, 2):
                pr = ('+', pr, self.lin(m, xs, 1))
            return ('abs', pr) if k == 'absmul' else ('max', [pr, self.lin(m, xs, 1)])
        if k == 'pow3':
            return ('pow', ('v', r.below(len(m.vars))), ('n', F(3)))
        if k == 'if':
            return ('if', self.log(m, xs, depth - 1), self.num(m, xs, depth - 1), self.num(m, xs, depth - 1))
        if k == 'count':
            return ('count', [self.log(m, xs, depth - 1) for _ in range(r.rint(2, 3))])
        if k == 'numberof':
            ints = [j for j, v in enumerate(m.vars) if v['int']]
            if len(ints) < 2:
                return self.lin(m, xs)
            lst = [r.choice(ints) for _ in range(r.rint(2, 3))]
            if r.chance(1, 3):
                lst.append(r.below(len(m.vars)))           # possibly a continuous variable: matched by tolerance
            if r.chance(1, 2):
                v0 = ('n', xs[r.choice(lst)] if r.chance(2, 3) else F(r.rint(0, 2)))     # often a value that occurs
            else:
                v0 = ('v', r.choice(ints))
            return ('numberof', v0, [('v', j) for j in lst])
        if k == 'div':
            # divisor: a variable whose planted value is non-zero
            cand = [j for j in range(len(m.vars)) if abs(xs[j]) in (F(1, 4), F(1, 2), F(1), F(2), F(4))]   # quotients stay dyadic
            if not cand:
                return self.lin(m, xs)
            return ('/', self.num_leaf(m, xs), ('v', r.choice(cand)))
        if k == 'sum':
            return ('+', self.num(m, xs, depth - 1), self.num(m, xs, depth - 1))
        if k == 'pl':
            # AMPL <<breakpoints; slopes>> x_j; breakpoints placed relative to the planted value so that the argument is
            # left of the first breakpoint by more than 1, between breakpoints, or right of the last one
            cont = [j for j, v in enumerate(m.vars) if not v['int']]
            if not cont:
                return self.lin(m, xs)
            j = r.choice(cont)
            nb = r.rint(1, 3)
            gaps = [F(r.rint(2, 12), GRID) for _ in range(nb - 1)]
            where = r.below(4)
            if where == 0:
                first = xs[j] + r.choice([F(5, 4), F(2), F(3), F(9, 2)])
                self.hit('pl:left>1')
            elif where == 1:
                first = xs[j] + r.choice([F(1, 4), F(1, 2), F(1)])
                self.hit('pl:left<=1')
            elif where == 2:
                first = xs[j] - sum(gaps, F(0)) - r.choice([F(1, 4), F(1), F(5, 2)])
                self.hit('pl:right')
            else:
                first = xs[j] - (sum(gaps[:r.rint(0, len(gaps))], F(0)) if gaps else F(0)) - r.choice([F(0), F(1, 4), F(1, 2)])
                self.hit('pl:between')
            bps = [first]
            for g in gaps:
                bps.append(bps[-1] + g)
            slopes = [r.choice([F(-2), F(-1), F(-1, 2), F(1, 2), F(1), F(2), F(3), F(0)]) for _ in range(nb + 1)]
            if slopes[0] == 0 and r.chance(3, 4):
                slopes[0] = F(-1)
            return ('pl', slopes, bps, j)
        return self.lin(m, xs)

    def log(self, m, xs, depth):
        r = self.r
        if depth <= 0 or r.chance(1, 3):
            op = r.choice(self.profile['rel'])
            self.hit('rel:' + op)
            a = self.num(m, xs, depth - 1) if r.chance(1, 3) else self.lin(m, xs, r.rint(1, 2))
            if a[0] == 'n':
                a = self.lin(m, xs, 1)             # no constant-vs-constant comparisons (AMPL would fold them)
            return (op, a, ('n', gq(r, -2, 4)))
        k = r.choice(self.profile['log'])
        self.hit('log:' + k)
        if k in ('or', 'and', 'iff'):
            return (k, self.log(m, xs, depth - 1), self.log(m, xs, depth - 1))
        if k == 'not':
            return ('not', self.log(m, xs, depth - 1))
        if k in ('forall', 'exists'):
            return (k, [self.log(m, xs, depth - 1) for _ in range(r.rint(3, 4))])    # NL needs >= 3 arguments here
        if k == 'implies':
            return ('implies', self.log(m, xs, depth - 1), self.log(m, xs, depth - 1), self.log(m, xs, depth - 1) if r.chance(1, 2) else ('T',))
        if k == 'alldiff':
            ints = [j for j, v in enumerate(m.vars) if v['int']]
            if len(ints) < 2:
                return self.log(m, xs, 0)
            return ('alldiff', [('v', j) for j in ints[:r.rint(2, min(3, len(ints)))]])
        if k in nlgen.CNT:
            return (k, ('n', F(r.rint(0, 2))), ('count', [self.log(m, xs, depth - 1) for _ in range(r.rint(2, 3))]))
        return self.log(m, xs, 0)

    def model(self):
        """a model planted around a point xs (feasible by construction)"""
        r = self.r
        m = nlgen.Model()
        nv = r.rint(2, self.profile.get('maxvars', 5))
        minint = self.profile.get('minint', 0)
        nv = max(nv, minint + 1)
        xs = []
        for j in range(nv):
            integer = r.chance(2, 5) or j < minint
            if j < minint:
                lo, hi = 0, 3
                m.var(lo, hi, True)
                xs.append(F(r.rint(lo, hi)))
                continue
            if integer:
                lo, hi = (0, 1) if r.chance(1, 2) else (r.rint(-3, 0), r.rint(1, 5))
                xv = F(r.rint(lo, hi))
                m.var(lo, hi, True)
            else:
                lo, hi = gq(r, -4, 0), gq(r, 1, 6)
                xv = F(r.rint(int(lo * GRID), int(hi * GRID)), GRID)
                if r.chance(1, 6):
                    xv = lo if r.chance(1, 2) else hi          # active bound
                if self.profile.get('freevars') and r.chance(1, 4):
                    t = r.below(3)                             # one-sided / free variable (infinite bound)
                    m.var(None if t != 1 else lo, None if t != 0 else hi, False)
                    self.hit('freevar')
                else:
                    m.var(lo, hi, False)
            xs.append(xv)
        ncon = r.rint(*self.profile.get('ncons', (1, 3)))
        for _ in range(ncon):
            nl = None
            lin = {}
            if self.profile['num'] and r.chance(*self.profile.get('p_nl', (1, 2))):
                nl = self.num(m, xs, self.profile.get('depth', 2))
            nlin = r.rint(2 if nl is None else 0, 3)
            for j in sorted({r.below(nv) for _ in range(nlin)}):
                lin[j] = r.choice([F(1), F(-1), F(2), F(1, 2), F(-3), F(1, 4)])
            if nl is None and len(lin) < 2:
                lin = {0: F(1), 1: F(-1)} if nv >= 2 else lin
            con = {'lin': lin, 'nl': nl}
            try:
                b = m.con_body(con, xs)
            except nlgen.Undefined:
                continue
            t = r.below(6)
            slack_lo = F(r.rint(0, 8), GRID) if not r.chance(1, 3) else F(0)
            slack_hi = F(r.rint(0, 8), GRID) if not r.chance(1, 3) else F(0)
            if t == 0:
                lb, ub = b, b
            elif t in (1, 2):
                lb, ub = None, b + slack_hi
            elif t in (3, 4):
                lb, ub = b - slack_lo, None
            else:
                lb, ub = b - slack_lo, b + slack_hi
                if lb == ub:
                    ub = ub + 1
            self.hit('con:' + ('nl' if nl is not None else 'lin') + ':' + ['eq', 'le', 'le', 'ge', 'ge', 'range'][t])
            m.con(lb, ub, lin, nl)
        for _ in range(r.rint(*self.profile.get('nlcons', (0, 2)))):
            if not self.profile['log'] and not self.profile['rel']:
                break
            e = self.log(m, xs, self.profile.get('depth', 2))
            try:
                if not nlgen.ev(e, xs):
                    e = ('not', e)
            except nlgen.Undefined:
                continue
            m.lcon(e)
        if r.chance(3, 4):
            lin = {j: r.choice([F(1), F(-1), F(2), F(1, 2)]) for j in sorted({r.below(nv) for _ in range(r.rint(1, 3))})}
            nl = None
            if self.profile['num'] and r.chance(1, 3):
                nl = self.num(m, xs, 1)
            elif r.chance(1, 3):
                nl = ('n', gq(r, -3, 3))
            try:
                m.obj_value({'lin': lin, 'nl': nl}, xs)
                m.obj('min' if r.chance(1, 2) else 'max', lin, nl)
            except nlgen.Undefined:
                pass
        if not m.cons and not m.lcons:
            m.con(None, xs[0] + xs[-1] + 1, {0: F(1), nv - 1: F(1)} if nv > 1 else {0: F(2)})
        m.has_sos = False
        if self.profile.get('compl') and r.chance(*self.profile['compl']):
            # body complements a fresh variable z in [0, hi]: z at lb & body >= 0, z at ub & body <= 0, or z inside & body = 0
            hi = r.rint(1, 4)
            z = m.var(0, hi, False)
            lin = {j: r.choice([F(1), F(-1), F(2), F(1, 2)]) for j in sorted({r.below(nv) for _ in range(r.rint(1, 2))})}
            b0 = sum(c * xs[j] for j, c in lin.items())
            t = r.below(3)
            if t == 0:
                xs.append(F(0)); const = -b0 + r.choice([F(0), F(1, 2), F(2)])
            elif t == 1:
                xs.append(F(hi)); const = -b0 - r.choice([F(0), F(1, 2), F(2)])
            else:
                xs.append(F(hi, 2)); const = -b0
            m.con(None, None, lin, ('n', const))
            m.cons[-1]['compl'] = (z, 3)
            m.has_compl = True               # handled by the oracle's own complementarity rule (compl_verdict)
            self.hit('compl:%d' % t)
        if self.profile.get('sos') and r.chance(*self.profile.get('p_sos', (1, 3))):
            # an SOS1/SOS2 set over fresh non-negative variables (.sosno/.ref suffixes); planted point respects it
            k = r.rint(2, 4)
            typ = r.choice([1, 2])
            js = []
            for _ in range(k):
                integer = r.chance(1, 3)
                js.append(m.var(0, r.rint(1, 4), integer))
                xs.append(F(0))
            p = r.below(k)
            xs[js[p]] = F(1)
            if typ == 2 and p + 1 < k and r.chance(1, 2):
                xs[js[p + 1]] = F(1, 2) if not m.vars[js[p + 1]]['int'] else F(1)
            m.suffixes.append({'name': 'sosno', 'kind': 0, 'float': False, 'vals': {j: (1 if typ == 1 else -1) for j in js}})
            m.suffixes.append({'name': 'ref', 'kind': 0, 'float': True, 'vals': {j: F(i + 1) for i, j in enumerate(js)}})
            lin = {j: F(1) for j in js}
            lin[0] = F(1)
            m.con(None, sum(xs[j] for j in lin) + 2, lin)
            m.has_sos = True
            self.hit('sos%d' % typ)
        return m, xs


PROFILES = {
    'linear': {'num': [], 'rel': [], 'log': [], 'ncons': (1, 4), 'nlcons': (0, 0), 'sos': True, 'freevars': True},
    'logic': {'num': [], 'rel': ['le', 'ge', 'lt', 'gt', 'eq', 'ne'], 'log': ['or', 'and', 'not', 'implies', 'iff', 'forall', 'exists'],
              'ncons': (0, 2), 'nlcons': (1, 3), 'depth': 2},
    'expr': {'num': ['abs', 'min', 'max', 'if', 'sum', 'count'], 'rel': ['le', 'ge', 'eq', 'lt'], 'log': ['or', 'and', 'not'],
             'ncons': (1, 3), 'nlcons': (0, 1), 'depth': 2, 'p_nl': (3, 4)},
    'pl': {'num': ['pl', 'pl', 'pl', 'abs', 'sum'], 'rel': ['le', 'ge', 'eq'], 'log': ['or', 'and'],
           'ncons': (1, 3), 'nlcons': (0, 1), 'depth': 2, 'p_nl': (1, 1)},
    # focus profiles: one flat type each, so that every evaluator / violation measure is visited in every run
    'f_div': {'num': ['div'], 'rel': ['le', 'ge'], 'log': ['or'], 'ncons': (1, 2), 'nlcons': (0, 0), 'depth': 1, 'p_nl': (1, 1)},
    'f_numberof': {'num': ['numberof'], 'rel': ['le', 'ge'], 'log': ['or'], 'ncons': (1, 2), 'nlcons': (0, 0), 'depth': 1, 'p_nl': (1, 1), 'minint': 3},
    'f_alldiff': {'num': [], 'rel': ['le', 'ge', 'eq'], 'log': ['alldiff', 'alldiff', 'not'], 'ncons': (0, 1), 'nlcons': (1, 2), 'depth': 1, 'minint': 3},
    'f_count': {'num': ['count'], 'rel': ['le', 'ge', 'eq', 'lt', 'gt', 'ne'], 'log': ['atleast', 'atmost', 'exactly', 'notatleast', 'notatmost', 'notexactly'],
                'ncons': (0, 2), 'nlcons': (1, 2), 'depth': 1, 'p_nl': (1, 1)},
    'f_qfc': {'num': ['absmul', 'maxmul', 'mul', 'pow3'], 'rel': ['le', 'ge'], 'log': ['or'], 'ncons': (1, 3), 'nlcons': (0, 0), 'depth': 1, 'p_nl': (1, 1)},
    'f_if': {'num': ['if', 'min', 'max'], 'rel': ['le', 'ge', 'lt', 'gt', 'eq'], 'log': ['implies', 'iff', 'and'], 'ncons': (1, 2), 'nlcons': (1, 2), 'depth': 2, 'p_nl': (1, 1)},
    'f_sos': {'num': [], 'rel': [], 'log': [], 'ncons': (1, 2), 'nlcons': (0, 0), 'sos': True, 'p_sos': (1, 1)},
    'f_compl': {'num': [], 'rel': [], 'log': [], 'ncons': (1, 2), 'nlcons': (0, 0), 'compl': (1, 1)},
    'mixed': {'num': ['abs', 'min', 'max', 'if', 'count', 'numberof', 'mul', 'div', 'sum', 'pl'],
              'rel': ['le', 'ge', 'lt', 'gt', 'eq', 'ne'],
              'log': ['or', 'and', 'not', 'implies', 'iff', 'forall', 'exists', 'alldiff', 'atleast', 'atmost', 'exactly'],
              'ncons': (0, 3), 'nlcons': (0, 2), 'depth': 2, 'p_nl': (2, 3), 'sos': True},
}

ACCEPT_SETS = [
    None,                                                  # default: the four linear types
    'ALL',
    'LinConRange,LinConLE,LinConEQ,LinConGE,QuadConRange,QuadConLE,QuadConEQ,QuadConGE,PLConstraint',
    'LinConRange,LinConLE,LinConEQ,LinConGE,IndicatorLinConLE,IndicatorLinConEQ,IndicatorLinConGE,SOS1Constraint,SOS2Constraint',
    'LinConRange,LinConLE,LinConEQ,LinConGE,AbsConstraint,MaxConstraint,MinConstraint,AndConstraint,OrConstraint,NotConstraint',
    'LinConRange,LinConLE,LinConEQ,LinConGE,QuadConRange,QuadConLE,QuadConEQ,QuadConGE,IndicatorLinConLE,IndicatorLinConEQ,IndicatorLinConGE,'
    'CondLinConLE,CondLinConLT,CondLinConGE,CondLinConGT,CondLinConEQ,OrConstraint,AndConstraint,CountConstraint,IfThenConstraint',
]

DY = [F(1, 2 ** k) for k in (4, 6, 8, 10, 12, 20)]
# solver statuses: solved, uncertain, infeasible (the only class exempt from the check), unbounded with/without feasible
# point, limit with/without feasible point, undecided inf/unb, failure
SOLVE_CODES = [0, 50, 100, 199, 200, 201, 250, 299, 300, 320, 349, 350, 399, 400, 449, 450, 455, 469, 470, 499, 500, 600]


def code_class(code):
    for lo, hi, nm in ((0, 99, 'solved'), (100, 199, 'uncertain'), (200, 299, 'infeasible'), (300, 349, 'unbounded-feas'),
                       (350, 399, 'unbounded-nofeas'), (400, 449, 'limit-feas'), (450, 469, 'limit-inf-unb'),
                       (470, 499, 'limit-nofeas'), (500, 999, 'failure')):
        if lo <= code <= hi:
            return nm
    return 'other'


def fstr(q):
    return repr(float(q))


def gen_options(rng, family):
    """solution-check options for one run; tolerances dyadic"""
    o = {}
    t = rng.below(10)
    if t < 2:
        pass                                  # default mode 1+2+512
    elif t < 4:
        o['mode'] = 1023
    elif t < 5:
        o['mode'] = 1 << rng.below(10)
    elif t < 6:
        o['mode'] = rng.choice([3, 19, 31, 96, 99, 608, 992, 515, 7, 15, 224, 480])
    else:
        o['mode'] = rng.below(1024)
    if rng.chance(3, 4):
        o['feastol'] = rng.choice(DY)
    if rng.chance(3, 4):
        o['feastolrel'] = rng.choice(DY + [F(0), F(0), F(1, 2), F(1)])
    if rng.chance(1, 2):
        o['inttol'] = rng.choice(DY + [F(0), F(1, 4)])
    if rng.chance(1, 3):
        o['fail'] = True
    if rng.chance(1, 4):
        o['infeas'] = True
    if rng.chance(1, 8):
        o['round'] = rng.choice([0, 0, 1, -1, 2, 3])
    if rng.chance(1, 10):
        o['prec'] = rng.choice([1, 2, 3, 6])
    return o


def option_args(o):
    a = []
    if 'mode' in o:
        a.append('sol:chk:mode=%d' % o['mode'])
    if 'feastol' in o:
        a.append('sol:chk:feastol=' + fstr(o['feastol']))
    if 'feastolrel' in o:
        a.append('sol:chk:feastolrel=' + fstr(o['feastolrel']))
    if 'inttol' in o:
        a.append('sol:chk:inttol=' + fstr(o['inttol']))
    if o.get('fail'):
        a.append('sol:chk:fail')
    if o.get('infeas'):
        a.append('sol:chk:infeas')
    if 'round' in o:
        a.append('sol:chk:round=%d' % o['round'])
    if 'prec' in o:
        a.append('sol:chk:prec=%d' % o['prec'])
    return a


# ----------------------------------------------------------------------------------------------- exactness of the precision options in doubles
def cround(x):
    return math.copysign(math.floor(abs(x) + 0.5), x)


def dbl_round_ok(xs, rnd, prec):
    """do the double computations of apply_precision_options give the exact rational result for every entry?
    (only then the run is inside the exact-arithmetic fragment)"""
    vals = [float(v) for v in xs]
    exact = [F(v) for v in xs]
    try:
        if rnd is not None:
            scale = math.pow(10, rnd)
            rec = 1.0 / scale
            nv, ne = [], []
            for v, e in zip(vals, exact):
                d = cround(v * scale) * rec
                s = F(10) ** rnd
                t = e * s
                rt = F(math.floor(abs(t) + F(1, 2))) * (1 if t >= 0 else -1)
                q = rt / s
                if F(d) != q:
                    return False
                nv.append(d)
                ne.append(q)
            vals, exact = nv, ne
        if prec is not None:
            for v, e in zip(vals, exact):
                if v == 0.0:
                    continue
                dg = prec - math.ceil(math.log10(abs(v)))
                factor = math.pow(10.0, dg)
                d = cround(v * factor) / factor
                a = abs(e)
                k = 0
                while F(10) ** k < a:
                    k += 1
                while F(10) ** (k - 1) >= a:
                    k -= 1
                fe = F(10) ** (prec - k)
                t = e * fe
                rt = F(math.floor(abs(t) + F(1, 2))) * (1 if t >= 0 else -1)
                if F(d) != rt / fe:
                    return False
    except (OverflowError, ValueError):
        return False
    return True


# ----------------------------------------------------------------------------------------------- NL-level oracle
def nl_items(m, xo):
    """exact (violation, reference, what) triples of the ORIGINAL model at the original variables' values"""
    out = []
    for j, v in enumerate(m.vars):
        if v['lb'] is not None:
            out.append((F(v['lb']) - xo[j], F(v['lb']), 'lb x%d' % j))
        if v['ub'] is not None:
            out.append((xo[j] - F(v['ub']), F(v['ub']), 'ub x%d' % j))
    for i, c in enumerate(m.cons):
        b = m.con_body(c, xo)
        if c['lb'] is not None:
            out.append((F(c['lb']) - b, F(c['lb']), 'con %d lb' % i))
        if c['ub'] is not None:
            out.append((b - F(c['ub']), F(c['ub']), 'con %d ub' % i))
    return out


def int_dists(m, xo):
    return [(j, abs(xo[j] - F(cround(float(xo[j]))))) for j, v in enumerate(m.vars) if v['int']]


def compl_verdict(m, xo, feastol):
    """`body complements z` (z in [lb,ub]): z at its lower bound needs body >= 0, at its upper bound body <= 0, strictly
    inside body = 0.  Decided only with margins (z exactly on a bound or at least 1/8 inside; |body| 0 or at least 1/8), so
    that any reading of the tolerance agrees.  Returns the list of violated rows, or None if undecidable."""
    bad = []
    for i, c in enumerate(m.cons):
        if not c.get('compl'):
            continue
        j = c['compl'][0]
        z, lb, ub = F(xo[j]), F(m.vars[j]['lb']), F(m.vars[j]['ub'])
        body = m.con_body(c, xo)
        if z == lb:
            amount = -body
        elif z == ub:
            amount = body
        elif lb + F(1, 8) <= z <= ub - F(1, 8):
            amount = abs(body)
        else:
            return None
        if amount >= F(1, 8) and amount > 2 * feastol:
            bad.append('compl row %d (z=%s body=%s)' % (i, rstr(z), rstr(body)))
        elif amount > 0:
            return None
    return bad


def nl_verdict_exact(m, xo, feastol, feastolrel, inttol):
    """for models whose flattening is the identity (linear constraints with >= 2 variables, no constants):
    the statement of the property evaluated exactly.  returns ('feasible'|'violated'|'int-violated', detail)"""
    bad = [w for viol, ref, w in nl_items(m, xo) if viol > feastol and (ref == 0 or viol / abs(ref) > feastolrel)]
    if bad:
        return 'violated', bad
    ib = [j for j, d in int_dists(m, xo) if d > inttol]
    if ib:
        return 'int-violated', ib
    return 'feasible', None


def nl_verdict_margin(m, xo, feastol, inttol):
    """general models, relative tolerance 0: 'feasible' (everything holds exactly), 'violated' (an item is violated by
    more than 64*feastol and at least 1/64, or a logical constraint is false), 'int-violated', or 'undetermined'"""
    big, small = [], False
    try:
        for viol, ref, w in nl_items(m, xo):
            if viol > 64 * feastol and viol >= F(1, 64):
                big.append(w)
            elif viol > 0:
                small = True
        # a false logical constraint counts as robustly violated only at grid points (all comparisons then differ by
        # at least 1/64 >> tolerance); off-grid points (boundary families) may be within tolerance of a comparison
        # that the converter turned into a bound or an algebraic row
        ongrid = all((F(v) * GRID).denominator == 1 for v in xo) and feastol <= F(1, 256)
        for i, l in enumerate(m.lcons):
            if not nlgen.ev(l['expr'], xo):
                if ongrid:
                    big.append('logical %d' % i)
                else:
                    small = True
    except nlgen.Undefined:
        return 'undetermined', 'undefined expression'
    ib = []
    for j, d in int_dists(m, xo):
        if d > inttol:
            ib.append(j)
        elif d > 0:
            small = True
    if ib:
        # a fractional integer variable: the flat model (integer-rounded right-hand sides etc.) need not agree with the
        # NL model at such a point; what the property requires in any case is a report for the integrality violation
        return 'int-violated', ib
    if big:
        return 'violated', big
    if small:
        return 'undetermined', 'within margin'
    return 'feasible', None


# ----------------------------------------------------------------------------------------------- running cases
class Runner:
    def __init__(self, ck, exe, drv, work):
        self.ck, self.exe, self.drv, self.work = ck, exe, drv, work
        shutil.rmtree(work, ignore_errors=True)
        os.makedirs(work)
        self.n = 0

    def write_model(self, m, tag, names=True):
        stub = os.path.join(self.work, tag)
        m.write(stub, names=names)
        return stub

    def exec_case(self, c):
        """run the real driver; fills c['res'] (raw run), c['flat'] (Flat|None)"""
        cid = c['id']
        stub = os.path.join(self.work, 'r%05d' % cid)
        for ext in ('.nl', '.col', '.row'):
            if os.path.exists(c['stub'] + ext):
                shutil.copyfile(c['stub'] + ext, stub + ext)
        script = None
        if c.get('noprimal'):
            script = stub + '.script'
            rs.write_script(script, code=c.get('code', 0))          # status only: the 'solver' returns no point
        elif c.get('xs') is not None:
            script = stub + '.script'
            rs.write_script(script, code=c.get('code', 0), x=[float(v) for v in c['xs']],
                            obj=[float(v) for v in c['objv']] if c.get('objv') is not None else None)
        opts = list(c.get('base_opts', [])) + option_args(c.get('opts', {}))
        r = rs.run(self.exe, stub, options=opts, accept=c.get('accept'), script=script, timeout=60)
        c['run_stub'] = stub
        c['cmd_options'] = opts
        c['rc'] = r['rc']
        c['err'] = (r['err'] or '')[-400:]
        c['flat'] = Flat(r['log']) if any(e.get('ev') == 'chk_begin' for e in r['log']) else None
        sol = rs.parse_sol(r['sol']) if r['sol'] else None
        c['sol_code'] = sol['code'] if sol else None
        c['sol_msg'] = sol['message'] if sol else None
        for ext in ('.nl', '.col', '.row', '.sol', '.reclog', '.script'):
            try:
                os.remove(stub + ext)
            except OSError:
                pass
        return c

    def run_cases(self, cases, workers=6):
        t0 = time.time()
        with ThreadPoolExecutor(max_workers=workers) as ex:
            list(ex.map(self.exec_case, cases))
        t1 = time.time()
        # model side: one driver process for the whole batch
        ops, spans = [], []
        for c in cases:
            f = c['flat']
            c['model'] = None
            if f is None or not f.supported:
                spans.append(None)
                continue
            try:
                L = f.model_ops() + [f.opts_ops(), f.check_ops(c.get('code', 0))]
                if getattr(self, 'arms', None) is not None:
                    L.append('arms' + L[-1][5:])
            except Unsupported as u:
                f.supported = False
                f.why = str(u)
                spans.append(None)
                continue
            spans.append((len(ops), len(L)))
            ops += L
        if ops:
            p = subprocess.run([self.drv], input='\n'.join(ops) + '\n', capture_output=True, text=True)
            out = p.stdout.split('\n')
            if time.time() - t0 > 20:
                self.ck.log('slow batch: %d cases, real runs %.1fs, model driver %.1fs' % (len(cases), t1 - t0, time.time() - t1))
            for c, sp in zip(cases, spans):
                if sp is None:
                    continue
                seg = out[sp[0]:sp[0] + sp[1]]
                c['ops'] = ops[sp[0]:sp[0] + sp[1]]
                if getattr(self, 'arms', None) is not None and len(seg) == sp[1]:
                    for a in seg[-1].split(';;'):
                        for comp in a.split('|'):
                            self.arms[comp] = self.arms.get(comp, 0) + 1
                        if a.count('|') == 2 and a.split('|')[1] in ('var-bounds', 'aux-bounds', 'var-int', 'aux-int', 'obj'):
                            k = a.split('|')[1] + '|' + a.split('|')[2]
                            self.arms[k] = self.arms.get(k, 0) + 1
                    seg = seg[:-1]
                    sp = (sp[0], sp[1] - 1)
                if len(seg) < sp[1] or any(s != 'ok' for s in seg[:-1]):
                    bad = next((i for i, s in enumerate(seg[:-1]) if s != 'ok'), None)
                    c['model'] = {'error': 'driver rejected op: %s' % (c['ops'][bad] if bad is not None else 'short output')}
                else:
                    c['model_line'] = seg[-1]
                    c['model'] = parse_model_out(seg[-1]) or {'status': seg[-1]}
        return cases


import subprocess


def observed(c):
    """what the real code did: ret ('1','0','throw150',...), report text, solve code"""
    f = c['flat']
    end = f.end
    if end is None:
        return None
    if end['ret'] == 'throw':
        ret = 'throw%d' % end['code']
        text = observed_text(end.get('what'))
    else:
        ret = str(end['ret'])
        text = observed_text(c['sol_msg'])
    return {'ret': ret, 'text': norm_text(text), 'code': c['sol_code']}


def predicted(c):
    m = c['model']
    if m is None or 'ret' not in m:
        return None
    text = expected_text(m['ideal'], m['real'])
    if m['code'] == 150:
        ret = 'throw150'
        code = 150
    else:
        ret = str(m['ret'])
        code = c.get('code', 0)
    return {'ret': ret, 'text': norm_text(text), 'code': code}


def replay_obj(c, extra=None):
    o = {'family': c.get('family'), 'profile': c.get('profile'), 'accept': c.get('accept'), 'options': c.get('cmd_options'),
         'x': [rstr(v) for v in c['xs']] if c.get('xs') is not None else None,
         'obj': [rstr(v) for v in c['objv']] if c.get('objv') is not None else None, 'code': c.get('code', 0),
         'nl': open(c['stub'] + '.nl').read(),
         'col': open(c['stub'] + '.col').read() if os.path.exists(c['stub'] + '.col') else None,
         'row': open(c['stub'] + '.row').read() if os.path.exists(c['stub'] + '.row') else None,
         'how': './check C07 --replay <this file>   (re-runs harness/c07 on the stored model/point/options and prints report, model prediction and oracle)'}
    if extra:
        o.update(extra)
    return o


# ----------------------------------------------------------------------------------------------- candidate points
def model_point(m, xflat):
    """values of the original variables in nlgen-model order from a flat vector (flat original vars are in NL order)"""
    return [F(xflat[m.pos[j]]) for j in range(len(m.vars))]


def fbnd(v):
    """finite sampling range of a flat variable"""
    lo = F(v['lb']) if v['lb'] != -INF else F(-4)
    hi = F(v['ub']) if v['ub'] != INF else F(6)
    return lo, hi


def gen_points(rng, m, xs_model, flat, opts):
    """list of dict(family, xs, objv, consistent, objexact) for one option set (tolerances decide the boundary points)"""
    tol = F(opts.get('feastol', F(1, 2 ** 20)))     # dyadic also when the (non-dyadic) default 1e-6 is in force
    nv = len(m.vars)
    norig = sum(1 for v in flat.vars if v['orig'])
    assert norig == nv
    x0 = [F(xs_model[m.perm[i]]) for i in range(nv)]
    pts = []

    def add(fam, xo, consistent=True, mut=None, objmode='exact'):
        x = flat.consistent(xo + [F(0)] * (len(flat.vars) - nv), rng)
        if x is None:
            return
        if mut:
            x = mut(x)
            if x is None:
                return
        ov = [b.val(x) for b in flat.objbodies]
        if objmode == 'off':
            ov = [v + rng.choice([F(1), -F(1, 4), tol, 2 * tol, F(3)]) for v in ov]
        elif objmode == 'none':
            ov = None
        pts.append({'family': fam, 'xs': x, 'objv': ov, 'consistent': consistent and mut is None, 'objexact': objmode == 'exact'})

    add('planted', list(x0))
    add('planted', list(x0))
    deltas = [tol, tol * (1 + F(1, 256)), tol / 2, 2 * tol, 65 * tol, F(1, 4), F(1), F(3)]
    # one original variable moved
    for _ in range(3):
        xo = list(x0)
        j = rng.below(nv)
        v = flat.vars[j]
        t = rng.below(6)
        if t == 0 and v['ub'] != INF:
            xo[j] = F(v['ub']) + rng.choice(deltas)
            fam = 'bound-ub'
        elif t == 1 and v['lb'] != -INF:
            xo[j] = F(v['lb']) - rng.choice(deltas)
            fam = 'bound-lb'
        elif t in (2, 3) and v['int']:
            base = F(rng.rint(int(v['lb']), int(v['ub'])))
            xo[j] = base + rng.choice([F(1, 2), F(1, 4), -F(1, 4), tol, F(1, 1024), F(3, 8)])
            fam = 'integrality'
        else:
            lo, hi = int(fbnd(v)[0] * GRID), int(fbnd(v)[1] * GRID)
            xo[j] = F(rng.rint(lo, hi), 1 if v['int'] else GRID) if not v['int'] else F(rng.rint(int(v['lb']), int(v['ub'])))
            fam = 'move-one'
        add(fam, xo)
    # all original variables random
    xo = []
    for j in range(nv):
        v = flat.vars[j]
        if v['int']:
            xo.append(F(rng.rint(int(v['lb']), int(v['ub']))))
        else:
            xo.append(F(rng.rint(int(fbnd(v)[0] * GRID), int(fbnd(v)[1] * GRID)), GRID))
    add('random-orig', xo)
    # boundary of one constraint (linear bodies): shift a continuous variable so that the violation is exactly delta
    cont = [j for j in range(nv) if not m.vars[j]['int']]
    for _ in range(2):
        p2 = (F(1), F(-1), F(2), F(-2), F(1, 2), F(-1, 2), F(1, 4), F(-1, 4))     # division stays dyadic
        cands = [(i, c) for i, c in enumerate(m.cons) if c['nl'] is None and any(j in c['lin'] and c['lin'][j] in p2 for j in cont)]
        if not cands:
            break
        i, c = rng.choice(cands)
        j = rng.choice([j for j in cont if j in c['lin'] and c['lin'][j] in p2])
        xm = list(xs_model)
        b = m.con_body(c, xm)
        side = 'ub' if (c['ub'] is not None and (c['lb'] is None or rng.chance(1, 2))) else 'lb'
        ref = F(c[side])
        d = rng.choice(deltas + [tol, tol])
        if rng.chance(1, 3) and ref != 0 and opts.get('feastolrel'):
            d = abs(ref) * opts['feastolrel'] * rng.choice([F(1), 1 + F(1, 256), F(1, 2), F(2)])
        target = ref + d if side == 'ub' else ref - d
        xm[j] = xm[j] + (target - b) / F(c['lin'][j])
        add('con-boundary', [F(xm[m.perm[i2]]) for i2 in range(nv)])
    # inconsistent auxiliary value
    aux = [i for i in range(nv, len(flat.vars)) if flat.def_of(i) is not None]
    for _ in range(2 if aux else 0):
        i = rng.choice(aux)
        d = rng.choice(deltas) * rng.choice([1, -1])

        def mut(x, i=i, d=d):
            y = list(x)
            y[i] = y[i] + d
            return y
        add('aux-off', list(x0), mut=mut)
    # solver-claimed 0/1 result of a reified comparison inconsistent with the point (everything depending on it
    # recomputed from the claimed value): b=0 although the comparison holds / b=1 although it fails
    conds = [it for it in flat.items if it['con'][0] == 'cond' and not it['unused'] and it['depth'] == 0
             and flat.best_def(it['con'][1]) is it['con']]
    def rand_orig(keep):
        xo = []
        for j in range(nv):
            v = flat.vars[j]
            if keep and rng.chance(1, 2):
                xo.append(x0[j])
            elif v['int']:
                xo.append(F(rng.rint(int(v['lb']), int(v['ub']))))
            else:
                xo.append(F(rng.rint(int(fbnd(v)[0] * GRID), int(fbnd(v)[1] * GRID)), GRID))
        return xo
    for _ in range(min(4, len(conds) + 1) if conds else 0):
        it = rng.choice(conds)
        r = it['con'][1]
        ctx = it['con'][2]
        # the direction that the context forbids: negative context -> claim b=0 where the comparison holds,
        # positive -> claim b=1 where it fails (mixed: either); sometimes the harmless direction
        want = {'neg': F(1), 'pos': F(0)}.get(ctx, F(rng.below(2)))
        if rng.chance(1, 5):
            want = 1 - want
        base = None
        for tr in range(10):
            xo = list(x0) if tr == 0 else rand_orig(tr < 5)
            b = flat.consistent(xo + [F(0)] * (len(flat.vars) - nv), None)
            if b is not None and b[r] == want:
                base = b
                break
        if base is None:
            continue
        x = flat.consistent(xo + [F(0)] * (len(flat.vars) - nv), None, override={r: 1 - base[r]})
        if x is None:
            continue
        pts.append({'family': 'aux-flip', 'xs': x, 'objv': [b_.val(x) for b_ in flat.objbodies], 'consistent': False,
                    'objexact': True, 'flip': {'var': r, 'truth': base[r], 'ctx': ctx, 'name': it['name']}})
    # complementarity rows: complementing variable at lb / at ub / strictly inside  x  expression negative / zero / positive
    p2 = (F(1), F(-1), F(2), F(-2), F(1, 2), F(-1, 2))
    for ci, c in enumerate(m.cons):
        if not c.get('compl'):
            continue
        zj = c['compl'][0]
        movable = [j for j in cont if j in c['lin'] and c['lin'][j] in p2 and j != zj]
        if not movable:
            continue
        lbz, ubz = F(m.vars[zj]['lb']), F(m.vars[zj]['ub'])
        combos = [(zv, bt) for zv in (lbz, ubz, (lbz + ubz) / 2, lbz + F(1, 4)) for bt in (F(-1, 2), F(0), F(1, 2), F(-2), F(1, 4))]
        for _ in range(6):
            zv, bt = rng.choice(combos)
            j = rng.choice(movable)
            xm = list(xs_model)
            xm[zj] = zv
            b = m.con_body(c, xm)
            xm[j] = xm[j] + (bt - b) / F(c['lin'][j])
            add('compl', [F(xm[m.perm[i2]]) for i2 in range(nv)])
    # wrong / missing objective value
    if flat.objbodies:
        add('obj-off', list(x0), objmode='off')
        if rng.chance(1, 2):
            add('obj-none', list(x0), objmode='none')
    # garbage for every flat variable
    for _ in range(2):
        def mutg(x):
            y = []
            for i2, v in enumerate(flat.vars):
                lb = F(v['lb']) if v['lb'] != -INF else F(-4)
                ub = F(v['ub']) if v['ub'] != INF else F(6)
                if rng.chance(1, 2) and i2 >= nv:
                    y.append(x[i2])
                elif v['int'] and not rng.chance(1, 6):
                    y.append(F(rng.rint(int(lb) - (1 if rng.chance(1, 8) else 0), int(ub) + (1 if rng.chance(1, 8) else 0))))
                else:
                    y.append(F(rng.rint(int(lb * GRID) - 2, int(ub * GRID) + 2), GRID))
            return y
        add('garbage', list(x0), mut=mutg, objmode='off' if rng.chance(1, 2) else 'exact')
    return pts


# ----------------------------------------------------------------------------------------------- oracle per case
def oracle(c):
    """expected 'report present?' from the NL-level model, or None when the oracle does not apply.
    returns dict(expect: bool, kind, detail) | None"""
    f = c['flat']
    if f is None or f.chk is None or c.get('xs') is None or not (c.get('consistent') or c.get('family') == 'aux-flip'):
        return None
    ch = f.chk
    code = c.get('code', 0)
    if 200 <= code <= 299 and not ch['infeas']:
        # the only exemption: status 'infeasible' (IsProblemInfeasible) without sol:chk:infeas
        return {'expect': False, 'kind': 'skipped', 'detail': None}
    if ch['round'] < 100 or ch['prec'] < 100:
        return None
    mode = ch['mode']
    real, ideal = mode & 31, (mode >> 5) & 31
    if not (real or ideal):
        return {'expect': False, 'kind': 'mode0', 'detail': None}
    if c.get('family') == 'aux-flip':
        return flip_oracle(c)
    m = c['m']
    if getattr(m, 'has_sos', False):
        return None                      # the NL-level evaluator knows nothing about SOS suffixes
    feastol, feastolrel, inttol = fr(ch['feastol']), fr(ch['feastolrel']), fr(ch['inttol'])
    xseen = [fr(t) for t in ch['x']]                  # the vector the real code was given
    if any(v is None or isinstance(v, float) for v in xseen) or xseen != [F(v) for v in c['xs']]:
        return None
    xo = model_point(m, xseen)
    objsel = bool((real | ideal) & 16)
    if objsel and not c.get('objexact'):
        return None
    if objsel and c.get('objv') is None:
        pass          # no objective values: nothing to compare
    linear = c['profile'] in ('linear', 'f_compl')
    if linear:
        # flattening is the identity: exact statement; selection: variables by bit 1, constraints by bits 2|8
        items = nl_items(m, xo)
        vsel = bool((real | ideal) & 1)
        csel = bool((real | ideal) & (2 | 8))
        badv = [w for viol, ref, w in items if w[0] in 'lu' and viol > feastol and (ref == 0 or viol / abs(ref) > feastolrel)]
        badc = [w for viol, ref, w in items if w[0] == 'c' and viol > feastol and (ref == 0 or viol / abs(ref) > feastolrel)]
        badi = [(j, d) for j, d in int_dists(m, xo) if d > inttol]
        if getattr(m, 'has_compl', False):
            if (real | ideal) & (4 | 8):
                return None              # converted complementarity rows leave arbitrary auxiliary values in those classes
            csel = bool((real | ideal) & 2)
            cv = compl_verdict(m, xo, feastol)
            if cv is None:
                return None
            badc += cv
        if (vsel and badv) or (csel and badc):
            return {'expect': True, 'kind': 'violated', 'detail': (badv if vsel else []) + (badc if csel else [])}
        if vsel and badi:
            return {'expect': True, 'kind': 'int-violated', 'detail': badi}
        if vsel and (real & 1):
            # "flattening is the identity" fails when the conversion added auxiliary variables (complementarity reformulated
            # for an acceptance set without it): the realistic pass legitimately tests their bounds / integrality too, and the
            # NL model says nothing about them -> no 'feasible' verdict when one of them is off (thorough seed 1, round 7)
            for j, v in enumerate(f.vars):
                if v['orig'] or j >= len(xseen):
                    continue
                xv = xseen[j]
                if (v['lb'] not in (None, -INF) and not isinstance(v['lb'], float) and v['lb'] - xv > 0) or \
                   (v['ub'] not in (None, INF) and not isinstance(v['ub'], float) and xv - v['ub'] > 0) or \
                   (v['int'] and xv != cround(float(xv)) and abs(xv - F(cround(float(xv)))) > 0):
                    return None
        return {'expect': False, 'kind': 'feasible', 'detail': None}
    # general models: relative tolerance 0, no intermediate/solver-side classes, variables and original constraints both selected
    if feastolrel != 0:
        return None
    if (real | ideal) & (4 | 8):
        return None
    if not ((real & 3) == 3 or (ideal & 3) == 3):
        return None
    kind, detail = nl_verdict_margin(m, xo, feastol, inttol)
    if kind == 'undetermined':
        return None
    if kind == 'int-violated':
        detail = [(j, d) for j, d in int_dists(m, xo) if d > inttol]
    return {'expect': kind != 'feasible', 'kind': kind, 'detail': detail}


def diagnose_unreported(c):
    """why was an NL-level violation not reported?  recognises the idealistic-pass blind spot: the realistic pass does
    not test variables+original constraints (bits 1+2 not both set), and the violation shows only as the recomputed
    result of a ConditionalConstraint lying outside its (fixed) bounds"""
    f = c['flat']
    mode = f.chk['mode']
    if (mode & 3) == 3:
        return None
    x = [fr(t) for t in f.chk['x']]
    hits = []
    kinds = set()
    for it in f.items:
        if it['unused'] or it['con'][0] not in ('cond', 'adef'):
            continue
        r = it['con'][1]
        v = f.vars[r]
        if x[r] < v['lb'] or x[r] > v['ub']:
            hits.append(f.vars[r]['name'])
            kinds.add(it['con'][0])
    if not hits:
        return None
    return ('cond' if 'cond' in kinds else 'lfc'), hits


def item_vars(con):
    k = con[0]
    if k == 'alg':
        return con[1]['body'].vars()
    if k == 'tfunc':
        return [con[1]] + list(con[3][1])
    if k in ('func', 'adef'):
        f = con[3]
        if f[0] == 'affine':
            return [con[1]] + f[1].vars()
        if f[0] == 'nofc':
            return [con[1]] + list(f[2])
        if f[0] == 'nofv':
            return [con[1], f[1]] + list(f[2])
        return [con[1]] + list(f[1])
    if k == 'cond':
        return [con[1]] + con[3]['body'].vars()
    if k == 'ind':
        return [con[1]] + con[3]['body'].vars()
    if k in ('sos1', 'sos2'):
        return list(con[1])
    if k == 'compl':
        return [con[1]] + con[2].vars()
    return []


def orphaned_refs(f):
    """names of checkable (not unused) constraints that mention a variable whose defining expression was marked unused
    during conversion (such variables are fixed to 0 by FixUnusedDefinedVars although the constraint stays checkable)"""
    orph = {i for i, v in enumerate(f.vars) if v['init'] and v['init']['unused']}
    return [it['name'] for it in f.items if not it['unused'] and orph & set(item_vars(it['con']))]


def ctx_none_items(f):
    return [it['name'] for it in f.items if not it['unused'] and it['con'][0] in ('func', 'cond') and it['con'][2] == 'none']


def flip_oracle(c):
    """realistic pass, bits 1|2|16 only, relative tolerance 0: the solver's 0/1 value of ONE reified comparison (depth 0)
    contradicts the point, every other expression value is exact given that claim.  Expected report from the documented
    semantics of auxiliary values: variable bounds/integrality (bit 1); original algebraic rows; a comparison result b in
    positive context promises 'b=1 => holds', in negative context 'b=0 => fails', in mixed context both (bit 2); the
    amount is the distance of the body from the comparison's boundary.  None when not decidable with a margin."""
    f = c['flat']
    ch = f.chk
    mode = ch['mode']
    if mode & ~(1 | 2 | 16) or fr(ch['feastolrel']) != 0:
        return None
    feastol, inttol = fr(ch['feastol']), fr(ch['inttol'])
    x = [fr(t) for t in ch['x']]
    if any(v is None or isinstance(v, float) for v in x) or x != [F(v) for v in c['xs']]:
        return None
    if ctx_none_items(f) or orphaned_refs(f):
        return None
    fl = c['flip']
    bad = []

    def amount(a, what):
        # returns False if undecidable
        if a > feastol:
            if a < F(1, 64):
                return False
            bad.append(what)
        elif a > 0:
            return False
        return True
    if mode & 1:
        for i, v in enumerate(f.vars):
            if v['lb'] != -INF and not amount(F(v['lb']) - x[i], 'lb ' + v['name']):
                return None
            if v['ub'] != INF and not amount(x[i] - F(v['ub']), 'ub ' + v['name']):
                return None
            if v['int']:
                d = abs(x[i] - F(cround(float(x[i]))))
                if d > inttol:
                    bad.append('int ' + v['name'])
    if mode & 2:
        for it in f.items:
            if it['unused'] or it['depth'] != 0:
                continue
            con = it['con']
            k = con[0]
            if k == 'alg':
                a = con[1]
                bd = a['body'].val(x)
                if a['lo'] != -INF and not amount(F(a['lo']) - bd, 'row ' + it['name']):
                    return None
                if a['hi'] != INF and not amount(bd - F(a['hi']), 'row ' + it['name']):
                    return None
            elif k == 'cond':
                if con[1] != fl['var']:
                    continue
                a = con[3]
                bd = a['body'].val(x)
                claimed = x[con[1]] >= F(1, 2)
                kind = a['kind']
                if kind in ('le', 'lt'):
                    g = F(a['hi']) - bd
                elif kind in ('ge', 'gt'):
                    g = bd - F(a['lo'])
                elif kind == 'eq':
                    g = -abs(bd - F(a['lo']))
                else:
                    return None
                if g == 0 and kind != 'le' and kind != 'ge':
                    if kind != 'eq':
                        return None              # strict comparison exactly on its boundary
                holds = alg_valid(a, bd)
                ctx = con[2]
                if holds and not claimed and ctx in ('neg', 'mix'):
                    if not amount(g, 'b=0 although %s holds (%s context)' % (it['name'], ctx)):
                        return None
                elif (not holds) and claimed and ctx in ('pos', 'mix'):
                    if not amount(-g, 'b=1 although %s fails (%s context)' % (it['name'], ctx)):
                        return None
            elif k in ('func', 'adef'):
                continue                         # exact given the claim
            else:
                return None
    # cross-check with the NL model: a robustly violated point must not come out clean
    try:
        kind, _ = nl_verdict_margin(c['m'], model_point(c['m'], x), feastol, inttol)
    except Exception:
        kind = 'undetermined'
    if kind == 'violated' and not bad and (mode & 3) == 3 and not getattr(c['m'], 'has_sos', False):
        return {'expect': None, 'kind': 'flip-conflict', 'detail': 'NL model violated but every flat item is satisfied under the context semantics'}
    return {'expect': bool(bad), 'kind': 'flip-violated' if bad else 'flip-clean', 'detail': bad[:6]}


def unused_fixed_roots(f):
    """functional constraints that are marked unused although their result variable is fixed (lb == ub): a root-level
    logical constraint whose defining expression was dropped during conversion (inlined into an enclosing and/or, marked
    unused, then found again through the expression map) - neither delivered to the solver nor looked at by the check"""
    out = []
    for it in f.items:
        if it['unused'] and it['con'][0] in ('func', 'cond'):
            v = f.vars[it['con'][1]]
            if v['lb'] == v['ub'] and not v['orig']:
                out.append(it['name'] or it['type'])
    return out


def int_sig(c, detail):
    """signature for an unreported integrality violation: does every violating variable round to a non-zero integer?"""
    xo = model_point(c['m'], c['xs'])
    nz = all(cround(float(xo[j])) != 0 for j, _ in detail)
    return 'integrality:unreported:round-nonzero' if nz else 'integrality:unreported:round-zero'


# ----------------------------------------------------------------------------------------------- the check
def proof_stage(ck):
    # regenerate lean/MpVerif/Gen/SolCheck.lean from the CURRENT tree (clang AST -> Lean); written only if changed
    gen = os.path.join(LEAN, 'MpVerif', 'Gen', 'SolCheck.lean')
    rc, out, err = sh([sys.executable, os.path.join(VERIF, 'translators', 'gen_solcheck.py'), REPO, gen, os.path.join(BUILD, 'tr_c07')],
                      timeout=900)
    ck.log((out.strip() or err.strip())[-300:])
    if rc != 0:
        ck.cov.update({'obligations': EXPECT_THEOREMS, 'discharged': 0, 'checker_cmd': 'translators/gen_solcheck.py failed'})
        return False, ['translator: ' + (out + err).strip()[-500:]]
    ok, failing = ck.proof_stage('MpVerif.C07.Props', 'MpVerif/C07/Props.lean', 'C07_',
                                 ['MpVerif/C07/*.lean', 'MpVerif/Gen/SolCheck.lean'], expect_min=EXPECT_THEOREMS)
    ck.log('proof stage: ok=%s failing=%s' % (ok, failing[:10]))
    if ck.tier == 'thorough' and ok:
        bad = ck.leanchecker(['MpVerif.C07.Props'])
        if bad:
            failing += ['leanchecker rejected %s' % b for b in bad]
            ok = False
    return ok, failing


EXPECT_THEOREMS = 65


def run(ck):
    t0 = time.time()
    coverage = os.environ.get('VERIF_COVERAGE') == '1'
    if coverage:
        # coverage mode (not part of the normal tiers): same input stream through a --coverage build of the harness
        proof_ok, failing = True, []
        ck.cov.update({'obligations': 0, 'discharged': 0, 'checker_cmd': 'VERIF_COVERAGE=1: proof stage skipped'})
        exe = build_cov_solver(ck)
    else:
        proof_ok, failing = proof_stage(ck)
        exe = build_solver(ck)
    drv = ck.driver('drv_c07')
    ck.log('harness + driver ready')
    t0 = time.time()            # the budget is for the correspondence stage
    work = os.path.join(BUILD, 'c07work')
    R = Runner(ck, exe, drv, work)
    if coverage:
        R.arms = {}
    rng = Rng(ck.seed * 7919 + 17)
    nmodels = 96 if ck.tier == 'quick' else 960
    budget = 70 if ck.tier == 'quick' else 600
    stats = {'runs': 0, 'compared': 0, 'unsupported': 0, 'no_check': 0, 'outside_fragment': 0, 'oracle_applied': 0,
             'oracle_expect_report': 0, 'oracle_expect_clean': 0, 'reports_seen': 0, 'code150_seen': 0, 'skipped_seen': 0}
    hist = {'family': {}, 'profile': {}, 'mode_bits': {}, 'labels': {}, 'types': {}, 'accept': {}, 'oracle_kind': {}, 'gen': {},
            'classes': {}, 'unsupported_why': {}, 'code_class_checked': {}, 'code_class_no_check': {}, 'flip': {}}
    corr_bad, oracle_bad = [], []
    distinct = set()
    dropped_inexact = [0]
    cid = 0
    profiles = ['linear', 'logic', 'expr', 'mixed', 'pl', 'f_div', 'f_numberof', 'f_alldiff', 'linear', 'mixed', 'pl', 'f_count',
                'f_qfc', 'f_if', 'f_sos', 'f_compl']
    mi = 0
    corpus_cases = load_corpus(R)
    batches = []
    if corpus_cases:
        # corpus points are given for the original variables only: learn the flat model, then extend consistently
        first = {}
        for c in corpus_cases:
            first.setdefault(c['stub'], dict(c, xs=None, objv=None, family='learn', id=c['id'] + 50000))
        R.run_cases(list(first.values()))
        ready = []
        for c in corpus_cases:
            f = first[c['stub']]['flat']
            if f is None or not f.supported:
                continue
            nv = len(c['m'].vars)
            x = f.consistent(c['xs'] + [F(0)] * (len(f.vars) - nv))
            if x is None:
                continue
            c['xs'] = x
            c['objv'] = [b.val(x) for b in f.objbodies]
            ready.append(c)
        R.run_cases(ready)
        batches.append(list(first.values()) + ready)
    while mi < nmodels and time.time() - t0 < budget:
        # ---- a batch of models: learning runs first
        learn = []
        for _ in range(min(12, nmodels - mi)):
            prof = profiles[mi % len(profiles)]
            g = Gen(rng, PROFILES[prof])
            m, xs = g.model()
            for k, v in g.hist.items():
                hist['gen'][k] = hist['gen'].get(k, 0) + v
            accept = None if prof == 'linear' and rng.chance(1, 2) else rng.choice(ACCEPT_SETS)
            if prof.startswith('f_') and rng.chance(2, 3):
                accept = 'ALL'                    # focus profiles: the type is delivered natively, its evaluator runs
            names = not rng.chance(1, 8)          # sometimes no .col/.row files: items have no names
            stub = R.write_model(m, 'm%04d' % mi, names)
            base = []
            if rng.chance(1, 6):
                base.append('cvt:pre:all=0')
            lo = gen_options(rng, 'learn')
            lo.pop('prec', None)          # unscripted run (x = 0): recomputed values would be rounded in doubles
            if lo.get('round') != 0:
                lo.pop('round', None)
            learn.append({'id': cid, 'stub': stub, 'm': m, 'xsm': xs, 'profile': prof, 'accept': accept, 'base_opts': base,
                          'family': 'learn', 'opts': lo, 'consistent': False})
            cid += 1
            mi += 1
        R.run_cases(learn)
        cases = []
        for lc in learn:
            f = lc['flat']
            if f is None or not f.supported:
                continue            # (the learning run itself may be outside the fragment, e.g. x = 0 divides by zero)
            for _ in range(2 if ck.tier == 'quick' else 3):
                opts = gen_options(rng, 'pts')
                if lc['profile'] != 'linear' and rng.chance(1, 2):
                    opts['feastolrel'] = F(0)
                    if rng.chance(2, 3):
                        opts['mode'] = rng.choice([3, 19, 99, 515, 96, 608, 611, 627, 531])
                try:
                    pts = gen_points(rng, lc['m'], lc['xsm'], f, opts)
                except Exception as e:          # generator problem: report, do not hide
                    ck.notes.append('gen_points failed: %r' % (e,))
                    continue
                unordered = any(f.def_of(i) is not None and any(j >= i for j in f.con_vars(f.def_of(i))) for i in range(len(f.vars)))
                for p in pts:
                    o = dict(opts)
                    if unordered and rng.chance(3, 4):
                        # definitions not ordered by index (e.g. a PL result redefined over lambda variables): the model's
                        # forward sweep does not apply, so mostly realistic-only modes (the rest is counted 'unordered')
                        o['mode'] = (o.get('mode', 515) & 31) or 3
                    if p['family'] == 'compl':
                        o['mode'] = rng.choice([3, 2, 3, 19, 66, 99, 515, 1023 - 12 - 384])
                        if o.get('feastol', F(0)) > F(1, 16):
                            o['feastol'] = F(1, 64)
                    if p['family'] == 'aux-flip':
                        o['mode'] = rng.choice([3, 3, 2, 19, 515 & 3])
                        o['feastolrel'] = F(0)
                        if o.get('feastol', F(1, 2 ** 20)) > F(1, 256):
                            o['feastol'] = F(1, 1024)
                        o.pop('round', None)
                        o.pop('prec', None)
                    if o.get('round') is not None or o.get('prec') is not None:
                        if not dbl_round_ok(p['xs'], o.get('round'), o.get('prec')):
                            o.pop('round', None)
                            o.pop('prec', None)
                        elif o.get('prec') is not None or o.get('round') != 0:
                            # the idealistic pass rounds *recomputed* values again: keep doubles exact by
                            # sampling decimal rounding only with the realistic pass (round=0 is always exact)
                            md = o.get('mode', 515) & 31
                            if md:
                                o['mode'] = md
                            else:
                                o.pop('round', None)
                                o.pop('prec', None)
                    code = 0 if rng.chance(1, 2) else rng.choice(SOLVE_CODES)
                    if any(F(float(v)) != v for v in p['xs']) or (p.get('objv') and any(F(float(v)) != v for v in p['objv'])):
                        dropped_inexact[0] += 1      # not representable as doubles (e.g. a quotient): outside the exact stream
                        continue
                    c = {'id': cid, 'stub': lc['stub'], 'm': lc['m'], 'profile': lc['profile'], 'accept': lc['accept'],
                         'base_opts': lc['base_opts'], 'opts': o, 'code': code}
                    c.update(p)
                    cases.append(c)
                    cid += 1
        for lc in learn:
            if lc['flat'] is not None and rng.chance(1, 3):
                cases.append({'id': cid, 'stub': lc['stub'], 'm': lc['m'], 'profile': lc['profile'], 'accept': lc['accept'],
                              'base_opts': lc['base_opts'], 'opts': gen_options(rng, 'pts'), 'code': rng.choice(SOLVE_CODES),
                              'family': 'no-primal', 'noprimal': True, 'xs': None, 'objv': None, 'consistent': False})
                cid += 1
        R.run_cases(cases)
        batches.append(learn + cases)
    stats['dropped_inexact_points'] = dropped_inexact[0]
    tl, tc = transc_cases(rng, R)
    for c in tl + tc + prec_cases(rng, R):
        evaluate_transc(ck, c, stats, hist, oracle_bad)
    for batch in batches:
        for c in batch:
            evaluate(ck, c, stats, hist, corr_bad, oracle_bad, distinct)
    finish(ck, proof_ok, failing, stats, hist, corr_bad, oracle_bad, distinct)
    if coverage:
        coverage_report(ck, stats, R.arms)


# ----------------------------------------------------------------------------------------------- transcendental evaluators (float oracle)
def fev(e, x):
    k = e[0]
    if k == 'n':
        return float(e[1])
    if k == 'v':
        return float(x[e[1]])
    if k == '+':
        return fev(e[1], x) + fev(e[2], x)
    if k == '*':
        return fev(e[1], x) * fev(e[2], x)
    if k == 'pow':
        return fev(e[1], x) ** fev(e[2], x)
    if k == 'sqrt':
        return math.sqrt(fev(e[1], x))
    if k == 'log10':
        return math.log10(fev(e[1], x))
    return TFUN[k](fev(e[1], x))


def transc_cases(rng, R):
    """one small model per libm-based evaluator of constr_eval.h (natively accepted, so the expression stays a functional
    constraint): f(arg) + w <= ub.  Points: planted feasible with the true value of f; w moved so that the row is violated;
    the solver's value of f off by 1/4 (idealistic bits on).  Expected verdicts need no exact arithmetic: margins >= 0.05."""
    X, Y, W = 0, 1, 2
    pos = lambda c: ('*', ('n', c), ('v', X))
    unit = ('*', ('n', F(1, 2)), ('v', Y))
    T = [('exp', lambda: ('exp', ('+', ('v', Y), ('n', F(1, 2))))), ('exp-cone', lambda: ('exp', ('+', ('v', Y), ('n', F(1, 2))))), ('log', lambda: ('log', pos(F(2)))),
         ('log10', lambda: ('log10', pos(F(3)))), ('sqrt', lambda: ('sqrt', pos(F(2)))),
         ('powc', lambda: ('pow', ('v', X), ('n', F(5, 2)))), ('expa', lambda: ('pow', ('n', F(2)), ('v', Y))),
         ('sin', lambda: ('sin', ('+', ('v', X), ('v', Y)))), ('cos', lambda: ('cos', pos(F(2)))), ('tan', lambda: ('tan', unit)),
         ('asin', lambda: ('asin', unit)), ('acos', lambda: ('acos', unit)), ('atan', lambda: ('atan', pos(F(3)))),
         ('sinh', lambda: ('sinh', ('v', Y))), ('cosh', lambda: ('cosh', ('v', X))), ('tanh', lambda: ('tanh', ('v', Y))),
         ('asinh', lambda: ('asinh', pos(F(2)))), ('acosh', lambda: ('acosh', ('+', ('v', X), ('n', F(1))))), ('atanh', lambda: ('atanh', unit))]
    learn = []
    for k, (nm, mk) in enumerate(T):
        m = nlgen.Model()
        m.var(F(1, 2), 3, False, 'x'); m.var(-1, 1, False, 'y'); m.var(-10, 10, False, 'w')
        m.has_sos = False
        xs = [F(rng.rint(2, 12), 4), F(rng.rint(-3, 3), 4), F(rng.rint(-8, 8), 4)]
        nl = mk()
        val = fev(nl, xs) + float(xs[W])
        slack = rng.choice([0.0625, 0.5])
        le = rng.chance(1, 2)
        if le:
            m.con(None, F(val + slack), {W: F(1)}, nl)
        else:
            m.con(F(val - slack), None, {W: F(1)}, nl)
        stub = R.write_model(m, 'tr%02d' % k)
        if nm == 'exp-cone' and not le:
            le = True
            m.cons[-1]['lb'], m.cons[-1]['ub'] = None, F(val + slack)
            stub = R.write_model(m, 'tr%02d' % k)
        # exp(..)+w <= ub is recognised as an exponential cone when cones are accepted: one variant keeps that (the cone's
        # violation measure is then what is observed), all others switch the cone off so that the expression stays
        base = [] if nm == 'exp-cone' else ['acc:expcone=0']
        learn.append({'id': 800000 + k, 'stub': stub, 'm': m, 'xsm': xs, 'profile': 'transc', 'accept': 'ALL', 'base_opts': base,
                      'family': 'learn', 'opts': {'mode': 3}, 'consistent': False, 'tname': nm, 'le': le})
    R.run_cases(learn)
    cases = []
    for lc in learn:
        f, m, xs = lc['flat'], lc['m'], lc['xsm']
        if f is None or not any('con' in it and it['con'][0] == 'tfunc' for it in f.items):
            continue
        tit = next(it for it in f.items if it['con'][0] == 'tfunc')
        tvar = tit['con'][1]
        for kind in ('planted', 'row-violated', 'value-off'):
            if kind == 'value-off' and tit['unused']:
                continue                      # expression absorbed into a cone: its own value is not checked
            xm = list(xs)
            if kind == 'row-violated':
                xm[W] = xm[W] + (F(3, 4) if lc['le'] else -F(3, 4))
            x = f.float_point([xm[m.perm[i]] for i in range(3)])
            if x is None:
                continue
            if kind == 'value-off':
                x[tvar] += 0.25
            mode = rng.choice([99, 99, 96, 627, 611]) if kind != 'row-violated' else rng.choice([99, 3, 96, 515, 627])
            cases.append({'id': 810000 + len(cases), 'stub': lc['stub'], 'm': m, 'profile': 'transc', 'accept': 'ALL', 'base_opts': lc['base_opts'],
                          'opts': {'mode': mode, 'fail': rng.chance(1, 3)}, 'code': 0, 'family': 'transc-' + kind, 'xs': x, 'objv': None,
                          'consistent': False, 'tname': lc['tname'], 'texpect': kind != 'planted'})
    R.run_cases(cases)
    return learn, cases


# ----------------------------------------------------------------------------------------------- sol:chk:prec / sol:chk:round (decimal oracle)
def dec_round_sig(v, n):
    """v (Fraction) rounded to n significant decimal digits, half away from zero, exactly"""
    if v == 0:
        return F(0)
    a = abs(v)
    e = 0
    while F(10) ** e < a:
        e += 1
    while F(10) ** (e - 1) >= a:
        e -= 1                      # 10^(e-1) < |v| <= 10^e
    f = F(10) ** (n - e)
    t = a * f
    r = F(math.floor(t + F(1, 2))) / f
    return r if v > 0 else -r


def dec_round_dec(v, n):
    f = F(10) ** n
    t = abs(v) * f
    r = F(math.floor(t + F(1, 2))) / f
    return r if v >= 0 else -r


def prec_cases(rng, R):
    """points whose verdict hinges on the last digit kept by sol:chk:prec=n (n significant digits) or sol:chk:round=n
    (n decimals), for values of magnitude below 1, between 1 and 10, and above 10.  Model: x - y <= t, x + y <= 50, w <= u
    (x, y in [0,40], w in [0,u]).  The expected verdict is computed in exact decimal arithmetic from the correctly rounded
    point; margins are at least 2e-5, tolerances the defaults (1e-6).  Decimal data are not dyadic, so these runs are
    judged by the oracle only (no Lean correspondence)."""
    cases = []
    for k in range(28):
        use_prec = k % 4 != 3
        n = rng.choice([2, 3, 4])
        mag = rng.choice([-1, -1, -1, 0, 1]) if use_prec else 0       # decimal exponent of the leading digit
        # value with n+1 significant digits (prec) / n+1 decimals (round); last digit decides the direction, never 5
        last = rng.choice([1, 2, 3, 4, 6, 7, 8, 9])
        if use_prec:
            lead = rng.rint(10 ** (n - 1), 10 ** n - 2)
            v = F(lead * 10 + last, 10 ** (n - mag))                  # e.g. n=3, mag=-1: 0.dddd
            r = dec_round_sig(v, n)
            other = dec_round_sig(v, n - 1)                           # what a one-digit-short rounding would give
        else:
            v = F(rng.rint(1, 9 * 10 ** n) * 10 + last, 10 ** (n + 1))
            r = dec_round_dec(v, n)
            other = dec_round_dec(v, n - 1)
        if other == r:
            continue
        which = rng.below(2)
        m = nlgen.Model()
        m.has_sos = False
        X = m.var(0, 200, False, 'x'); Y = m.var(0, 200, False, 'y')
        y = F(rng.rint(1, 9), 2) if v > F(1, 2) else F(0)
        if which == 0:
            # row x - y <= t with t strictly between the two candidate roundings
            t = (r + other) / 2 - y
            m.con(None, t, {X: 1, Y: -1})
            m.con(None, 500, {X: 1, Y: 1})
            xs = [v, y]
            viol = (r - y) - t                      # > 0: the correctly rounded point violates the row
        else:
            u = (r + other) / 2
            W = m.var(0, u, False, 'w')
            m.con(None, 500, {X: 1, Y: 1})
            m.con(None, 600, {X: 1, Y: 1, W: 1})
            xs = [F(1), F(1, 2), v]
            viol = r - u
        if abs(viol) < F(2, 10 ** 5):
            continue
        stub = R.write_model(m, 'pr%02d' % k)
        opt = {'mode': rng.choice([3, 3, 1 if which else 2, 3]), 'fail': rng.chance(1, 2)}
        opt['prec' if use_prec else 'round'] = n
        x = [xs[m.perm[i]] for i in range(len(m.vars))]
        if opt['mode'] == 1 and which == 0 or opt['mode'] == 2 and which == 1:
            opt['mode'] = 3
        cases.append({'id': 820000 + k, 'stub': stub, 'm': m, 'profile': 'prec', 'accept': None, 'base_opts': [], 'opts': opt, 'code': 0,
                      'family': 'prec-digit' if use_prec else 'round-digit', 'xs': x, 'objv': None, 'consistent': False,
                      'tname': ('prec' if use_prec else 'round') + ('<1' if v < 1 else '>=1'), 'texpect': viol > 0,
                      'detail': 'value %s, %s=%d: correctly rounded %s (one digit short: %s), %s' % (
                          float(v), 'prec' if use_prec else 'round', n, float(r), float(other),
                          'row exceeded by %s' % float(viol) if viol > 0 else 'holds with slack %s' % float(-viol))})
    R.run_cases(cases)
    return cases


def evaluate_transc(ck, c, stats, hist, oracle_bad):
    stats['runs'] += 1
    hist['family'][c['family']] = hist['family'].get(c['family'], 0) + 1
    f = c['flat']
    if f is None or f.end is None:
        stats['no_check'] += 1
        return
    for t in f.types:
        hist['types'][t] = hist['types'].get(t, 0) + 1
    if 'texpect' not in c:
        return
    obs = observed(c)
    has = obs['text'] is not None
    stats['float_oracle'] = stats.get('float_oracle', 0) + 1
    hist['oracle_kind']['transc:' + c['tname']] = hist['oracle_kind'].get('transc:' + c['tname'], 0) + 1
    if has != c['texpect']:
        kind = ('digits-' if c['profile'] == 'prec' else 'transc-') + c['tname']
        oracle_bad.append((c, {'expect': c['texpect'], 'kind': kind, 'detail': c.get('detail', c['family'])}, obs))
    elif f.chk['fail'] and (obs['code'] == 150) != has:
        oracle_bad.append((c, {'expect': has, 'kind': 'fail-code', 'detail': 'code %s with report=%s' % (obs['code'], has)}, obs))


def load_corpus(R):
    """small fixed corpus, run first: the two open findings and the tolerance boundary, as hand-made models"""
    cases = []

    def case(tag, m, prof, xs, opts, fam, objv=None, accept=None):
        if not hasattr(m, 'has_sos'):
            m.has_sos = False
        stub = os.path.join(R.work, tag)
        if not os.path.exists(stub + '.nl'):
            m.write(stub)
        x = [F(xs[m.perm[i]]) for i in range(len(m.vars))]
        cases.append({'id': 900000 + len(cases), 'stub': stub, 'm': m, 'profile': prof, 'accept': accept, 'base_opts': [],
                      'opts': opts, 'code': 0, 'family': fam, 'xs': x, 'objv': objv, 'consistent': True, 'objexact': True,
                      'corpus': True})
    # 1. integrality: k in [0,10] integer, y continuous; k + y <= 15
    m1 = nlgen.Model()
    k = m1.var(0, 10, True, 'k'); y = m1.var(0, 10, False, 'y')
    m1.con(None, 15, {k: 1, y: 1})
    for kv in (F(5, 2), F(1, 4), F(3), F(7) + F(1, 1024), F(-1, 4)):
        for mode in (1, 1023, 515):
            case('corp_int', m1, 'linear', [kv, F(1)], {'mode': mode, 'inttol': F(1, 2 ** 16), 'fail': mode == 1}, 'corpus-integrality')
    # 2. tolerance boundary: x + y <= 8, x <= 10
    m2 = nlgen.Model()
    x = m2.var(0, 10, False, 'x'); y = m2.var(0, 10, False, 'y')
    m2.con(None, 8, {x: 1, y: 1})
    e = F(1, 2 ** 10)
    for d in (F(0), e, e + F(1, 2 ** 30), e - F(1, 2 ** 30), 2 * e, F(1, 8)):
        for rel in (F(0), F(1, 2 ** 6), F(1, 2 ** 20)):
            for fail in (False, True):
                case('corp_tol', m2, 'linear', [F(3) + d, F(5)], {'mode': 2, 'feastol': e, 'feastolrel': rel, 'fail': fail}, 'corpus-boundary')
        case('corp_tol', m2, 'linear', [F(10) + d, F(-2) - d], {'mode': 1, 'feastol': e, 'feastolrel': F(0)}, 'corpus-boundary')
    for t in (F(1), F(1) + F(1, 2 ** 10), F(1) - F(1, 2 ** 10)):
        # relative boundary: violation = t * feastolrel * |rhs|
        rel = F(1, 2 ** 6)
        case('corp_tol', m2, 'linear', [F(3) + t * rel * 8, F(5)], {'mode': 2, 'feastol': F(1, 2 ** 20), 'feastolrel': rel}, 'corpus-boundary')
    # 3. idealistic pass and a fixed conditional result: not (x >= 5), x + y <= 12
    m3 = nlgen.Model()
    x = m3.var(0, 10, False, 'x'); y = m3.var(0, 10, False, 'y')
    m3.con(None, 12, {x: 1, y: 1})
    m3.lcon(('not', ('exists', [('ge', ('v', x), ('n', 5)), ('ge', ('v', y), ('n', 7)), ('le', ('+', ('v', x), ('v', y)), ('n', -1))])))
    for xv in (F(7), F(3), F(5), F(19, 4)):
        for mode in (96, 3, 99, 515, 1023 - 12 - 384):
            case('corp_cond', m3, 'logic', [xv, F(1)], {'mode': mode, 'feastolrel': F(0)}, 'corpus-cond-ideal')
    # 3b. solver status: the violating point (x + y = 8 + 1/8) and a feasible one under every status class
    for code in SOLVE_CODES:
        for inf in (False, True):
            for pt in ([F(3) + F(1, 8), F(5)], [F(3), F(4)]):
                case('corp_tol', m2, 'linear', pt, {'mode': 3, 'feastol': e, 'feastolrel': F(0), 'fail': True, 'infeas': inf},
                     'corpus-status')
                cases[-1]['code'] = code
    # 3c. root disjunction lost: (k == -7/4) or ((2x >= 5/2) or (k >= 3)) with k integer -> known finding C07-unused-root-constraint
    m5 = nlgen.Model()
    x = m5.var(-1, F(7, 4), False, 'x'); k = m5.var(-2, 4, True, 'k')
    m5.con(None, 10, {x: 1, k: 1})
    m5.lcon(('or', ('eq', ('v', k), ('n', F(-7, 4))), ('or', ('ge', ('*', ('n', 2), ('v', x)), ('n', F(5, 2))), ('ge', ('v', k), ('n', 3)))))
    for pt in ([F(-1), F(0)], [F(3, 2), F(0)], [F(0), F(3)]):
        for mode in (3, 96, 1023 - 12 - 384):
            case('corp_unusedroot', m5, 'logic', pt, {'mode': mode, 'feastolrel': F(0), 'feastol': F(1, 1024)}, 'corpus-unused-root')
    # 4. piecewise-linear term: <<0,2; -1,1,3>> x + y = 7 (left of the first stored point / between / right)
    m4 = nlgen.Model()
    x = m4.var(-10, 10, False, 'x'); y = m4.var(-100, 100, False, 'y')
    m4.con(7, 7, {y: 1}, ('pl', [F(-1), F(1), F(3)], [F(0), F(2)], x))
    m4.obj('min', {y: 1})
    for xv in (F(-5), F(-3, 2), F(-1, 2), F(1), F(5), F(-9)):
        fy = F(7) - nlgen.ev_pl([F(-1), F(1), F(3)], [F(0), F(2)], xv)
        for acc in (None, 'LinConRange,LinConLE,LinConEQ,LinConGE,PLConstraint'):
            for mode in (515, 1023 - 12 - 384, 3, 96):
                case('corp_pl' + ('a' if acc else 'd'), m4, 'pl', [xv, fy], {'mode': mode, 'feastolrel': F(0), 'fail': mode == 515}, 'corpus-pl', accept=acc)
        case('corp_pld', m4, 'pl', [xv, fy + 3], {'mode': 515, 'feastolrel': F(0)}, 'corpus-pl')
    return cases


def evaluate(ck, c, stats, hist, corr_bad, oracle_bad, distinct):
    stats['runs'] += 1
    f = c['flat']

    def bump(h, k):
        hist[h][k] = hist[h].get(k, 0) + 1
    bump('family', c['family'])
    bump('profile', c['profile'])
    bump('accept', (c['accept'] or 'default')[:40])
    if c.get('noprimal'):
        # no point returned: nothing to check, nothing reported, the solver's status stands
        stats['no_primal_runs'] = stats.get('no_primal_runs', 0) + 1
        msg = c.get('sol_msg') or ''
        if f is not None or HEADER in msg or c.get('sol_code') != c.get('code', 0):
            oracle_bad.append((c, {'expect': False, 'kind': 'no-primal', 'detail': 'check ran=%s, report=%s, solve code %s (scripted %s)'
                                   % (f is not None, HEADER in msg, c.get('sol_code'), c.get('code', 0))},
                               {'ret': None, 'text': observed_text(msg), 'code': c.get('sol_code')}))
        return
    if f is None:
        stats['no_check'] += 1
        if c.get('xs') is not None:
            bump('code_class_no_check', code_class(c.get('code', 0)))
        return
    bump('code_class_checked', code_class(c.get('code', 0)))
    # the flag the checker received must be exactly IsProblemInfeasible(status)
    if c.get('xs') is not None and bool(f.chk['known_infeas']) != (200 <= c.get('code', 0) <= 299):
        oracle_bad.append((c, {'expect': True, 'kind': 'infeas-flag',
                               'detail': 'solve code %d, checker was told known_infeasible=%d' % (c.get('code', 0), f.chk['known_infeas'])},
                           {'ret': None, 'text': None, 'code': c.get('sol_code')}))
    for t in f.types:
        bump('types', t)
    if not f.supported:
        stats['unsupported'] += 1
        bump('unsupported_why', f.why or '?')
        return
    md = c['model']
    if md is None or 'error' in md:
        corr_bad.append((c, 'driver', md))
        return
    if 'status' in md:
        stats['outside_fragment'] += 1
        bump('unsupported_why', md['status'])
        return
    obs, pre = observed(c), predicted(c)
    if obs is None:
        stats['no_check'] += 1
        return
    stats['compared'] += 1
    for b in range(10):
        if f.chk['mode'] >> b & 1:
            bump('mode_bits', str(1 << b))
    if obs['text']:
        stats['reports_seen'] += 1
        for ln in obs['text'].split('\n')[1:-1]:
            lab = re.sub(r"\s+(-|\S+E[+-]\d+|INF)?( ?\[.*)?$", '', ln[2:29].rstrip()) if not ln.startswith('*:') else None
            if lab:
                bump('labels', ('*' if ln[0] == '*' else ' ') + ln[2:29].rstrip())
    if obs['code'] == 150:
        stats['code150_seen'] += 1
    if md.get('skipped'):
        stats['skipped_seen'] += 1
    distinct.add(hashlib.sha1((c['run_stub'] + repr(obs['text']) + obs['ret']).encode()).hexdigest()[:12] if obs['text'] else 'clean:' + str(f.chk['mode']) + c['family'] + c['profile'])
    if obs != pre:
        if not (pre is not None and obs['ret'] == pre['ret'] and obs['code'] == pre['code']
                and text_matches(obs['text'], md['ideal'], md['real'], name_ties=has_nondyadic(f))):
            corr_bad.append((c, 'differs', {'observed': obs, 'predicted': pre}))
        else:
            stats['format_boundary'] = stats.get('format_boundary', 0) + 1
    orc = oracle(c)
    if orc is not None and orc.get('expect') is None:
        stats['oracle_conflicts'] = stats.get('oracle_conflicts', 0) + 1
        ck.notes.append('oracle conflict (not a C07 verdict): %s %s' % (orc['kind'], orc['detail']))
        orc = None
    if c.get('family') == 'aux-flip':
        fl = c['flip']
        bump('flip', '%s:truth=%s:%s:%s' % (fl['ctx'], fl['truth'], orc['kind'] if orc else 'no-verdict',
                                          'only-witness' if orc and orc['expect'] and len(orc['detail']) == 1 and orc['detail'][0].startswith('b=') else '-'))
    if orc is not None:
        stats['oracle_applied'] += 1
        bump('oracle_kind', orc['kind'])
        stats['oracle_expect_report' if orc['expect'] else 'oracle_expect_clean'] += 1
        has = obs['text'] is not None
        if has != orc['expect']:
            oracle_bad.append((c, orc, obs))
        # fail option: dedicated code exactly in the violating cases
        if f.chk['fail'] and (obs['code'] == 150) != has:
            oracle_bad.append((c, {'expect': has, 'kind': 'fail-code', 'detail': 'code %s with report=%s' % (obs['code'], has)}, obs))
    if ck.cov.get('samples') is not None and stats['compared'] % 97 == 1:
        ck.sample('%s/%s mode=%d -> ret=%s code=%s report=%s' % (c['profile'], c['family'], f.chk['mode'], obs['ret'], obs['code'],
                                                            (obs['text'] or 'none').split('\n')[1:2]))


def finish(ck, proof_ok, failing, stats, hist, corr_bad, oracle_bad, distinct):
    ck.cov.update(stats)
    ck.cov['evaluations'] = stats['runs']
    ck.cov['traces_validated_against_impl'] = stats['compared']
    ck.cov['distinct_nontrivial'] = len(distinct)
    ck.cov['rule'] = 'distinct = distinct (model run, report text) pairs with a report, plus one per (mode, family, profile) for clean runs'
    ck.cov['histograms'] = hist
    ck.cov['exhaustive'] = False
    cj = os.path.join(VERIF, 'design_notes', 'coverage', 'C07.json')
    if os.path.exists(cj):        # measured by the last VERIF_COVERAGE=1 run (committed file; not recomputed here)
        cv = json.load(open(cj))
        ck.cov['anchor_line_cov'] = cv['anchor_line_cov']
        ck.cov['anchor_branch_cov'] = cv['anchor_branch_cov']
        ck.cov['mechanism_line_cov'] = cv['mechanism_line_cov']
        ck.cov['mechanism_branch_cov'] = cv['mechanism_branch_cov']
        ck.cov['coverage_note'] = 'gcov of the anchored files under the quick-tier stream (VERIF_COVERAGE=1, seed %s): design_notes/coverage/C07.md; mechanism_* = functions named in anchors.mechanism' % cv.get('seed')
    ck.log('runs=%d compared=%d unsupported=%d outside=%d no_check=%d oracle=%d (report %d / clean %d) reports=%d code150=%d' % (
        stats['runs'], stats['compared'], stats['unsupported'], stats['outside_fragment'], stats['no_check'], stats['oracle_applied'],
        stats['oracle_expect_report'], stats['oracle_expect_clean'], stats['reports_seen'], stats['code150_seen']))
    ck.log('families: %s' % hist['family'])
    ck.log('labels seen: %s' % hist['labels'])
    ck.log('flat types: %s' % hist['types'])
    ck.log('unsupported: %s' % hist['unsupported_why'])
    oracle_cases = set()
    for c, orc, obs in oracle_bad:
        oracle_cases.add(c['id'])
        if orc['kind'] == 'int-violated':
            sig = int_sig(c, orc['detail'])
            what = ('integer variable(s) %s are fractional by more than sol:chk:inttol but the solution check reports nothing '
                    '(mode %d): Violation::Check is called with epsrel=INFINITY, so integrality is only reported when round(x)==0'
                    % ([(c['m'].vars[j]['name'], rstr(model_point(c['m'], c['xs'])[j])) for j, _ in orc['detail']], c['flat'].chk['mode']))
        elif orc['kind'] == 'infeas-flag':
            sig = 'infeas-flag:%s' % code_class(c.get('code', 0))
            what = ('the solution checker was handed a wrong "known infeasible" flag (%s): only status 200..299 exempts a '
                    'returned point from the check (unless sol:chk:infeas)' % orc['detail'])
        elif orc['kind'] == 'fail-code':
            sig = 'fail-code:%s' % ('missing-150' if orc['expect'] else 'spurious-150')
            what = 'sol:chk:fail: %s' % orc['detail']
        elif orc['kind'] == 'violated' and orc['expect'] and diagnose_unreported(c):
            dk, dh = diagnose_unreported(c)
            sig = 'ideal-pass:%s-result-bounds:unreported' % dk
            what = ('violated model (%s) not reported by the idealistic pass (mode %d): the recomputed result(s) %s of %s '
                    'lie outside their bounds, but %s and auxiliary bounds are not tested on recomputed values'
                    % (str(orc['detail'])[:120], c['flat'].chk['mode'], dh,
                       'ConditionalConstraint(s)' if dk == 'cond' else 'Linear/QuadraticFunctionalConstraint(s)',
                       'ConditionalConstraint::ComputeViolation has no recomp_vals() branch' if dk == 'cond'
                       else 'these constraint types have no ComputeViolation at all (BasicConstraint: {0,0})'))
        elif orc['kind'] == 'violated' and orc['expect'] and unused_fixed_roots(c['flat']):
            sig = 'unreported:unused-root-constraint'
            what = ('violated model (%s) not reported (mode %d): the constraint(s) %s have a fixed result but are marked unused '
                    '(inlined into an enclosing and/or, then reused through the expression map), so they are neither delivered '
                    'to the solver nor checked' % (str(orc['detail'])[:120], c['flat'].chk['mode'], unused_fixed_roots(c['flat'])[:4]))
        elif orc['kind'] == 'feasible' and not orc['expect'] and ctx_none_items(c['flat']):
            sig = 'spurious-report:ctx-none'
            what = ('the point satisfies the original model exactly, yet the check reports:\n%s\nfunctional constraint(s) %s have '
                    'context CTX_NONE (their result is not used anywhere) and ComputeViolation returns {INFINITY, 0} for them'
                    % (obs['text'], ctx_none_items(c['flat'])[:4]))
        elif orc['kind'] == 'feasible' and not orc['expect'] and orphaned_refs(c['flat']):
            sig = 'spurious-report:orphaned-result-var'
            what = ('the point satisfies the original model exactly, yet the check reports:\n%s\nconstraint(s) %s are still '
                    'checked (reformulated, not unused) but mention a result variable whose own defining expression was marked '
                    'unused (and fixed to 0) when an enclosing implication was redefined' % (obs['text'], orphaned_refs(c['flat'])[:4]))
        else:
            sig = 'oracle:%s:%s' % (orc['kind'], 'unreported' if orc['expect'] else 'spurious-report')
            what = 'NL-level oracle says %s (%s) but the real check %s; profile %s family %s mode %d' % (
                orc['kind'], str(orc['detail'])[:200], 'reported nothing' if orc['expect'] else 'reported:\n' + str(obs['text']),
                c['profile'], c['family'], c['flat'].chk['mode'])
        ck.add_violation(sig, what, replay_obj(c, {'oracle': {'kind': orc['kind'], 'detail': str(orc['detail'])[:500]},
                                                  'observed': obs}), found_input=True)
    for c, kind, info in corr_bad:
        if c['id'] in oracle_cases:
            continue
        sig = 'correspondence:%s:%s' % (c.get('profile'), kind)
        ck.add_violation(sig, 'Lean model and real solution check disagree (%s) on %s/%s; no oracle-confirmed failing input for this case'
                         % (kind, c.get('profile'), c.get('family')),
                         replay_obj(c, {'info': info, 'ops': c.get('ops')}), found_input=False)
    if not proof_ok:
        for fd in failing:
            ck.add_violation('obligation:%s' % fd, 'proof obligation no longer checks: %s' % fd,
                             {'theorem': fd, 'module': 'MpVerif.C07.Props',
                              'searched': '%d runs of the real checker against the NL-level oracle' % stats['oracle_applied']},
                             found_input=False)
    ck.assumptions += [
        'numbers in the correspondence are dyadic rationals so that double arithmetic in the C++ is exact; the model is over exact rationals',
        'the model covers the exact-arithmetic fragment of constr_eval.h (no exp/log/pow/trig, cones, piecewise-linear); runs whose flat model contains other types are counted as unsupported and not compared',
        'runs producing non-finite values (division by zero, empty min/max) or whose defining expressions are not ordered by variable index are outside the modelled fragment (counted)',
        'sol:chk:round / sol:chk:prec are sampled only where the double computation pow(10,n)/round is exact (filtered in python)',
    ]
    ck.cov['trusted_base'] += ['translators/gen_solcheck.py + clang-14 typed AST: decision functions of the checker regenerated as Lean definitions (doubles = ordered field with +-inf, NaN-free; non-decision operands are parameters)', 'harness/c07/c07modelmgr.cc: dump of the flat model at check time (reads the converter through its public API only)',
                               'checks/c07.py: translation of the dump into driver ops, rendering of the report text, NL-level oracle (gen/nlgen.py evaluator)']


def replay(ck, path):
    o = json.load(open(path))
    rp = o.get('replay', o)
    exe = build_solver(ck)
    drv = ck.driver('drv_c07')
    work = os.path.join(BUILD, 'c07replay')
    R = Runner(ck, exe, drv, work)
    stub = os.path.join(work, 'rp')
    for ext in ('nl', 'col', 'row'):
        if rp.get(ext) is not None:
            open(stub + '.' + ext, 'w').write(rp[ext])
    c = {'id': 0, 'stub': stub, 'accept': rp.get('accept'), 'base_opts': rp.get('options') or [], 'opts': {},
         'xs': [F(t) for t in rp['x']] if rp.get('x') else None, 'objv': [F(t) for t in rp['obj']] if rp.get('obj') else None,
         'code': rp.get('code', 0), 'family': 'replay', 'profile': rp.get('profile')}
    R.run_cases([c])
    obs = observed(c) if c['flat'] else None
    print('observed :', json.dumps(obs, indent=1))
    print('predicted:', json.dumps(predicted(c), indent=1))
    print('model    :', c.get('model_line'))
    return 0 if obs == predicted(c) else 1


# ----------------------------------------------------------------------------------------------- coverage mode (VERIF_COVERAGE=1)
COVDIR = os.path.join(BUILD, 'c07cov')
ANCHOR_FILES = ['include/mp/flat/sol_check.h', 'include/mp/flat/constr_eval.h', 'include/mp/flat/constr_keeper.h',
                'include/mp/flat/constr_algebraic.h', 'include/mp/flat/constr_base.h', 'include/mp/flat/constr_general.h',
                'include/mp/flat/converter.h', 'include/mp/valcvt.h', 'include/mp/backend-std.h']
EXTRA_FILES = ['include/mp/flat/backend_flat.h', 'include/mp/flat/constr_functional.h', 'include/mp/flat/expr_quadratic.h',
               'include/mp/flat/expr_affine.h', 'include/mp/flat/obj_std.h']
# (file, regex on the demangled function name) of the functions named in anchors.mechanism
MECHANISMS = [
    ('per-type value evaluation (ComputeValue overloads)', 'include/mp/flat/constr_eval.h', r'ComputeValue|ComputeViolation'),
    ('violation measure / tolerance test', 'include/mp/flat/constr_base.h', r'Violation::Check|ComputeViolation'),
    ('violation measure (algebraic)', 'include/mp/flat/constr_algebraic.h', r'ComputeViolation|is_valid'),
    ('violation measure (indicator, SOS, complementarity)', 'include/mp/flat/constr_general.h', r'ComputeViolation'),
    ('ViolSummary, VarVecRecomp, VarInfoImpl, SolCheck, ConstraintKeeper::ComputeViolations/ComputeValue', 'include/mp/flat/constr_keeper.h',
     r'ViolSummary::|VarVecRecomp::|VarInfoImpl<|SolCheck::|::ComputeViolations|ConstraintKeeper<.*>::ComputeValue'),
    ('SolutionChecker (CheckSolution, RecomputeAuxVars, DoCheckSol, CheckVars/Cons/Objs, report)', 'include/mp/flat/sol_check.h', r'.'),
    ('hook into postsolve', 'include/mp/valcvt.h', r'ValuePresolver::PostsolveSolution'),
    ('hook: checker lambda and option accessors', 'include/mp/flat/converter.h', r'sol_check|sol_feas|sol_int_tol|sol_round|sol_prec|lambda'),
    ('status predicates feeding the check', 'include/mp/backend-std.h', r'IsProblemInfeasible|IsProblemInfOrUnb|IsProblemUnbounded|IsProblemIndiffInfOrUnb'),
    ('GetSolution (flag passed to the check)', 'include/mp/flat/backend_flat.h', r'GetSolution'),
]


def build_cov_solver(ck):
    """harness TUs (the only ones instantiating the anchored headers) compiled with --coverage -O0 into build/c07cov"""
    from concurrent.futures import ThreadPoolExecutor as TPE
    os.makedirs(COVDIR, exist_ok=True)
    for f in os.listdir(COVDIR):
        if f.endswith('.gcda'):
            os.remove(os.path.join(COVDIR, f))
    srcs = [os.path.join(RD, f) for f in ['recmain.cc', 'recmodelapi.cc', 'recbackend.cc']] + [os.path.join(CD, 'c07modelmgr.cc')]
    inc = ['-I' + os.path.join(REPO, 'include'), '-I' + os.path.join(REPO, 'src'), '-I' + os.path.join(VERIF, 'harness'), '-I' + RD]
    defs = ['-DNDEBUG', '-DMP_DATE=20240320', '-DMP_SYSINFO="Linux x86_64"', '-DMP_USE_ATOMIC', '-DMP_USE_HASH',
            '-DMP_USE_UNIQUE_PTR', '-DAMPL_MP_VERIF']
    stamp = hashlib.sha256()

    def one(src):
        obj = os.path.join(COVDIR, os.path.basename(src).replace('.cc', '.o'))
        cmd = ['g++', '-std=c++17', '-w', '--coverage', '-O0', '-g'] + defs + inc
        rc, out, err = sh(cmd + ['-E', '-P', src], timeout=900)
        if rc != 0:
            raise RuntimeError(err[-2000:])
        h = hashlib.sha256(out.encode()).hexdigest()
        hf = obj + '.hash'
        if not (os.path.exists(obj) and os.path.exists(hf) and open(hf).read() == h and os.path.exists(obj[:-2] + '.gcno')):
            rc, out, err = sh(cmd + ['-c', src, '-o', obj], timeout=3000)
            if rc != 0:
                raise RuntimeError(err[-3000:])
            open(hf, 'w').write(h)
        return obj
    with TPE(max_workers=4) as ex:
        objs = list(ex.map(one, srcs))
    exe = os.path.join(COVDIR, 'c07solver_cov')
    rc, out, err = sh(['g++', '--coverage'] + objs + ck.libmp_objects(flags=('-O1', '-g')) + ['-o', exe, '-ldl'], timeout=1800)
    if rc != 0:
        raise RuntimeError(err[-3000:])
    return exe


def gcov_json(tu_src):
    rc, out, err = sh(['gcov-12', '-b', '-c', '--json-format', '--stdout', '-o', COVDIR, tu_src], cwd=COVDIR, timeout=1800)
    docs = []
    dec = json.JSONDecoder()
    i = 0
    while i < len(out):
        j = out.find('{', i)
        if j < 0:
            break
        try:
            d, k = dec.raw_decode(out, j)
            docs.append(d)
            i = k
        except ValueError:
            i = j + 1
    return docs


def demangle(names):
    if not names:
        return {}
    p = subprocess.run(['c++filt'], input='\n'.join(names) + '\n', capture_output=True, text=True)
    return dict(zip(names, p.stdout.split('\n')))


def arms_universe():
    chk = ['chk:ninf', 'chk:pinf', 'chk:exceeds-abs,ref=0', 'chk:epsrel-inf', 'chk:exceeds-both', 'chk:within-rel', 'chk:within-abs']
    U = set(chk) - {'chk:epsrel-inf'}            # epsrel = INFINITY is no longer passed by any caller (since /repo 1797720)
    for k, pats in (('range', ['both:below', 'both:above', 'both:inside', 'lo:below', 'lo:ok', 'hi:above', 'hi:ok']),
                    ('le', ['hi:above', 'hi:ok']), ('ge', ['lo:below', 'lo:ok']), ('eq', ['both:below', 'both:above', 'both:inside'])):
        U |= {'alg:%s:%s' % (k, p_) for p_ in pats}
    kinds = ['val:max', 'val:min', 'val:abs', 'val:and=0', 'val:and=1', 'val:or=0', 'val:or=1', 'val:not=0', 'val:not=1', 'val:div',
             'val:ifthen:then', 'val:ifthen:else', 'val:impl:then=0', 'val:impl:then=1', 'val:impl:else=0', 'val:impl:else=1',
             'val:alldiff=0', 'val:alldiff=1', 'val:numberofConst:int-hit', 'val:numberofConst:tol-hit', 'val:numberofConst:no-hit',
             'val:numberofVar:int-hit', 'val:numberofVar:tol-hit', 'val:numberofVar:no-hit', 'val:count', 'val:pl:left', 'val:pl:right',
             'val:pl:at-point', 'val:pl:interpolate', 'val:pow']
    for ctx in ('pos', 'neg', 'mix', 'none'):
        U.add('func:%s' % ctx)
    U |= set(kinds)
    U |= {'recomp:' + k_ for k_ in kinds + ['val:affine', 'val:quadratic'] + ['val:cond:%s=%d' % (r_, v_) for r_ in ('lt', 'le', 'eq', 'ge', 'gt') for v_ in (0, 1)]}
    U |= {'recomp:no-init', 'recomp:init-unused-or-not-functional', 'func:recomp', 'cond:recomp', 'adef:never-tested'}
    U |= {'cond:%s:b=%d:valid=%d' % (c_, b_, v_) for c_ in ('pos', 'neg', 'mix') for b_ in (0, 1) for v_ in (0, 1)} | {'cond:none:b=0:valid=0', 'cond:none:b=0:valid=1', 'cond:none:b=1:valid=0', 'cond:none:b=1:valid=1'}
    U |= {'ind:active', 'ind:inactive', 'sos1:nnz=0', 'sos1:nnz=1', 'sos1:nnz=2', 'sos1:nnz=3', 'sos2:npos=0', 'sos2:npos=1',
          'sos2:npos=2:adjacent', 'sos2:npos=2:apart', 'sos2:npos=3:adjacent', 'sos2:npos=3:apart', 'compl:at-lb', 'compl:at-ub', 'compl:inside'}
    U |= {'item:unused'} | {'item:class%d:not-selected' % c_ for c_ in (2, 4, 8, 10)} | {'item:class2:slot0', 'item:class10:slot0', 'item:class4:slot1', 'item:class8:slot2'}
    U |= {'vars-off', 'cons-off', 'obj-off', 'obj:none', 'real:off', 'ideal:off', 'round:nonneg', 'round:neg', 'round:off', 'prec:on', 'prec:off',
          'outcome:skipped', 'outcome:known-infeasible-but-checked', 'outcome:checked', 'fail:150', 'fail:warning', 'fail:no-report'}
    for tag in ('var-bounds', 'aux-bounds', 'var-int', 'aux-int', 'obj'):
        for c_ in (['chk:within-abs', 'chk:exceeds-both', 'chk:exceeds-abs,ref=0'] + ([] if 'int' in tag else ['chk:within-rel']) + (['chk:ninf'] if 'bounds' in tag else [])):
            U.add(tag + '|' + c_)
    return U


def norm_arm(a):
    # func:<ctx>:<kind arm>  ->  components 'func:<ctx>' and the kind arm
    return a


def coverage_report(ck, stats, arms=None):
    files = {}      # relpath -> {'lines': {ln: count}, 'branches': {(ln, k): count}, 'funcs': {name: (start, end, count)}}
    for tu in ('c07modelmgr.cc', 'recbackend.cc'):
        src = os.path.join(CD if tu.startswith('c07') else RD, tu)
        for doc in gcov_json(src):
            for f in doc.get('files', []):
                path = os.path.normpath(os.path.join(COVDIR, f['file'])) if not os.path.isabs(f['file']) else os.path.normpath(f['file'])
                if not path.startswith(os.path.normpath(REPO) + os.sep):
                    continue
                rel = os.path.relpath(path, REPO)
                if rel not in ANCHOR_FILES + EXTRA_FILES:
                    continue
                e = files.setdefault(rel, {'lines': {}, 'branches': {}, 'funcs': {}})
                for fn in f.get('functions', []):
                    nm = fn.get('demangled_name') or fn['name']
                    o = e['funcs'].get(nm)
                    cnt = fn.get('execution_count', 0) + (o[2] if o else 0)
                    e['funcs'][nm] = (fn['start_line'], fn['end_line'], cnt)
                for ln in f.get('lines', []):
                    n = ln['line_number']
                    e['lines'][n] = e['lines'].get(n, 0) + ln.get('count', 0)
                    for k, br in enumerate(ln.get('branches', [])):
                        if br.get('throw'):
                            continue           # exceptional edges of calls
                        e['branches'][(n, k)] = e['branches'].get((n, k), 0) + br.get('count', 0)
    summary = {}
    L = ['# C07 — coverage of the anchored code by the quick-tier input stream', '',
         'Produced by `VERIF_COVERAGE=1 ./check C07` (seed %d): the harness TUs that instantiate the anchored headers are built with' % ck.seed,
         '`--coverage -O0`, the quick-tier stream (%d runs, %d compared) is run through that binary, `gcov-12 -b -c --json-format`.' % (stats['runs'], stats['compared']),
         'Lines/branches of template code are merged over all instantiations; exceptional (`throw`) edges of calls are not counted as branches.', '']
    L += ['| file | lines | line cov | branches | branch cov |', '|---|---|---|---|---|']
    tl = tc = tb = tbc = 0
    for rel in ANCHOR_FILES + EXTRA_FILES:
        e = files.get(rel)
        if not e:
            L.append('| %s | (not instantiated by the harness) | | | |' % rel)
            continue
        nl, nc = len(e['lines']), sum(1 for c in e['lines'].values() if c > 0)
        nb, nbc = len(e['branches']), sum(1 for c in e['branches'].values() if c > 0)
        summary[rel] = {'lines': nl, 'lines_hit': nc, 'branches': nb, 'branches_hit': nbc}
        if rel in ANCHOR_FILES:
            tl, tc, tb, tbc = tl + nl, tc + nc, tb + nb, tbc + nbc
        L.append('| %s%s | %d | %.1f%% | %d | %.1f%% |' % (rel, '' if rel in ANCHOR_FILES else ' (not an anchor, relevant)', nl, 100.0 * nc / max(nl, 1), nb, 100.0 * nbc / max(nb, 1)))
    L += ['', 'Whole-file numbers for converter.h, constr_keeper.h, valcvt.h, backend-std.h are dominated by code that has nothing to do',
          'with the solution check (conversion, presolve links, suffix I/O); the mechanism table below is the relevant one.', '']
    mech = {}
    ml = mlc = mb = mbc = 0
    L += ['## Mechanism functions', '', '| mechanism | functions | uncalled | lines | line cov | branches | branch cov |', '|---|---|---|---|---|---|---|']
    details = []
    for title, rel, rx in MECHANISMS:
        e = files.get(rel)
        if not e:
            L.append('| %s (%s) | not instantiated | | | | | |' % (title, rel))
            continue
        R_ = re.compile(rx)
        fs0 = {nm: v for nm, v in e['funcs'].items() if R_.search(nm)}
        # one source function = all instantiations starting at the same line
        fs = {}
        for nm, (a, b, cnt) in fs0.items():
            o = fs.get(a)
            short = re.sub(r'\[with .*', '', nm)
            fs[a] = (a, max(b, o[1]) if o else b, cnt + (o[2] if o else 0), min([short] + ([o[3]] if o else []), key=len))
        fs = {'%s @%d' % (v[3][:140], a): (v[0], v[1], v[2]) for a, v in fs.items()}
        ranges = [(a, b) for a, b, _ in fs.values()]
        inr = lambda n: any(a <= n <= b for a, b in ranges)
        lines = {n: c for n, c in e['lines'].items() if inr(n)}
        brs = {k: c for k, c in e['branches'].items() if inr(k[0])}
        uncalled = sorted(nm for nm, v in fs.items() if v[2] == 0)
        nl, nc, nb, nbc = len(lines), sum(1 for c in lines.values() if c > 0), len(brs), sum(1 for c in brs.values() if c > 0)
        ml, mlc, mb, mbc = ml + nl, mlc + nc, mb + nb, mbc + nbc
        mech[title] = {'file': rel, 'functions': len(fs), 'uncalled': len(uncalled), 'lines': nl, 'lines_hit': nc, 'branches': nb, 'branches_hit': nbc}
        L.append('| %s (%s) | %d | %d | %d | %.1f%% | %d | %.1f%% |' % (title, os.path.basename(rel), len(fs), len(uncalled), nl, 100.0 * nc / max(nl, 1), nb, 100.0 * nbc / max(nb, 1)))
        src = open(os.path.join(REPO, rel)).read().split('\n')
        details.append('### %s — %s' % (title, rel))
        if uncalled:
            details.append('uncalled functions:')
            for nm in uncalled:
                details.append('* `%s` (line %d)' % (nm[:160], fs[nm][0]))
        unl = sorted(n for n, c in lines.items() if c == 0 and not any(fs[nm][0] <= n <= fs[nm][1] for nm in uncalled))
        if unl:
            details.append('uncovered lines inside called functions:')
            for n in unl:
                details.append('* %d: `%s`' % (n, src[n - 1].strip()[:110]))
        unb = sorted({k[0] for k, c in brs.items() if c == 0 and lines.get(k[0], 0) > 0})
        if unb:
            details.append('lines with a branch direction never taken (line itself executed):')
            for n in unb:
                miss = [k[1] for k, c in brs.items() if k[0] == n and c == 0]
                details.append('* %d (branch %s): `%s`' % (n, ','.join(map(str, miss)), src[n - 1].strip()[:110]))
        details.append('')
    L += ['', '**mechanism total: lines %.1f%% (%d/%d), branches %.1f%% (%d/%d)**' % (100.0 * mlc / max(ml, 1), mlc, ml, 100.0 * mbc / max(mb, 1), mbc, mb), '']
    L += ['## Details (uncovered items inside the mechanisms)', ''] + details
    arm_js = None
    if arms is not None:
        taken = {}
        for a, n in arms.items():
            if a in ('real', 'ideal', ''):
                continue
            if a.startswith('func:') and a.count(':') >= 2 and not a.startswith('func:recomp'):
                ctx, kind = a.split(':', 2)[1], a.split(':', 2)[2]
                taken['func:' + ctx] = taken.get('func:' + ctx, 0) + n
                taken[kind] = taken.get(kind, 0) + n
            else:
                taken[a] = taken.get(a, 0) + n
        U = arms_universe()
        never = sorted(U - set(taken))
        extra = sorted(set(taken) - U)
        L += ['## Model branches (Lean `match`/`if` arms) exercised by the same stream', '',
              'Instrumentation `lean/MpVerif/C07/Arms.lean` (driver op `arms`), counted per compared run; %d of %d listed arms taken.' % (len(U) - len(never), len(U)), '',
              '**never taken:** ' + (', '.join('`%s`' % a for a in never) or '(none)'), '',
              'taken (count of runs x items): ' + ', '.join('`%s` %d' % (a, taken[a]) for a in sorted(taken) if a in U), '']
        if extra:
            L += ['arms outside the list: ' + ', '.join('`%s` %d' % (a, taken[a]) for a in extra), '']
        arm_js = {'listed': len(U), 'taken': len(U) - len(never), 'never': never}
    os.makedirs(os.path.join(VERIF, 'design_notes', 'coverage'), exist_ok=True)
    auto = os.path.join(VERIF, 'design_notes', 'coverage', 'C07.auto.md')
    open(auto, 'w').write('\n'.join(L) + '\n')
    js = {'seed': ck.seed, 'runs': stats['runs'], 'anchor_line_cov': round(100.0 * tc / max(tl, 1), 1), 'anchor_branch_cov': round(100.0 * tbc / max(tb, 1), 1),
          'mechanism_line_cov': round(100.0 * mlc / max(ml, 1), 1), 'mechanism_branch_cov': round(100.0 * mbc / max(mb, 1), 1),
          'files': summary, 'mechanisms': mech, 'model_arms': arm_js}
    json.dump(js, open(os.path.join(VERIF, 'design_notes', 'coverage', 'C07.json'), 'w'), indent=1)
    ck.log('coverage: anchors lines %.1f%% branches %.1f%%; mechanisms lines %.1f%% branches %.1f%% -> %s' % (
        js['anchor_line_cov'], js['anchor_branch_cov'], js['mechanism_line_cov'], js['mechanism_branch_cov'], auto))

"""Exact comparison of objective CONTENT: the objective of the NL file (linear G terms + expression of the O segment)
and the objective delivered to the ModelAPI (linear/quadratic terms over original and auxiliary variables, auxiliary
variables defined by the logged functional constraints) are both expanded into ONE canonical form - a multivariate
polynomial with exact rational coefficients over the original variables and opaque atoms abs(p), max(p1..pk),
min(p1..pk) whose arguments are again canonical polynomials - and compared for identity.

The conversion may legitimately use variable bounds (|x*y| -> -(x*y) when x <= 0 <= y, max over arguments one of which
dominates, ...): then the two forms differ although the functions agree on the box; the caller falls back to exact
point evaluation for those and counts them."""
from fractions import Fraction as F


class Poly(dict):
    """monomial (sorted tuple of atoms, with multiplicity) -> Fraction; zero coefficients are never stored"""

    @staticmethod
    def const(c):
        p = Poly()
        if c != 0:
            p[()] = F(c)
        return p

    @staticmethod
    def atom(a):
        p = Poly()
        p[(a,)] = F(1)
        return p

    def add(self, o, k=1):
        r = Poly(self)
        for m, c in o.items():
            v = r.get(m, F(0)) + k * c
            if v == 0:
                r.pop(m, None)
            else:
                r[m] = v
        return r

    def mul(self, o):
        r = Poly()
        for m1, c1 in self.items():
            for m2, c2 in o.items():
                m = tuple(sorted(m1 + m2, key=repr))
                v = r.get(m, F(0)) + c1 * c2
                if v == 0:
                    r.pop(m, None)
                else:
                    r[m] = v
        return r

    def scale(self, k):
        return Poly({m: c * k for m, c in self.items()}) if k != 0 else Poly()

    def key(self):
        return tuple(sorted(((m, c) for m, c in self.items()), key=repr))

    def is_const(self):
        return all(m == () for m in self)

    def show(self):
        def mono(m):
            return '*'.join(a[0] + str(a[1]) if a[0] == 'v' else a[0] + '(...)' for a in m) or '1'
        return ' + '.join('%s*%s' % (c, mono(m)) for m, c in sorted(self.items(), key=repr)) or '0'


BOX = {'bounds': None}     # variable box of the current file: [(lo, hi)] per NL variable, set by the caller


def interval(p):
    """exact interval enclosure of a canonical polynomial over the variable box (None if unbounded)"""
    lo = hi = F(0)
    for m, c in p.items():
        a, b = F(1), F(1)
        for at in sorted(set(m), key=repr):
            iv = atom_interval(at)
            if iv is None:
                return None
            k = m.count(at)                       # power of this atom in the monomial
            ends = [iv[0] ** k, iv[1] ** k]
            plo, phi = min(ends), max(ends)
            if k % 2 == 0 and iv[0] <= 0 <= iv[1]:
                plo = F(0)
            cand = [a * plo, a * phi, b * plo, b * phi]
            a, b = min(cand), max(cand)
        lo += min(c * a, c * b)
        hi += max(c * a, c * b)
    return lo, hi


def atom_interval(at):
    if at[0] == 'v':
        bd = BOX['bounds']
        if bd is None or at[1] >= len(bd) or bd[at[1]][0] is None or bd[at[1]][1] is None:
            return None
        return bd[at[1]]
    if at[0] == 'abs':
        iv = interval(Poly(dict(at[1])))
        if iv is None:
            return None
        return (F(0) if iv[0] <= 0 <= iv[1] else min(abs(iv[0]), abs(iv[1])), max(abs(iv[0]), abs(iv[1])))
    ivs = [interval(Poly(dict(k))) for k in at[1]]
    if any(iv is None for iv in ivs):
        return None
    f = max if at[0] == 'max' else min
    return f(iv[0] for iv in ivs), f(iv[1] for iv in ivs)


def abs_atom(p):
    """abs(p) with abs(-p) identified, constants folded, and the sign resolved where the interval enclosure of p over the
    variable box does not contain both signs (a valid identity on the box, applied to the file side and to the delivered
    side alike)"""
    if p.is_const():
        return Poly.const(abs(p.get((), F(0))))
    iv = interval(p)
    if iv is not None and iv[0] >= 0:
        return p
    if iv is not None and iv[1] <= 0:
        return p.scale(-1)
    k = p.key()
    lead = k[0][1]
    if lead < 0:
        p = p.scale(-1)
    return Poly.atom(('abs', p.key()))


def ext_atom(kind, ps):
    if all(q.is_const() for q in ps):
        vals = [q.get((), F(0)) for q in ps]
        return Poly.const(max(vals) if kind == 'max' else min(vals))
    keys = sorted({q.key() for q in ps}, key=repr)
    if len(keys) == 1:
        return ps[0]
    return Poly.atom((kind, tuple(keys)))


class NotPolynomial(Exception):
    pass


def expr_poly(e):
    """nlgen expression tree (NL variable positions) -> Poly"""
    k = e[0]
    if k == 'n':
        return Poly.const(F(e[1]))
    if k == 'v':
        return Poly.atom(('v', e[1]))
    if k == '+':
        return expr_poly(e[1]).add(expr_poly(e[2]))
    if k == '-':
        return expr_poly(e[1]).add(expr_poly(e[2]), -1)
    if k == '*':
        return expr_poly(e[1]).mul(expr_poly(e[2]))
    if k == 'neg':
        return expr_poly(e[1]).scale(-1)
    if k == 'sum':
        r = Poly()
        for a in e[1]:
            r = r.add(expr_poly(a))
        return r
    if k == 'abs':
        return abs_atom(expr_poly(e[1]))
    if k in ('max', 'min'):
        return ext_atom(k, [expr_poly(a) for a in e[1]])
    if k in ('pow', 'powc', 'sqr'):
        b = expr_poly(e[1])
        ex = F(2) if k == 'sqr' else (F(e[2][1]) if e[2][0] == 'n' else None)
        if ex is None or ex.denominator != 1 or ex < 0:
            raise NotPolynomial(k)
        r = Poly.const(1)
        for _ in range(int(ex)):
            r = r.mul(b)
        return r
    raise NotPolynomial(k)


def file_poly(fv, tok, lin):
    p = Poly()
    for j, c in lin:
        p = p.add(Poly.atom(('v', j)).scale(c))
    if tok:
        p = p.add(expr_poly(fv.exprs[tok]))
    return p


class DeliveredPoly:
    """expansion of delivered objectives; `num` decodes the recorder's exact number strings"""

    def __init__(self, d, nvars_orig, num):
        self.d, self.n0, self.num = d, nvars_orig, num
        self.defs = {}
        for e in d.defs:
            self.defs.setdefault(e['data']['res'], e)
        self.memo = {}
        self.busy = set()

    def var(self, j):
        if j < self.n0:
            return Poly.atom(('v', j))
        if j in self.memo:
            return self.memo[j]
        if j in self.busy:
            raise NotPolynomial('cyclic definition of variable %d' % j)
        self.busy.add(j)
        lb, ub = self.d.lb[j], self.d.ub[j]
        if j in self.defs:
            p = self.definition(self.defs[j])
        elif isinstance(lb, F) and lb == ub:
            p = Poly.const(lb)
        else:
            raise NotPolynomial('auxiliary variable %d has no definition' % j)
        self.busy.discard(j)
        self.memo[j] = p
        return p

    def lin(self, lt):
        p = Poly()
        for c, v in zip(lt['c'], lt['v']):
            p = p.add(self.var(v).scale(self.num(c)))
        return p

    def quad(self, qt):
        p = Poly()
        for c, a, b in zip(qt['c'], qt['v1'], qt['v2']):
            p = p.add(self.var(a).mul(self.var(b)).scale(self.num(c)))
        return p

    def definition(self, e):
        t, dd = e['type'], e['data']
        if t == 'LinearFunctionalConstraint':
            return self.lin(dd['expr']['lin']).add(Poly.const(self.num(dd['expr']['const'])))
        if t == 'QuadraticFunctionalConstraint':
            return self.lin(dd['expr']['lin']).add(self.quad(dd['expr']['quad'])).add(Poly.const(self.num(dd['expr']['const'])))
        if t == 'AbsConstraint':
            return abs_atom(self.var(dd['args'][0]))
        if t in ('MaxConstraint', 'MinConstraint'):
            return ext_atom('max' if t == 'MaxConstraint' else 'min', [self.var(j) for j in dd['args']])
        if t == 'PowConstraint':
            ex = self.num(dd['params'][0])
            if ex.denominator != 1 or ex < 0:
                raise NotPolynomial('pow %s' % ex)
            r = Poly.const(1)
            for _ in range(int(ex)):
                r = r.mul(self.var(dd['args'][0]))
            return r
        raise NotPolynomial(t)

    def objective(self, e):
        p = self.lin(e['lin'])
        if 'quad' in e:
            p = p.add(self.quad(e['quad']))
        return p

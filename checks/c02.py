"""C02 — NL reader is total, memory-safe and reports only validated data.

Stages: (1) regenerate the opcode table (Gen/Opcodes.lean) from the current sources; (2) Lean proof
obligations + axiom audit; (3) correspondence: the real mp::ReadNLString / ReadNLFile (recording handler,
NullNLHandler, mp::Problem; ASan+UBSan, -DNDEBUG) against the compiled Lean model on generated inputs;
(4) the property oracle (an independent python implementation of `Consistent`) on the real event streams;
(5) verdicts.
"""
import os, sys, subprocess, json, re, random, shutil, glob, time
from common import *
import c02_gen as G

SAN_FLAGS = ['-O1', '-g', '-DNDEBUG', '-fsanitize=address,undefined,float-cast-overflow', '-fno-sanitize-recover=all']
PAGE = 4096
ASAN_OPTS = 'allocator_may_return_null=1:detect_leaks=0:abort_on_error=0:max_allocation_size_mb=256'

# ----------------------------------------------------------------------------- oracle
NUM_HDR = 47
H_IDX = {'num_vars': 14, 'num_algebraic_cons': 15, 'num_objs': 16, 'num_logical_cons': 19, 'num_funcs': 32, 'ce0': 42}


# notifications that announce a count, and which argument it is
COUNT_ARG = {'bce': 1, 'linobj': 1, 'lincon': 1, 'isuf': 2, 'dsuf': 2, 'bpl': 0, 'bcall': 1, 'bva': 1, 'bsum': 0, 'bcnt': 0,
             'bno': 0, 'bsno': 0, 'bil': 1, 'bpw': 1, 'col': 0}


class Oracle:
    """Independent re-implementation of the property predicate over the event tokens of one run.
    Returns None if consistent, else a short reason."""

    def __init__(self, toks, complete, strict=True):
        self.toks, self.complete, self.strict = toks, complete, strict

    def check(self):
        t = self.toks
        if not t:
            return None if not self.complete else 'completed-without-header'
        if not t[0].startswith('H:'):
            return 'first-event-not-header'
        h = t[0][2:].split(',')
        if len(h) != NUM_HDR:
            return 'header-field-count'
        nv, nc, no, nl, nf = (int(h[H_IDX[k]]) for k in ('num_vars', 'num_algebraic_cons', 'num_objs', 'num_logical_cons', 'num_funcs'))
        nce = sum(int(x) for x in h[42:47])
        if nv + nce > 2147483647:
            return 'header-index-space-overflow:vars+common-exprs'
        if nc + nl > 2147483647:
            return 'header-index-space-overflow:algebraic+logical-cons'
        items = [nv, nc + nl, no, 1]
        stack = []      # frames: ['terms',k] ['args',k,tag] ['pl',k] ['cols',k] ['suf',k,items,isdbl] ['ce',idx]
        vals = 0
        done = False

        def closed_top():
            # counted frames must be exhausted before anything else happens
            while stack and stack[-1][0] in ('terms', 'cols', 'suf') and stack[-1][1] == 0:
                stack.pop()

        for tok in t[1:]:
            if done:
                return 'event-after-end:' + tok[:12]
            name, _, rest = tok.partition(':')
            a = rest.split(',') if rest else []
            if name in COUNT_ARG and int(a[COUNT_ARG[name]]) < 0:
                return 'negative-count:' + name
            closed_top()
            top = stack[-1] if stack else None
            if top and top[0] in ('terms', 'cols', 'suf') and name not in {'terms': ('term',), 'cols': ('col',), 'suf': ('sv', 'sd')}[top[0]]:
                return 'count-not-honoured:%s-before-%s' % (top[0], name)
            if name == 'term':
                if not top or top[0] != 'terms': return 'term-outside-linear'
                if not 0 <= int(a[0]) < nv: return 'var-index:term'
                top[1] -= 1
            elif name == 'col':
                if not top or top[0] != 'cols': return 'col-outside'
                top[1] -= 1
            elif name in ('sv', 'sd'):
                if not top or top[0] != 'suf' or top[3] != (name == 'sd'): return 'suffix-value-outside'
                if not 0 <= int(a[0]) < top[2]: return 'suffix-index'
                top[1] -= 1
            elif name in ('linobj', 'lincon'):
                if stack or (vals and self.strict): return 'linear-nested'
                vals = 0
                i, n = int(a[0]), int(a[1])
                if not 0 <= i < (no if name == 'linobj' else nc): return 'index:' + name
                if not 1 <= n <= nv: return 'count:' + name
                stack.append(['terms', n])
            elif name == 'bce':
                if stack or (vals and self.strict): return 'bce-nested'
                vals = 0
                i, n = int(a[0]), int(a[1])
                if not 0 <= i < nce: return 'index:bce'
                stack.append(['ce', i])
                stack.append(['terms', n])
            elif name == 'ece':
                if not top or top[0] != 'ce' or top[1] != int(a[0]) or vals != 1: return 'ece-mismatch'
                stack.pop(); vals = 0
            elif name in ('acon', 'lcon', 'obj'):
                if stack or (vals > 1 and self.strict): return 'toplevel-nesting:' + name
                if name == 'lcon' and vals < 1: return 'lcon-without-expr'
                lim = {'acon': nc, 'lcon': nl, 'obj': no}[name]
                if not 0 <= int(a[0]) < lim: return 'index:' + name
                vals = 0
            elif name in ('vb', 'cb', 'iv', 'idv'):
                if stack or (vals and self.strict): return 'toplevel-nesting:' + name
                vals = 0
                if not 0 <= int(a[0]) < (nv if name in ('vb', 'iv') else nc): return 'index:' + name
            elif name == 'compl':
                if stack or (vals and self.strict): return 'toplevel-nesting:compl'
                vals = 0
                if not 0 <= int(a[0]) < nc or not 0 <= int(a[1]) < nv: return 'index:compl'
            elif name == 'cols':
                if stack or (vals and self.strict): return 'toplevel-nesting:cols'
                vals = 0
                stack.append(['cols', nv - 1])
            elif name == 'func':
                if stack or (vals and self.strict): return 'toplevel-nesting:func'
                vals = 0
                if not 0 <= int(a[0]) < nf or int(a[3]) not in (0, 1): return 'index:func'
            elif name in ('isuf', 'dsuf'):
                if stack or (vals and self.strict): return 'toplevel-nesting:suffix'
                vals = 0
                k, n = int(a[1]), int(a[2])
                if not 0 <= k <= 3 or not 1 <= n <= items[k]: return 'suffix-kind-or-count'
                stack.append(['suf', n, items[k], name == 'dsuf'])
            elif name in ('num', 'str', 'bool'):
                vals += 1
            elif name == 'var':
                if not 0 <= int(a[0]) < nv: return 'index:var'
                vals += 1
            elif name == 'cref':
                if not 0 <= int(a[0]) < nce: return 'index:cref'
                vals += 1
            elif name in ('un', 'not'):
                if vals < 1: return 'arity:' + name
            elif name in ('bin', 'blog', 'rel', 'lcnt'):
                if vals < 2: return 'arity:' + name
                vals -= 1
            elif name in ('if', 'impl', 'symif'):
                if vals < 3: return 'arity:' + name
                vals -= 2
            elif name == 'bpl':
                n = int(a[0])
                if n < 1: return 'count:bpl'
                stack.append(['pl', 2 * n + 1])
            elif name in ('sl', 'bp'):
                if not top or top[0] != 'pl' or top[1] <= 0 or (top[1] % 2 == 1) != (name == 'sl'): return 'pl-sequence'
                top[1] -= 1
            elif name == 'epl':
                if not top or top[0] != 'pl' or top[1] != 0 or vals < 1: return 'epl-mismatch'
                stack.pop()
            elif name in ('bcall', 'bva', 'bsum', 'bcnt', 'bil', 'bpw'):
                n = int(a[-1])
                if name == 'bcall' and not 0 <= int(a[0]) < nf: return 'index:bcall'
                stack.append(['args', n, name[1:]])
            elif name in ('bno', 'bsno'):
                n = int(a[0])
                if vals < 1 or n < 1: return 'arity:' + name
                vals -= 1
                stack.append(['args', n - 1, name[1:]])
            elif name == 'arg':
                if not top or top[0] != 'args' or top[1] <= 0 or vals < 1: return 'arg-outside-or-too-many'
                top[1] -= 1; vals -= 1
            elif name in ('ecall', 'eva', 'esum', 'ecnt', 'eil', 'epw', 'eno', 'esno'):
                if not top or top[0] != 'args' or top[2] != name[1:] or top[1] != 0: return 'end-mismatch:' + name
                stack.pop(); vals += 1
            elif name == 'end':
                if stack or (vals and self.strict): return 'end-inside'
                vals = 0
                done = True
            else:
                return 'unknown-event:' + name
        if self.complete:
            closed_top()
            if not done or stack or vals:
                return 'incomplete-at-ok'
        return None


# ----------------------------------------------------------------------------- running
def build_cases(ck, T, cov):
    rng = random.Random(ck.seed * 1000003 + 17)
    n_valid = 700 if ck.tier == 'quick' else 6000
    cases = []   # (flags, objsel, bytes, tag)
    for d in G.FIXED:
        for fl in (0, 1):
            cases.append((fl, -1, d, 'fixed'))
    cdir = os.path.join(VERIF, 'corpus', 'C02')
    for p in sorted(glob.glob(os.path.join(cdir, '*.nl'))):
        d = open(p, 'rb').read()
        for fl in (0, 1):
            cases.append((fl, -1, d, 'corpus'))
    for d in sorted(glob.glob(os.path.join(REPO, 'test', 'data', '*.nl')))[:12]:
        b = open(d, 'rb').read()
        if len(b) < 20000:
            cases.append((0, -1, b, 'repo-data'))
            cases.append((1, -1, b, 'repo-data'))
    fams = (G.error_class_family(T), G.hostile_count_family(T), G.cumulative_header_family(), G.suffix_all_items_family(),
            G.builder_header_family())
    if os.environ.get('C02_NO_R3_FAMILIES'):      # coverage baseline: the stream as it was before round 3
        fams = (G.hostile_count_family(T), G.cumulative_header_family(), G.suffix_all_items_family())
    for fam in fams:
        for k, (mode, d, tag) in enumerate(fam):
            cases.append((k % 2 if not tag.startswith('hostile-count') else 0, -1, d, tag))
            cov[tag] = cov.get(tag, 0) + 1
    modes = ['text', 'text', 'bin', 'binswap']
    for i in range(n_valid):
        mode = modes[i % 4]
        data, fields, hlen, m = G.gen_valid(rng, T, mode, cov)
        fl = rng.choice([0, 1])
        objsel = -1 if rng.random() < 0.8 else rng.randrange(0, 3)
        cases.append((fl, objsel, data, 'valid-' + mode))
        if rng.random() < 0.25:
            cases.append((1 - fl, objsel, data, 'valid-' + mode))
        if i % 40 < 4:      # file-size classes: page-1, page, page+1, 2 pages
            tgt = [PAGE - 1, PAGE, PAGE + 1, 2 * PAGE][i % 40]
            p = G.pad_to(data, tgt)
            if p is not None:
                cases.append((fl, -1, p, 'pagesize-%d' % tgt))
                cov['pagesize_%d' % tgt] = cov.get('pagesize_%d' % tgt, 0) + 1
        for _ in range(4 if ck.tier == 'quick' else 6):
            mu = G.mutate(rng, data, fields, hlen, mode, m, cov)
            if rng.random() < 0.15:
                mu = G.mutate(rng, mu, [], min(hlen, len(mu)), mode, m, cov)
            cases.append((rng.choice([0, 1]), -1 if rng.random() < 0.9 else rng.randrange(0, 3), mu, 'mut-' + mode))
    # byte-order twins: the same random problem written native and byte-swapped (same generator state)
    twins = []
    for i in range(60 if ck.tier == 'quick' else 600):
        st = rng.getstate()
        d1, _, _, _ = G.gen_valid(rng, T, 'bin', {})
        rng.setstate(st)
        d2, _, _, _ = G.gen_valid(rng, T, 'binswap', {})
        fl = rng.choice([0, 1])
        twins.append((len(cases), len(cases) + 1))
        cases.append((fl, -1, d1, 'twin-native'))
        cases.append((fl, -1, d2, 'twin-swapped'))
    build_cases.twins = twins
    return cases


def run_harness(ck, exe, ops_path, n_ops, tmpdir):
    """run the harness over all ops; restart after a sanitizer abort.  returns (lines, aborts{index: stderr})"""
    env = dict(os.environ)
    env['ASAN_OPTIONS'] = ASAN_OPTS
    env['UBSAN_OPTIONS'] = 'print_stacktrace=1'
    env['C02_TMPDIR'] = tmpdir
    lines = {}
    aborts = {}
    first = 0
    while first < n_ops:
        p = subprocess.run([exe, ops_path, str(first), '1'], capture_output=True, env=env)
        out = p.stdout.decode('latin-1').split('\n')
        got = [l for l in out if l]
        for k, l in enumerate(got):
            lines[first + k] = l
        if p.returncode == 0 and len(got) >= n_ops - first:
            break
        # aborted while running op number first+len(got)
        idx = first + len(got)
        err = p.stderr.decode('latin-1')
        err = '\n'.join(l for l in err.split('\n') if not l.startswith('BEGIN '))
        aborts[idx] = err[:2500] + ('\n...\n' + err[-600:] if len(err) > 3100 else '')
        first = idx + 1
        if len(aborts) > 200:
            aborts['truncated-at'] = first
            break
    return lines, aborts


def sig_of_abort(err):
    if 'is outside the range of representable values of type' in err:
        return 'float-cast'
    if 'signed integer overflow' in err:
        return 'signed-overflow'
    if 'heap-buffer-overflow' in err or 'stack-buffer-overflow' in err or 'global-buffer-overflow' in err:
        return 'buffer-overflow'
    if 'allocation-size-too-big' in err or 'out-of-memory' in err or 'exceeds maximum supported size' in err:
        return 'alloc-too-big'
    if 'AddressSanitizer' in err:
        m = re.search(r'AddressSanitizer: ([\w-]+)', err)
        return 'asan-' + (m.group(1) if m else 'other')
    if 'runtime error' in err:
        return 'ubsan-other'
    return 'crash'


def _short_func(f):
    """mp::internal::TextReader<fmt::Locale>::ReadHeader(mp::NLHeader&) -> TextReader::ReadHeader"""
    out, depth = [], 0
    for ch in f:
        if ch == '<':
            depth += 1
        elif ch == '>':
            depth -= 1
        elif depth == 0:
            out.append(ch)
    f = ''.join(out)
    f = f.split('(')[0].strip()
    f = f.split(' ')[-1]
    parts = [p for p in f.split('::') if p]
    return '::'.join(parts[-2:]) if parts else '?'


def where_of_abort(err):
    """the innermost stack frame inside namespace mp (function name, not a line number)"""
    for line in err.split('\n'):
        m = re.match(r'\s*#\d+ 0x[0-9a-f]+ in (.+) \(?/\S+\)?$', line)
        if m and 'mp::' in m.group(1).split('(')[0] + m.group(1)[:40]:
            f = m.group(1)
            if f.startswith('void ') or f.startswith('int '):
                f = f.split(' ', 1)[1]
            return _short_func(f)
    m = re.search(r'(\w[\w./-]*\.(?:h|cc|cpp)):(\d+)', err)
    return '%s' % os.path.basename(m.group(1)) if m else '?'


def run(ck):
    # 1. generated table
    gen = os.path.join(LEAN, 'MpVerif', 'Gen', 'Opcodes.lean')
    trdir = os.path.join(BUILD, 'tr')
    rc, out, err = sh([sys.executable, os.path.join(VERIF, 'translators', 'gen_opcodes.py'), REPO, gen, trdir], timeout=600)
    ck.log((out.strip() or err.strip())[-300:])
    if rc != 0:
        ck.add_violation('translator', 'opcode table translator failed: ' + (out + err)[-300:], {'cmd': 'translators/gen_opcodes.py'}, found_input=False)
        return
    T = G.Table(subprocess.run([os.path.join(trdir, 'dump_opcodes')], capture_output=True, text=True).stdout)
    # guards, ReadUInt bounds and switch structure of the reader, from clang's typed AST of the instantiated templates
    rc, out, err = sh([sys.executable, os.path.join(VERIF, 'translators', 'gen_nlguards.py'), REPO,
                       os.path.join(LEAN, 'MpVerif', 'Gen', 'NLGuards.lean'), trdir], timeout=600)
    ck.log((out.strip() or err.strip())[-300:])
    translator_failed = rc != 0
    if translator_failed:
        ck.add_violation('translator:nlguards', 'the guard translator cannot translate the current reader source: ' + (out + err)[-400:],
                         {'cmd': 'translators/gen_nlguards.py', 'output': (out + err)[-1500:]}, found_input=False)

    # 2. proof obligations
    proof_ok, failing = ck.proof_stage('MpVerif.C02.Props', 'MpVerif/C02/Props.lean', 'C02_',
                                        ['MpVerif/C02/*.lean', 'MpVerif/Gen/Opcodes.lean', 'MpVerif/Gen/NLGuards.lean'], expect_min=EXPECT_THEOREMS)
    # name the failing declaration for errors outside Props.lean (the tie modules)
    def decl_at(entry):
        m = re.match(r'(MpVerif/C02/\w+\.lean):(\d+)$', entry)
        if not m:
            return entry
        try:
            lines = open(os.path.join(LEAN, m.group(1))).read().split('\n')
            for k in range(min(int(m.group(2)), len(lines)) - 1, -1, -1):
                mm = re.match(r'\s*(?:theorem|def|example)\s+([\w.\']+)', lines[k])
                if mm:
                    return '%s (%s)' % (mm.group(1), entry)
        except OSError:
            pass
        return entry
    failing = list(dict.fromkeys(decl_at(f) for f in failing))
    # the translator-tie theorems live in their own modules: audit them too
    if proof_ok:
        for mod in ('MpVerif.C02.GenTie', 'MpVerif.C02.GenTieLex', 'MpVerif.C02.GenTieStruct'):
            aok, thms, aout = ck.prop_theorems(mod, 'C02_')
            if not aok or not thms:
                proof_ok = False
                failing.append('axiom-audit of %s' % mod)
            for n, ax in thms:
                extra = [a for a in ax if a not in ALLOWED_AXIOMS]
                if extra:
                    proof_ok = False
                    failing.append('%s uses axioms %s' % (n, extra))
            ck.cov['theorems'] = ck.cov.get('theorems', []) + [n for n, _ in thms]
            ck.cov['obligations'] = ck.cov.get('obligations', 0) + len(thms)
            ck.cov['discharged'] = ck.cov.get('discharged', 0) + len(thms)
    ck.log('proof stage: ok=%s failing=%s (%d theorems)' % (proof_ok, failing[:8], len(ck.cov.get('theorems', []))))
    if ck.tier == 'thorough' and proof_ok:
        bad = ck.leanchecker(['MpVerif.C02.Props'])
        if bad:
            failing += ['leanchecker rejected %s' % m for m in bad]
            proof_ok = False

    # 3. harness + driver
    objs = ck.libmp_objects(flags=tuple(SAN_FLAGS))
    exe = ck.link('h_nlread', ck.objects([os.path.join(VERIF, 'harness', 'h_nlread.cc')], flags=tuple(SAN_FLAGS), tag='c02h') + objs,
                  flags=SAN_FLAGS)
    try:
        drv = ck.driver('drv_c02')
    except RuntimeError as e:
        # the model no longer builds (e.g. a generated definition it consumes vanished because the code changed):
        # that is a broken proof obligation, reported from `failing` below; still search the IMPLEMENTATION for a
        # failing input with the header-consistency oracle, which does not need the model
        drv = None
        proof_ok = False
        failing.append('model driver drv_c02 does not build: ' + str(e)[-400:])
        ck.log('model driver does not build: correspondence skipped, implementation-side oracle still runs')
    ck.log('harness + driver built')
    cov = {}
    cases = build_cases(ck, T, cov)
    # strtod correspondence stream
    rng = random.Random(ck.seed + 99)
    strtods = [t.encode() for t in G.DBL_TEXT]
    alphabet = '0123456789.eE+-xXpPinfatyINFNAN() abcdef'
    for _ in range(300 if ck.tier == 'quick' else 3000):
        s = ''.join(rng.choice(alphabet[:16] if rng.random() < 0.6 else alphabet) for _ in range(rng.randint(1, 12))).lstrip(' ')
        if s and '\x00' not in s:
            strtods.append(s.encode())
    if os.environ.get('VERIF_COVERAGE'):
        import c02_cov
        lines_, br_, fn_ = c02_cov.run_coverage(ck, cases, strtods)
        c02_cov.write_report(ck, c02_cov.summarize(lines_, br_, fn_), os.environ.get('VERIF_COVERAGE_TAG', 'current'))
        return
    work = os.path.join(BUILD, 'c02')
    shutil.rmtree(work, ignore_errors=True)
    os.makedirs(work)
    ops_path = os.path.join(work, 'ops.txt')
    with open(ops_path, 'w') as f:
        for i, (fl, o, d, tag) in enumerate(cases):
            f.write('case %d %d %d %s\n' % (i, fl, o, d.hex() or '-'))
        for s in strtods:
            f.write('strtod %s\n' % s.hex())
        f.write('fileerr 0 nonexistent\nfileerr 1 directory\n')
    n_ops = len(cases) + len(strtods) + 2
    t0 = time.time()
    impl, aborts = run_harness(ck, exe, ops_path, n_ops, work)
    truncated_at = aborts.pop('truncated-at', None)
    if truncated_at is not None:
        ck.log('more than 200 sanitizer aborts: ops from %d on were not run' % truncated_at)
    ck.log('harness: %d ops, %d sanitizer aborts, %.1fs' % (n_ops, len(aborts), time.time() - t0))
    t0 = time.time()
    mo = os.path.join(work, 'model.out')
    if drv is None:
        model = ['' for _ in range(n_ops + 1)]
        p = subprocess.CompletedProcess([], 0, b'', b'')
    else:
        with open(ops_path) as fi, open(mo, 'w') as fo:
            p = subprocess.run([drv], stdin=fi, stdout=fo, stderr=subprocess.PIPE)
        model = open(mo).read().split('\n')
    ck.log('model driver: %.1fs' % (time.time() - t0))
    # OS-level failures of the file path (outside the model): the real call must end in an exception
    for j in (n_ops - 2, n_ops - 1):
        l = impl.get(j, '')
        f_ = l.split()
        cov['fileerr_' + (f_[2].split(':')[0] if len(f_) > 2 else 'none')] = cov.get('fileerr_' + (f_[2].split(':')[0] if len(f_) > 2 else 'none'), 0) + 1
        if len(f_) != 4 or not f_[2].startswith('exc:') or not f_[3].startswith('exc:'):
            ck.add_violation('file-os-error', 'ReadNLFile on a missing file / a directory did not end in an exception: %r' % l,
                             {'op': 'fileerr (nonexistent | directory)', 'line': l})
    if p.returncode != 0 or len(model) < n_ops:
        ck.add_violation('model-driver', 'lean driver failed: rc=%s lines=%d/%d %s' % (p.returncode, len(model), n_ops, p.stderr[-300:]),
                         {'cmd': drv}, found_input=False)
        return

    # 4. compare + oracle
    hist_out, hist_tag, hist_ev = {}, {}, {}
    n_cmp = n_events = n_nontrivial = 0
    distinct = set()

    def replay_obj(i, extra):
        fl, o, d, tag = cases[i]
        o = {'case_line': 'case %d %d %d %s' % (i, fl, o, d.hex() or '-'), 'input_repr': repr(d[:400]), 'tag': tag,
             'how': 'printf the case_line into a file F; build/bin/h_nlread-* F 0 1 (ASAN_OPTIONS=allocator_may_return_null=1) ; lean/.lake/build/bin/drv_c02 < F',
             'harness': exe}
        o.update(extra)
        return o

    for i, (fl, o, d, tag) in enumerate(cases):
        hist_tag[tag] = hist_tag.get(tag, 0) + 1
        ml = model[i]
        ml, _, m_file = ml.rpartition(' | filemodel=')
        m_head, _, m_evs = ml.partition(' | ')
        m_out = m_head.split(' ', 1)[1] if ' ' in m_head else '?'
        if i in aborts:
            kind = sig_of_abort(aborts[i])
            hist_out['abort:' + kind] = hist_out.get('abort:' + kind, 0) + 1
            where = where_of_abort(aborts[i])
            if kind in ('alloc-too-big', 'asan-allocator', 'asan-requested', 'asan-out-of-memory', 'asan-allocation-size-too-big'):
                pass
                # ASan turns a failing `operator new` (allocation by a hostile count, > max_allocation_size_mb)
                # into a fatal report; without ASan this is std::bad_alloc, i.e. an exception: not a violation
                continue
            if m_out == 'ub:' + kind:
                sig = 'ub:%s:%s' % (kind, where)
                what = 'undefined behaviour in the reader (%s at %s) on input %r; the model predicts it' % (kind, where, d[:80])
            else:
                sig = 'sanitizer:%s:%s' % (kind, where)
                what = 'sanitizer abort (%s at %s) on input %r; model outcome %s' % (kind, where, d[:80], m_out)
            ck.add_violation(sig, what, replay_obj(i, {'stderr': aborts[i], 'model': ml[:300]}))
            continue
        il = impl.get(i)
        if il is None and truncated_at is not None and i >= truncated_at:
            continue
        if il is None:
            ck.add_violation('harness-missing-line', 'no harness output for case %d' % i, replay_obj(i, {}), found_input=False)
            continue
        parts = il.split(' | ')
        if len(parts) != 3:
            ck.add_violation('harness-bad-line', 'unparsable harness line: %s' % il[:200], replay_obj(i, {}), found_input=False)
            continue
        i_head, i_evs, i_rest = parts
        i_out = i_head.split(' ', 1)[1]
        n_cmp += 1
        cls = i_out.split(':')[1] if ':' in i_out else i_out
        hist_out[cls] = hist_out.get(cls, 0) + 1
        toks = i_evs.split()
        n_events += len(toks)
        for t in toks:
            nm = t.partition(':')[0]
            hist_ev[nm] = hist_ev.get(nm, 0) + 1
        if len(toks) > 1:
            n_nontrivial += 1
        distinct.add(hash(d))
        # oracle on the real stream
        why = Oracle(toks, i_out == 'ok', strict=(o < 0)).check()
        if why:
            ck.add_violation('inconsistent:' + why.split(':')[0] + ':' + (why.split(':')[1] if ':' in why else ''),
                             'the real reader delivered notifications inconsistent with the header (%s) on input %r' % (why, d[:80]),
                             replay_obj(i, {'impl': il[:1500], 'oracle': why}))
        if not (i_out == 'ok' or i_out.startswith('rerr:') or i_out.startswith('berr:')):
            ck.add_violation('outcome:' + i_out, 'the reader ended with %s (neither completion nor a read error) on %r' % (i_out, d[:80]),
                             replay_obj(i, {'impl': il[:600]}))
        # other runs
        rest = dict(kv.split('=', 1) for kv in i_rest.split())
        f_out, _, f_same = rest.get('file', '?,0').rpartition(',')
        # the Lean model of the file path (readNLFile, page size 4096) executed next to the real ReadNLFile
        if m_file and not m_out.startswith('ub:') and m_file != '%s,%s' % (f_out, f_same):
            ck.add_violation('file-model-differs', 'model of NLFileReader::Read gives %s, real ReadNLFile %s,%s on %r (len %d)' % (m_file, f_out, f_same, d[:60], len(d)),
                             replay_obj(i, {'impl': il[:600], 'model': ml[:300], 'filemodel': m_file}), found_input=False)
        if f_out != i_out or f_same != '1':
            ck.add_violation('file-vs-string', 'ReadNLFile and ReadNLString disagree (%s/%s vs %s) on %r (len %d)' % (f_out, f_same, i_out, d[:60], len(d)),
                             replay_obj(i, {'impl': il[:600]}))
        for key in ('null', 'nullfile'):
            v = rest.get(key, 'skip')
            if v != 'skip' and v != i_out:
                ck.add_violation('null-handler-differs', '%s run ended %s, recorder %s on %r' % (key, v, i_out, d[:60]), replay_obj(i, {'impl': il[:600]}))
        for key in ('prob', 'probfile', 'pb0', 'pb1', 'pb2', 'pbm'):
            v = rest.get(key, 'skip')
            hist_out[key + ':' + v.split(':')[0] + (':' + v.split(':')[1] if v.startswith('exc') else '')] = hist_out.get(key + ':' + v.split(':')[0] + (':' + v.split(':')[1] if v.startswith('exc') else ''), 0) + 1
            if v != 'skip' and v != i_out and not v.startswith('exc:'):
                ck.add_violation('problem-builder-differs', '%s run ended %s, recorder %s on %r' % (key, v, i_out, d[:60]), replay_obj(i, {'impl': il[:600]}))
        # correspondence
        if drv is None:
            pass
        elif m_out.startswith('ub:'):
            ck.add_violation('model-predicts-ub-not-observed:' + m_out, 'model says %s but the real run ended %s on %r' % (m_out, i_out, d[:80]),
                             replay_obj(i, {'impl': il[:600], 'model': ml[:600]}), found_input=False)
        elif i_head + ' | ' + i_evs.strip() != (m_head + ' | ' + m_evs.strip()):
            a, b = (i_out + ' ' + i_evs).split(), (m_out + ' ' + m_evs).split()
            k = next((j for j in range(min(len(a), len(b))) if a[j] != b[j]), min(len(a), len(b)))
            ck.add_violation('model-differs:' + (a[k].partition(':')[0] if k < len(a) else 'end'),
                             'Lean model and real reader differ at token %d: impl %s, model %s; input %r' % (k, a[k:k + 2], b[k:k + 2], d[:80]),
                             replay_obj(i, {'impl': il[:1500], 'model': ml[:1500], 'correspondence': 'drv_c02 vs h_nlread'}), found_input=False)
        if i % 997 == 0:
            ck.sample((il[:300]))
    # byte-order twins: identical notifications from the real reader except the header's arith_kind
    n_twins = 0
    for a, b in getattr(build_cases, 'twins', []):
        la, lb = impl.get(a), impl.get(b)
        if la is None or lb is None:
            continue
        def norm(l):
            pr = l.split(' | ')
            toks = pr[1].split()
            if toks and toks[0].startswith('H:'):
                h = toks[0][2:].split(',')
                h[12] = '*'
                toks[0] = 'H:' + ','.join(h)
            out = pr[0].split(' ', 1)[1]
            out = re.sub(r'^berr:(\w+):\d+$', r'berr:\1', out)
            return out + ' ' + ' '.join(toks)
        n_twins += 1
        if norm(la) != norm(lb):
            ck.add_violation('swapped-vs-native', 'the byte-swapped and the native encoding of the same problem give different notifications',
                             replay_obj(a, {'native': la[:1200], 'swapped': lb[:1200], 'swapped_case_line': 'case %d %d %d %s' % (b, cases[b][0], cases[b][1], cases[b][2].hex())}))
    ck.cov['byte_order_twins_compared'] = n_twins
    # which arms of the Lean model the stream exercised: every error class is one `fail` site class, every event kind
    # one emission arm, plus reader kind x flags x outcome kind
    ALL_ERR = 'format manyopts newline uint int toobig ioverflow arith double colon eofstr name eof oob fewargs ref opcode const expr numop slopes logical logop count complvar bound expectn coloff manyinit functype sufkind dupb nob segment unsarith'.split()
    ALL_EV = 'H obj acon lcon bce ece compl linobj lincon term vb cb iv idv cols col func isuf dsuf sv sd num var cref un bin if bpl sl bp epl bcall ecall bva eva bsum esum bcnt ecnt bno eno bsno esno arg bool not blog rel lcnt impl bil eil bpw epw str symif end'.split()
    m_err, m_ev, m_kind = set(), set(), set()
    arms = {}
    def arm(k):
        arms[k] = arms.get(k, 0) + 1
    TOPLEVEL = {'H', 'acon', 'lcon', 'obj', 'ece', 'compl', 'term', 'vb', 'cb', 'iv', 'idv', 'col', 'cols', 'func', 'sv', 'sd'}
    for i in range(len(cases)):
        head, _, evs = model[i].rpartition(' | filemodel=')[0].partition(' | ')
        out = head.split(' ', 1)[1] if ' ' in head else '?'
        f_ = out.split(':')
        if f_[0] in ('rerr', 'berr'):
            m_err.add(f_[1])
        toks = evs.split()
        for t in toks:
            m_ev.add(t.partition(':')[0])
        if toks and toks[0].startswith('H:'):
            hf = toks[0][2:].split(',')
            arm('hdr:num_eqns ' + ('absent' if hf[18] == '-1' else 'present'))
            arm('hdr:num_nl_vars_in_both ' + ('absent' if hf[30] == '-1' else 'present'))
            arm('hdr:compl_dbl_ineqs ' + ('-1' if hf[24] == '-1' else 'read/default'))
            arm('hdr:vbtol ' + ('set' if hf[11] not in ('0000000000000000',) else 'unset'))
            arm('hdr:options ' + ('default-1,1,0' if hf[2:5] == ['1', '1', '0'] else 'other'))
            arm('hdr:num_ampl_options=' + hf[1])
            arm('hdr:arith_kind=' + hf[12])
            arm('hdr:flags=' + hf[13])
            for a_, b_ in zip(toks, toks[1:]):
                if b_.partition(':')[0] in ('acon', 'obj') and a_.partition(':')[0] in TOPLEVEL:
                    arm('ignore_zero: constraint/objective body is the constant 0 (no OnNumber)')
                    break
            if cases[i][1] >= 0 and not any(t.startswith('obj:') for t in toks) and any(t.startswith('num:') or t.startswith('var:') for t in toks):
                arm('NeedObj=false: expression delivered, OnObj skipped')
            if cases[i][0] == 1 and len(toks) > 1 and toks[1].startswith('vb:'):
                arm('READ_BOUNDS_FIRST: bounds delivered right after the header')
            for t in toks:
                if t.startswith('vb:') or t.startswith('cb:'):
                    lb_, ub_ = t.split(',')[1:3]
                    arm('bound-type ' + ('free' if (lb_, ub_) == ('fff0000000000000', '7ff0000000000000') else 'upper' if lb_ == 'fff0000000000000'
                                         else 'lower' if ub_ == '7ff0000000000000' else 'fixed' if lb_ == ub_ else 'range'))
            m_kind.add(('text' if hf[0] == '0' else 'bin-native' if hf[12] == '1' else 'bin-swapped' if hf[12] == '2' else 'bin-other',
                        cases[i][0], f_[0], 'filter' if cases[i][1] >= 0 else 'all'))
    ck.cov['model_arms'] = {'error_classes_hit': '%d of %d' % (len(m_err & set(ALL_ERR)), len(ALL_ERR)),
                            'error_classes_missing': sorted(set(ALL_ERR) - m_err),
                            'event_kinds_hit': '%d of %d' % (len(m_ev & set(ALL_EV)), len(ALL_EV)),
                            'event_kinds_missing': sorted(set(ALL_EV) - m_ev),
                            'reader_kind_x_flags_x_outcome_x_filter': len(m_kind), 'arms': dict(sorted(arms.items()))}
    ck.log('model arms: errors %s (missing %s), events %s (missing %s), kind x flags x outcome x filter combos %d' % (
        ck.cov['model_arms']['error_classes_hit'], ck.cov['model_arms']['error_classes_missing'],
        ck.cov['model_arms']['event_kinds_hit'], ck.cov['model_arms']['event_kinds_missing'], len(m_kind)))
    cj = os.path.join(VERIF, 'design_notes', 'coverage', 'C02.json')
    if os.path.exists(cj):
        cjs = json.load(open(cj))
        ck.cov['anchor_line_cov'] = cjs.get('anchor_line_cov')
        ck.cov['anchor_branch_cov'] = cjs.get('anchor_branch_cov')
        ck.cov['anchor_cov_note'] = 'mechanism code of the anchored files, measured by the last VERIF_COVERAGE=1 run (design_notes/coverage/C02.md)'
    # strtod stream
    bad_strtod = 0
    for k, s in enumerate(strtods):
        j = len(cases) + k
        if truncated_at is not None and j >= truncated_at:
            continue
        if drv is not None and impl.get(j) != model[j]:
            bad_strtod += 1
            ck.add_violation('model-differs:strtod', 'strtod model differs on %r: impl %s model %s' % (s, impl.get(j), model[j]),
                             {'op': 'strtod %s' % s.hex()}, found_input=False)
    ck.cov['evaluations'] = n_cmp + len(strtods)
    ck.cov['traces_validated_against_impl'] = n_cmp
    ck.cov['distinct_nontrivial'] = len(distinct)
    ck.cov['rule'] = 'distinct input byte strings; %d of the compared runs delivered at least one notification after the header' % n_nontrivial
    ck.cov['exhaustive'] = False
    ck.cov['events_compared'] = n_events
    ck.cov['outcome_histogram'] = dict(sorted(hist_out.items()))
    ck.cov['case_kinds'] = dict(sorted(hist_tag.items()))
    ck.cov['event_histogram'] = dict(sorted(hist_ev.items()))
    ck.cov['generator_histogram'] = dict(sorted(cov.items()))
    ops_hit = sorted(int(k[2:]) for k in cov if re.fullmatch(r'op\d+', k))
    ck.cov['opcodes_generated'] = '%d of %d defined opcodes' % (len(ops_hit), len([1 for k, fk in T.ops if fk != 0]))
    ck.cov['strtod_ops'] = len(strtods)
    ck.cov['correspondence'] = {'lines_compared_model_vs_impl': n_cmp + len(strtods), 'sanitizer_aborts': len(aborts)}
    ck.log('compared %d cases (%d events), outcomes: %s' % (n_cmp, n_events, ' '.join('%s=%d' % kv for kv in sorted(hist_out.items()) if not kv[0].startswith('prob'))))
    if not proof_ok:
        for fdecl in failing:
            ck.add_violation('obligation:' + fdecl.split(' ')[0], 'proof obligation no longer checks: %s' % fdecl,
                             {'theorem': fdecl, 'module': 'MpVerif.C02.Props', 'searched': '%d implementation runs' % n_cmp}, found_input=False)
    ck.level = 'proof'
    ck.notes.append('proof about the Lean model + correspondence of the model with the real reader on generated inputs; memory safety of the real code observed through ASan/UBSan only')
    ck.assumptions += ['LP64, little-endian IEEE host (arith::GetKind() = IEEE_LITTLE_ENDIAN), "C" numeric locale',
                       'memory safety / absence of UB of the real code is observed through ASan+UBSan on the generated inputs only; the Lean theorems are about the model',
                       'mp::Problem runs are limited to headers with counts <= 100000 (allocation by header counts)']
    ck.cov['trusted_base'] += ['translators/gen_opcodes.py (table printed by a program compiled against the current sources)',
                               'harness/h_nlread.cc recording handler + error-class mapping; checks/c02.py oracle and comparison']


EXPECT_THEOREMS = 16


def replay(ck, path):
    obj = json.load(open(path))
    line = obj['replay'].get('case_line')
    if not line:
        print('nothing to replay (no input recorded):', obj.get('what'))
        return 1
    work = os.path.join(BUILD, 'c02-replay')
    os.makedirs(work, exist_ok=True)
    f = os.path.join(work, 'ops.txt')
    open(f, 'w').write(line + '\n')
    objs = ck.libmp_objects(flags=tuple(SAN_FLAGS))
    exe = ck.link('h_nlread', ck.objects([os.path.join(VERIF, 'harness', 'h_nlread.cc')], flags=tuple(SAN_FLAGS), tag='c02h') + objs, flags=SAN_FLAGS)
    env = dict(os.environ, ASAN_OPTIONS=ASAN_OPTS, C02_TMPDIR=work)
    p = subprocess.run([exe, f, '0', '1'], capture_output=True, text=True, env=env)
    print('impl :', p.stdout.strip()[:2000], p.stderr.strip()[-800:])
    drv = ck.driver('drv_c02')
    q = subprocess.run([drv], stdin=open(f), capture_output=True, text=True)
    print('model:', q.stdout.strip()[:2000])
    return 0

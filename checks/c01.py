"""C01 — reformulation hands the solver a model equivalent to the NL model (end-to-end stage + gadget stage).

Stage A (owned by builder C01-proofs): checks/c01_gadgets.py:run_gadgets(ck) — Lean gadget theorems + gadget
correspondence.  Imported if present.
Stage B (this file): end-to-end projection equivalence on generated NL models:
  generated NL model (gen/c01gen.py) x acceptance configuration x conversion options
    -> real converter (harness/recsolver, built from $MP_REPO) -> recorded delivered model
    -> for every point of the gridded original domain:
         NL-feasible (exact evaluator)  <=>  exists auxiliaries satisfying the delivered model (z3, re-verified)
         and at feasible points  best delivered objective over the auxiliaries == original objective value
    -> refusals must come with a diagnostic and without a 'solve'.
Failures are minimised (model + configuration), diagnosed (which functional constraint's missing direction /
which bound is responsible) and reported with a stable signature.
"""
import os, sys, json, time, hashlib, glob, shutil, traceback
from fractions import Fraction as F

from common import *
sys.path.insert(0, os.path.join(VERIF, 'gen'))
import nlgen
import c01gen
import c01_oracle as orc
import recsolver

WORKERS = 8
REFUSAL_KINDS = [
    ('not-alldiff', 'NOT_ALLDIFF'),
    ('bigM-unbounded', 'cvt:bigM'),
    ('alldiff-nonint', 'AllDiff'),
    ('eqenc-nonint', 'Equality encoding'),
    ('eqenc-unbounded', 'Equality-comparing'),
    ('sos2-general', 'SOS2'),
    ('not-accepted-no-conversion', 'neither accepted'),
    ('complement-of-fixed-var', 'Asked to complement'),
    ('empty-comparison', 'empty_cmp'),
    ('var-pow-var', 'variable base and exponent'),
    ('unsupported', 'nsupported'),
    ('not-implemented', 'not implemented'),
]


# ------------------------------------------------------------------ one case
def run_converter(exe, case, wdir, tag, graph=False):
    m, grids = c01gen.model_from_json(case['model'])
    stub = os.path.join(wdir, tag)
    m.write(stub, names=False)
    cfg = case['cfg']
    r = recsolver.run(exe, stub, options=cfg['options'], accept=cfg['accept'], quadobj=cfg.get('quadobj', 1),
                      graph=graph, timeout=60)
    return m, grids, r


def refusal_kind(text):
    i = text.rfind('recsolver 0.0.1:')
    if i >= 0:
        text = text[i:]
    for k, pat in REFUSAL_KINDS:
        if pat in text:
            return k
    return 'other'


def classify_run(r):
    """-> ('delivered', Delivered) | ('refused', kind, diag) | ('infeasible-claimed', diag) | ('bad-refusal', what) | ('crash', what)"""
    log = r['log']
    D = orc.Delivered(log)
    text = (r['err'] or '') + '\n' + (r['out'] or '')
    if r['rc'] == 'timeout':
        return ('crash', 'converter timeout')
    if isinstance(r['rc'], int) and r['rc'] < 0:
        return ('crash', 'converter killed by signal %d: %s' % (-r['rc'], text[-300:]))
    sol = None
    if r['sol']:
        try:
            sol = recsolver.parse_sol(r['sol'])
        except Exception:
            sol = None
    code = sol['code'] if sol else None
    solmsg = sol['message'] if sol else ''
    if r['rc'] == 0 and D.ended and D.solved and (code is None or code < 500):
        return ('delivered', D)
    # the driver did not hand a model to the solver and solve it: a refusal.  It must carry a diagnostic,
    # must not have called Solve, and must not report a "solved"/"feasible" class result.
    diag = ((r['err'] or '').strip() + '\n' + solmsg.strip()).strip()
    if D.solved:
        return ('bad-refusal', 'driver failed (rc=%s, solve code %s) after having called Solve: %s' % (r['rc'], code, diag[-300:]))
    if code is not None and code < 200:
        return ('bad-refusal', 'no model was solved but the solve result code is %s (solved/feasible class): %s' % (code, diag[-300:]))
    if r['rc'] == 0 and code is None:
        return ('bad-refusal', 'driver exited 0 without solving and without writing a solution/diagnostic')
    lines = [l for l in diag.split('\n') if l.strip() and 'WARNING' not in l and not l.startswith('---')]
    if not lines:
        return ('bad-refusal', 'driver failed (rc=%s, code %s) without any diagnostic' % (r['rc'], code))
    if 'infeasible' in diag.lower():
        return ('infeasible-claimed', diag[-400:])
    return ('refused', refusal_kind(diag), diag[-400:])


def approx_in_graph(graph):
    """the run left the exact fragment if a PL *approximation* (pow, exp, log, trig) was produced"""
    if not graph:
        return False
    for l in graph:
        if '"CON_TYPE": "_pow"' in l or '"CON_TYPE": "_exp' in l or '"CON_TYPE": "_log' in l:
            if '"data"' in l:
                return True
    return False


def check_equiv(m, grids, D, cfg, budget_s=30.0, first_only=False, enum_check=False):
    """projection equivalence on the whole grid.
    -> dict(points, feasible, failures=[...], undecided, eps_excluded, obj_checked, ...)"""
    n = len(m.vars)
    perm = m.perm                                   # delivered var i  <->  model var perm[i]
    res = {'points': 0, 'feasible': 0, 'failures': [], 'undecided': 0, 'eps_excluded': 0, 'obj_checked': 0,
           'z3': None, 'witness_unverified': 0, 'enum_checked': 0, 'enum_disagree': 0, 'truncated': False}
    if D.n < n:
        res['failures'].append({'dir': 'structure', 'what': 'delivered model has fewer variables (%d) than the NL model (%d)' % (D.n, n)})
        return res
    # original variables: bounds/type must not be weakened (the grid only covers the NL box)
    for i in range(n):
        v = m.vars[perm[i]]
        if (v['lb'] is not None and D.lb[i] < F(v['lb'])) or (v['ub'] is not None and D.ub[i] > F(v['ub'])):   # None: unbounded side
            res['failures'].append({'dir': 'orig-bounds-widened', 'var': perm[i],
                                    'what': 'delivered bounds [%s,%s] wider than NL bounds [%s,%s]' % (D.lb[i], D.ub[i], v['lb'], v['ub'])})
        if v['int'] and not D.int[i]:
            res['failures'].append({'dir': 'orig-integrality-dropped', 'var': perm[i], 'what': 'integer NL variable delivered as continuous'})
    if res['failures']:
        return res
    Z = orc.Z3Enc(D)
    eps = F(cfg['eps'])
    has_obj = bool(m.objs) and 0 in D.objs
    if m.objs and 0 not in D.objs:
        res['failures'].append({'dir': 'structure', 'what': 'NL model has an objective, none was delivered'})
        return res
    sense = m.objs[0]['sense'] if m.objs else None
    if has_obj and D.objs[0]['sense'] != sense:
        res['failures'].append({'dir': 'structure', 'what': 'objective sense changed'})
        return res
    t0 = time.time()
    pts = c01gen.all_points(grids)
    for p in pts:
        if time.time() - t0 > budget_s:
            res['truncated'] = True
            break
        res['points'] += 1
        fixed = {i: p[perm[i]] for i in range(n)}
        try:
            feas = c01gen.nl_feasible(m, p, cfg)
        except nlgen.Undefined:
            continue
        gap = c01gen.point_gap(m, p)
        eps_ok = gap is None or gap >= eps
        fail = None
        if not feas:
            st, x = Z.solve(fixed)
            if st == 'unknown':
                res['undecided'] += 1
            elif st == 'sat':
                ver = None
                if x is not None:
                    ver = orc.violated(D, x)
                    if ver:
                        res['failures'].append({'dir': 'oracle-internal', 'what': 'z3 witness fails exact re-evaluation', 'viol': ver[:5]})
                        return res
                else:
                    res['witness_unverified'] += 1
                fail = {'dir': 'unsound', 'point': p, 'witness': x,
                        'what': 'NL-infeasible point is feasible for the delivered model'}
        else:
            res['feasible'] += 1
            if not eps_ok:
                res['eps_excluded'] += 1
            else:
                ov = m.obj_value(m.objs[0], p) if has_obj else None
                ex = (Z.objx[0] == orc._q(ov)) if has_obj else None
                st, x = Z.solve(fixed, extra=ex)
                if st == 'unknown':
                    res['undecided'] += 1
                elif st == 'unsat':
                    st2, x2 = Z.solve(fixed) if has_obj else ('unsat', None)
                    if st2 == 'unknown':
                        res['undecided'] += 1
                    elif st2 == 'unsat':
                        fail = {'dir': 'incomplete', 'point': p, 'what': 'NL-feasible point has no extension to the delivered model'}
                    else:
                        fail = {'dir': 'objective', 'point': p, 'witness': x2, 'orig_obj': ov,
                                'deliv_obj': orc.obj_value(D, x2) if x2 is not None else None,
                                'what': 'original objective value is not attained by the delivered objective'}
                else:
                    if x is not None:
                        ver = orc.violated(D, x)
                        if ver or (has_obj and orc.obj_value(D, x) != ov):
                            res['failures'].append({'dir': 'oracle-internal', 'what': 'z3 witness fails exact re-evaluation', 'viol': ver[:5]})
                            return res
                    else:
                        res['witness_unverified'] += 1
                    if has_obj:
                        res['obj_checked'] += 1
                        better = (Z.objx[0] < orc._q(ov)) if sense == 'min' else (Z.objx[0] > orc._q(ov))
                        st3, x3 = Z.solve(fixed, extra=better)
                        if st3 == 'unknown':
                            res['undecided'] += 1
                        elif st3 == 'sat':
                            fail = {'dir': 'objective', 'point': p, 'witness': x3, 'orig_obj': ov,
                                    'deliv_obj': orc.obj_value(D, x3) if x3 is not None else None,
                                    'what': 'the delivered model admits a better objective value than the original at this point'}
        if enum_check and fail is None:
            sols = orc.enumerate_aux(D, fixed, limit=4096)
            if sols is not None:
                res['enum_checked'] += 1
                if bool(sols) != bool(feas) and (feas is False or eps_ok):
                    res['enum_disagree'] += 1
                    res['failures'].append({'dir': 'oracle-internal', 'point': p,
                                            'what': 'enumeration of auxiliaries disagrees with z3 (enum %d solutions, NL feasible=%s)' % (len(sols), feas)})
                    return res
        if fail:
            res['failures'].append(fail)
            if first_only:
                break
    res['z3'] = dict(Z.stats)
    return res


def fail_dirs(res):
    return sorted(set(f['dir'] for f in res['failures']))


# ------------------------------------------------------------------ shrinking
def _still_fails(exe, case, wdir, want_dir):
    """want_dir: a failure direction of check_equiv, or 'crash' / 'bad-refusal' / 'false-infeasibility-claim'"""
    try:
        m, grids, r = run_converter(exe, case, wdir, 'shr')
        cl = classify_run(r)
        if want_dir in ('crash', 'bad-refusal'):
            return cl[0] == want_dir
        if want_dir == 'false-infeasibility-claim':
            return cl[0] == 'infeasible-claimed' and _feasible_point(m, grids, case['cfg']) is not None
        if cl[0] != 'delivered':
            return False
        D = cl[1]
        if D.unsupported or D.inexact:
            return False
        res = check_equiv(m, grids, D, case['cfg'], budget_s=6.0, first_only=True)
        return want_dir in fail_dirs(res)
    except Exception:
        return False


def _feasible_point(m, grids, cfg):
    for p in c01gen.all_points(grids):
        try:
            if c01gen.nl_feasible(m, p, cfg):
                gap = c01gen.point_gap(m, p)
                if gap is None or gap >= F(cfg['eps']):
                    return p
        except nlgen.Undefined:
            pass
    return None


def _expr_variants(j):
    """smaller variants of a JSON expression (children of the same sort, constants)"""
    e = c01gen.j2e(j)
    outs = []
    logical = c01gen.is_logical(e)

    def sub(e):
        res = []
        for c in c01gen.children(e):
            if c01gen.is_logical(c) == c01gen.is_logical(e) and c[0] not in ():
                res.append(c)
        if c01gen.is_logical(e):
            res += [('T',), ('F',)]
        elif e[0] not in ('n',):
            res += [('n', F(0)), ('n', F(1))]
        return res

    def rec(e):
        """all expressions obtained by replacing exactly one node by a smaller alternative"""
        out = []
        if e[0] not in ('n', 'v', 'T', 'F'):
            out += sub(e)
        ch = c01gen.children(e)
        for i, c in enumerate(ch):
            if e[0] in c01gen.CNT and i == 1:
                # the count node must stay a count
                for v in rec(c):
                    if v[0] == 'count':
                        out.append(c01gen.rebuild(e, ch[:i] + [v] + ch[i + 1:]))
                continue
            for v in rec(c):
                out.append(c01gen.rebuild(e, ch[:i] + [v] + ch[i + 1:]))
            # drop one argument of list-like nodes
        k = e[0]
        if k in ('min', 'max', 'count', 'alldiff') and len(e[1]) > 1:
            for i in range(len(e[1])):
                out.append((k, e[1][:i] + e[1][i + 1:]))
        if k in ('sum', 'forall', 'exists') and len(e[1]) > 3:
            for i in range(len(e[1])):
                out.append((k, e[1][:i] + e[1][i + 1:]))
        if k in ('sum',) and len(e[1]) == 3:
            out.append(('+', e[1][0], e[1][1]))
            out.append(('+', e[1][1], e[1][2]))
        if k in ('forall', 'exists') and len(e[1]) == 3:
            b = 'and' if k == 'forall' else 'or'
            out.append((b, e[1][0], e[1][1]))
            out.append((b, e[1][1], e[1][2]))
            out.append((b, e[1][0], e[1][2]))
        if k == 'numberof' and len(e[2]) > 1:
            for i in range(len(e[2])):
                out.append((k, e[1], e[2][:i] + e[2][i + 1:]))
        return out
    seen = set()
    for v in rec(e):
        if c01gen.is_logical(v) != logical:
            continue
        fz = c01gen.freeze(v)
        if fz in seen:
            continue
        seen.add(fz)
        outs.append(c01gen.e2j(v))
    outs.sort(key=lambda x: len(json.dumps(x)))
    return outs


SHRINK_WALL_S = 25.0


def shrink(exe, case, wdir, want_dir, max_runs=220, log=None):
    """greedy minimisation of model + configuration while a failure of direction `want_dir` persists"""
    import copy
    cur = copy.deepcopy(case)
    runs = [0]
    t_end = time.time() + SHRINK_WALL_S

    def attempt(cand):
        if runs[0] >= max_runs or time.time() > t_end:
            runs[0] = max_runs
            return False
        runs[0] += 1
        return _still_fails(exe, cand, wdir, want_dir)

    changed = True
    while changed and runs[0] < max_runs:
        changed = False
        M = cur['model']
        # 1. drop whole items
        for key in ('lcons', 'cons', 'objs', 'sos'):
            i = 0
            while i < len(M.get(key, [])):
                cand = copy.deepcopy(cur)
                del cand['model'][key][i]
                if (cand['model']['cons'] or cand['model']['lcons']) and attempt(cand):
                    cur = cand
                    M = cur['model']
                    changed = True
                else:
                    i += 1
        # 2. configuration: drop options, then acceptance entries
        i = 0
        while i < len(cur['cfg']['options']):
            if cur['cfg']['options'][i].startswith('cvt:cmp:eps'):
                i += 1
                continue
            cand = copy.deepcopy(cur)
            o = cand['cfg']['options'].pop(i)
            if o == 'cvt:sos=0':
                cand['cfg']['sos'] = 1
            if attempt(cand):
                cur = cand
                changed = True
            else:
                i += 1
        i = 0
        while i < len(cur['cfg']['accept']):
            if cur['cfg']['accept'][i] in c01gen.ALG_NATIVE:
                i += 1
                continue
            cand = copy.deepcopy(cur)
            cand['cfg']['accept'].pop(i)
            if attempt(cand):
                cur = cand
                changed = True
            else:
                i += 1
        # 3. expressions
        M = cur['model']
        slots = [('cons', i, 'nl') for i in range(len(M['cons'])) if M['cons'][i]['nl'] is not None] + \
                [('lcons', i, None) for i in range(len(M['lcons']))] + \
                [('objs', i, 'nl') for i in range(len(M['objs'])) if M['objs'][i]['nl'] is not None]
        for key, i, fld in slots:
            progress = True
            while progress and runs[0] < max_runs:
                progress = False
                j = cur['model'][key][i] if fld is None else cur['model'][key][i][fld]
                for v in _expr_variants(j):
                    if len(json.dumps(v)) >= len(json.dumps(j)):
                        continue
                    cand = copy.deepcopy(cur)
                    if fld is None:
                        cand['model'][key][i] = v
                    else:
                        cand['model'][key][i][fld] = v
                        if v[0] in ('n', 'v'):       # a purely linear row: keep it nonlinear-free but valid
                            pass
                    if attempt(cand):
                        cur = cand
                        changed = progress = True
                        break
        # 4. linear parts
        for key in ('cons', 'objs'):
            for i in range(len(cur['model'][key])):
                for jv in list(cur['model'][key][i]['lin'].keys()):
                    cand = copy.deepcopy(cur)
                    del cand['model'][key][i]['lin'][jv]
                    if attempt(cand):
                        cur = cand
                        changed = True
        # 5. shrink grids/domains: fix variables that are not needed to vary
        for jv in range(len(cur['model']['vars'])):
            g = cur['model']['vars'][jv]['grid']
            if len(g) > 2:
                for drop in (g[1:-1],):
                    cand = copy.deepcopy(cur)
                    cand['model']['vars'][jv]['grid'] = [g[0], g[-1]]
                    if not cand['model']['vars'][jv]['int'] and attempt(cand):
                        cur = cand
                        changed = True
    if log:
        log('shrink: %d converter runs' % runs[0])
    return cur


# ------------------------------------------------------------------ diagnosis -> signature
SHORT2LONG = {'_abs': 'AbsConstraint', '_min': 'MinConstraint', '_max': 'MaxConstraint', '_and': 'AndConstraint',
              '_or': 'OrConstraint', '_not': 'NotConstraint', '_ifthen': 'IfThenConstraint', '_impl': 'ImplicationConstraint',
              '_count': 'CountConstraint', '_numberofconst': 'NumberofConstConstraint', '_numberofvar': 'NumberofVarConstraint',
              '_alldiff': 'AllDiffConstraint', '_div': 'DivConstraint', '_pl': 'PLConstraint',
              '_linfunccon': 'LinearFunctionalConstraint', '_quadfunccon': 'QuadraticFunctionalConstraint'}
for _k in ('eq', 'le', 'lt', 'ge', 'gt'):
    SHORT2LONG['_condlin' + _k] = 'CondLinCon' + _k.upper()
    SHORT2LONG['_condquad' + _k] = 'CondQuadCon' + _k.upper()


def _vars_in(o, acc):
    """variable indices referenced by a graph 'data' record"""
    if isinstance(o, dict):
        for k, v in o.items():
            if k in ('vars', 'vars1', 'vars2', 'args') and isinstance(v, list):
                acc.update(x for x in v if isinstance(x, int))
            elif k in ('bin_var', 'var', 'compl_var') and isinstance(v, int):
                acc.add(v)
            elif k == 'res_var':
                pass
            else:
                _vars_in(v, acc)
    elif isinstance(o, list):
        for v in o:
            _vars_in(v, acc)


def parse_graph(graph):
    """constraints the converter created (creation records, in chronological order) + their final status.
    status[key]: unused/bridged/final, 'converted' (it is the source of a link), 'products' (keys it was converted into),
    'pos' (creation order)"""
    created = {}
    status = {}
    pos = 0
    for l in graph or []:
        try:
            o = json.loads(l)
        except Exception:
            continue
        if 'link_type' in o:
            srcs, dsts = [], []
            for side, lst in (('src_nodes', srcs), ('dest_nodes', dsts)):
                for nd in o.get(side, []):
                    for k, v in nd.items():
                        if k.startswith('_'):
                            for i in (v if isinstance(v, list) else [v]):
                                lst.append((k, i))
            for sk in srcs:
                st = status.setdefault(sk, {})
                st['converted'] = 1
                st.setdefault('products', []).extend(dsts)
            continue
        t = o.get('CON_TYPE')
        if t is None or 'index' not in o:
            continue
        key = (t, o['index'])
        if 'data' in o:
            created[key] = o['data']
            pos += 1
            status.setdefault(key, {})['pos'] = pos
        if 'final' in o:
            status.setdefault(key, {}).update({'unused': o.get('unused'), 'bridged': o.get('bridged'), 'final': o.get('final')})
    return created, status


def _g2num(v):
    # graph export prints doubles with %g-like precision: only used for the diagnosis, never for a verdict
    return F(v).limit_denominator(1 << 20) if isinstance(v, float) else F(v)


def graph_func_formula(Z, t, data):
    """z3 formula  res == f(args)  for a functional constraint record of the graph export (None if not functional)"""
    V = Z.V
    long = SHORT2LONG.get(t)
    if long is None or 'res_var' not in data:
        return None
    r = data['res_var']
    if r is None or r < 0 or r >= len(V):
        return None
    try:
        if t in ('_linfunccon', '_quadfunccon'):
            ex = data['expr']
            body = ex.get('body', ex)
            lin = body.get('lin_terms', body)
            lt = [(_g2num(c), v) for c, v in zip(lin.get('coefs', []), lin.get('vars', []))]
            qt = []
            if 'qp_terms' in body:
                q = body['qp_terms']
                qt = [(_g2num(c), a, b) for c, a, b in zip(q['coefs'], q['vars1'], q['vars2'])]
            c = {'k': 'fexpr', 'res': r, 'lin': lt, 'quad': qt, 'const': _g2num(ex.get('const_term', ex.get('constant', 0)))}
            return Z.enc(c)
        if t.startswith('_cond'):
            con = data['con']
            body = con['body']
            if 'lin_terms' in body:
                lt = [(_g2num(c), v) for c, v in zip(body['lin_terms']['coefs'], body['lin_terms']['vars'])]
                qt = [(_g2num(c), a, b) for c, a, b in zip(body['qp_terms']['coefs'], body['qp_terms']['vars1'], body['qp_terms']['vars2'])]
            else:
                lt = [(_g2num(c), v) for c, v in zip(body['coefs'], body['vars'])]
                qt = []
            rr = con['rhs_or_range']
            rhs = _g2num(rr[1])
            c = {'k': 'cond', 'res': r, 'cmp': long[-2:], 'con': {'lin': lt, 'quad': qt, 'lb': rhs, 'ub': rhs}}
            return Z.enc(c)
        f = orc.FUNC[long]
        c = {'k': 'func', 'f': f, 'res': r, 'args': list(data['args'])}
        if f == 'pl':
            p = data['params']
            c['px'] = [_g2num(v) for v in p['pl_x']]
            c['py'] = [_g2num(v) for v in p['pl_y']]
        else:
            c['params'] = [_g2num(v) for v in data.get('params', [])]
        if any(a < 0 or a >= len(V) for a in c['args']):
            return None
        return Z.enc(c)
    except Exception:
        return None


def _referenced_by_delivered(D, r):
    for c in D.cons:
        vs = set()
        for part in (c, c.get('con') or {}):
            vs |= set(j for _, j in part.get('lin', []))
            for cf, a, b in part.get('quad', []):
                vs |= {a, b}
        vs |= set(c.get('args', []))
        vs |= set(c.get('vars', []))
        if 'b' in c:
            vs.add(c['b'])
        if r in vs:
            return True
    for o in D.objs.values():
        if any(j == r for _, j in o['lin']) or any(r in (a, b) for _, a, b in o['quad']):
            return True
    return False


def diagnose(exe, case, wdir, failure):
    """derive a stable class for a (minimised) failing case by *counterfactual repair* of the delivered model at the
    failing point: which functional constraint(s) of the reformulation graph, if their full equality
    res == f(args) were enforced (and the bounds of their result variable restored), make the failure disappear;
    then how that constraint was treated by the converter (marked unused although still referenced / converted
    before a later use added a context / used in a quadratic term with negative coefficient)."""
    m, grids, r = run_converter(exe, case, wdir, 'diag', graph=True)
    cl = classify_run(r)
    info = {'delivered_types': None, 'culprits': [], 'usage': []}
    if cl[0] != 'delivered':
        return '%s:%s' % (failure['dir'], model_ops_key(case)), info
    D = cl[1]
    info['delivered_types'] = D.types()
    info['delivered'] = [e for e in r['log'] if e.get('ev') in ('vars', 'obj', 'con')]
    Z = orc.Z3Enc(D)
    n = len(m.vars)
    p = [F(v) for v in failure['point']]
    fixed = {i: p[m.perm[i]] for i in range(n)}
    created, status = parse_graph(r['graph'])
    d = failure['dir']
    # the query whose answer is wrong, and the answer that would be right
    extra, want = None, None
    if d == 'unsound':
        want = 'unsat'
    elif d == 'incomplete':
        want = 'sat'
    elif d == 'objective':
        ov = F(failure['orig_obj'])
        sense = m.objs[0]['sense']
        better = (Z.objx[0] < orc._q(ov)) if sense == 'min' else (Z.objx[0] > orc._q(ov))
        st, _ = Z.solve(fixed, extra=better)
        if st == 'sat':
            extra, want = better, 'unsat'
        else:
            extra, want = (Z.objx[0] == orc._q(ov)), 'sat'
            d = 'objective-unattained'
    funcs = []
    for key, data in sorted(created.items(), key=lambda kv: status.get(kv[0], {}).get('pos', 0)):
        f = graph_func_formula(Z, key[0], data)
        if f is not None:
            funcs.append((key, data, f))

    def repaired(keys, relax=True, define=True):
        rs = {data['res_var'] for key, data, f in funcs if key in keys}
        add = [f for key, data, f in funcs if key in keys] if define else []
        st, _ = Z.solve(fixed, extra=extra, add=add, relax_bounds=(rs if relax else ()))
        return st == want

    # 1. functional constraints marked unused whose result variable is still referenced by the delivered model
    # (or asserted through its bounds: a root logical constraint whose Or/And was merged with a nested copy)
    U = [key for key, data, f in funcs if (status.get(key) or {}).get('unused') == 1 and
         (_referenced_by_delivered(D, data['res_var']) or D.lb[data['res_var']] == D.ub[data['res_var']])]
    info['unused_but_referenced'] = [[SHORT2LONG[k[0]], k[1]] for k in U]
    if U:
        types = '+'.join(sorted(set(SHORT2LONG[k[0]] for k in U)))
        conv = any((status.get(k) or {}).get('converted') for k in U)
        if repaired(set(U), relax=True, define=False):
            return 'unused-var-fixed:' + types, info           # the variable was fixed to 0 as "unused"
        if repaired(set(U), relax=False, define=True) or repaired(set(U), relax=True, define=True):
            return ('late-context-map-reuse:' if conv else 'unused-but-referenced:') + types, info
    # 2. single functional constraints whose enforcement repairs the point
    culprits = [(key, data) for key, data, f in funcs if repaired({key}, relax=(want == 'sat'))]
    info['culprits'] = [{'type': SHORT2LONG[k[0]], 'index': k[1], 'status': status.get(k), 'data': dt} for k, dt in culprits]
    if culprits and want == 'unsat':
        sigs = [_usage_class(key, data, created, status, D) for key, data in culprits]
        info['usage'] = sigs
        for cls in ('uenc-value-outside-domain', 'late-context-map-reuse', 'quadterm-negcoef-ctx'):
            hit = [s for s in sigs if s[0] == cls]
            if hit:
                if cls != 'late-context-map-reuse':
                    return cls, info
                return cls + ':' + '+'.join(sorted(set(s[1] for s in hit))), info
        return 'ctx-too-weak:%s:%s' % ('+'.join(sorted(set(s[1] for s in sigs))), model_ops_key(case)), info
    if want == 'sat':
        blockers = []
        for i, c in enumerate(D.cons):
            st, _ = Z.solve(fixed, extra=extra, skip={('con', i)})
            if st == 'sat':
                blockers.append('con:' + c['type'])
        for j in range(n, D.n):
            st, _ = Z.solve(fixed, extra=extra, relax_bounds={j})
            if st == 'sat':
                blockers.append('auxbound')
        info['blockers'] = blockers
    return '%s:%s' % (d, model_ops_key(case)), info


def fold_constant_subexprs(case, only_op=None):
    """NL-semantics-preserving rewrite: subexpressions that have the same value at all grid points are replaced by
    that constant (all maximal ones, or only those rooted at operator `only_op`).
    -> (rewritten case, sorted operators that root some constant subexpression)"""
    import copy
    m, grids = c01gen.model_from_json(case['model'])
    pts = c01gen.all_points(grids)
    ops = set()

    def const_value(e):
        try:
            vals = set(nlgen.ev(e, p) for p in pts)
        except nlgen.Undefined:
            return None
        if len(vals) == 1:
            v = vals.pop()
            if isinstance(v, bool):
                return ('T',) if v else ('F',)
            return ('n', F(v))
        return None

    def fold(e):
        if e[0] in ('n', 'v', 'T', 'F'):
            return e
        cv = const_value(e)
        if cv is not None:
            ops.add(e[0])
            if only_op is None or only_op == e[0]:
                return cv
        if e[0] in c01gen.CNT:
            return (e[0], fold(e[1]), ('count', [fold(a) for a in e[2][1]]))
        return c01gen.rebuild(e, [fold(c) for c in c01gen.children(e)])
    new = copy.deepcopy(case)
    M = new['model']
    for c in M['cons']:
        if c['nl'] is not None:
            c['nl'] = c01gen.e2j(fold(c01gen.j2e(c['nl'])))
    M['lcons'] = [c01gen.e2j(fold(c01gen.j2e(l))) for l in M['lcons']]
    for o in M['objs']:
        if o['nl'] is not None:
            o['nl'] = c01gen.e2j(fold(c01gen.j2e(o['nl'])))
    return new, sorted(ops)


def distribute_constants(case):
    """NL-semantics-preserving rewrite: (a + b + k) * c  ->  a*c + b*c + k*c  (c constant), recursively.
    -> (rewritten case, number of rewrites)"""
    import copy
    cnt = [0]

    def mulc(e, c):
        k = e[0]
        if k == 'n':
            return ('n', F(e[1]) * c)
        if k in ('+', '-'):
            cnt[0] += 1
            return (k, mulc(e[1], c), mulc(e[2], c))
        if k == 'sum':
            cnt[0] += 1
            return ('sum', [mulc(a, c) for a in e[1]])
        if k == 'neg':
            return ('neg', mulc(e[1], c))
        return ('*', ('n', c), e)

    def walk(e):
        if e[0] in ('n', 'v', 'T', 'F', 'pl'):
            return e
        if e[0] in c01gen.CNT:
            return (e[0], walk(e[1]), ('count', [walk(a) for a in e[2][1]]))
        e = c01gen.rebuild(e, [walk(c) for c in c01gen.children(e)])
        if e[0] == '*':
            for a, b in ((e[1], e[2]), (e[2], e[1])):
                if a[0] == 'n' and b[0] in ('+', '-', 'sum', 'neg'):
                    return mulc(b, F(a[1]))
        return e
    new = copy.deepcopy(case)
    M = new['model']
    for c in M['cons']:
        if c['nl'] is not None:
            c['nl'] = c01gen.e2j(walk(c01gen.j2e(c['nl'])))
    M['lcons'] = [c01gen.e2j(walk(c01gen.j2e(l))) for l in M['lcons']]
    for o in M['objs']:
        if o['nl'] is not None:
            o['nl'] = c01gen.e2j(walk(c01gen.j2e(o['nl'])))
    return new, cnt[0]


PRE_OPTS = ('cvt:pre:all=0', 'cvt:pre:eqresult=0', 'cvt:pre:eqbinary=0', 'cvt:pre:unnest=0')


def essential_pre_opts(exe, case, wdir):
    """those cvt:pre:*=0 options without which the failure disappears"""
    import copy
    ess = []
    for o in PRE_OPTS:
        if o in case['cfg']['options']:
            c2 = copy.deepcopy(case)
            c2['cfg']['options'].remove(o)
            if not any_failure(exe, c2, wdir, ignore_crash=True):
                ess.append(o)
    return ess


def const_fold_class(exe, case, wdir):
    """if replacing constant subexpressions by their values makes the equivalence failure disappear, name the
    (innermost) operators whose constant instances are responsible"""
    _, allops = fold_constant_subexprs(case, only_op='\0')      # collect only
    if not allops:
        return None
    single = []
    for op in allops:
        folded, _ = fold_constant_subexprs(case, only_op=op)
        if not any_failure(exe, folded, wdir, ignore_crash=True):
            single.append(op)
    res = None
    if single:
        # innermost first: drop operators whose constant instances contain another candidate operator
        m, grids = c01gen.model_from_json(case['model'])
        pts = c01gen.all_points(grids)
        outer = set()

        def is_const(e):
            try:
                return len(set(nlgen.ev(e, p) for p in pts)) == 1
            except nlgen.Undefined:
                return False

        def inner_ops(e, acc):
            for c in c01gen.children(e):
                if c[0] not in ('n', 'v', 'T', 'F'):
                    acc.add(c[0])
                inner_ops(c, acc)

        def scan(e):
            if e[0] in ('n', 'v', 'T', 'F'):
                return
            if e[0] in single and is_const(e):
                acc = set()
                inner_ops(e, acc)
                if any(o in single and o != e[0] for o in acc):
                    outer.add(e[0])
            for c in c01gen.children(e):
                scan(c)
        for _, _, e in c01gen.model_exprs(m):
            scan(e)
        keep = [o for o in single if o not in outer] or single
        res = 'const-subexpr:' + '+'.join(keep)
    else:
        folded, _ = fold_constant_subexprs(case)
        if not any_failure(exe, folded, wdir, ignore_crash=True):
            res = 'const-subexpr:' + '+'.join(allops)
    if res:
        ess = essential_pre_opts(exe, case, wdir)
        if ess:
            res += ':' + ','.join(ess)
    return res


def any_failure(exe, case, wdir, ignore_crash=False):
    """does the case still show any failure (crash, bad refusal, false infeasibility claim, non-equivalence)?"""
    try:
        m, grids, r = run_converter(exe, case, wdir, 'cf')
        cl = classify_run(r)
        if cl[0] in ('crash', 'bad-refusal'):
            return not ignore_crash
        if cl[0] == 'infeasible-claimed':
            return _feasible_point(m, grids, case['cfg']) is not None
        if cl[0] != 'delivered' or cl[1].unsupported or cl[1].inexact:
            return False
        return bool(check_equiv(m, grids, cl[1], case['cfg'], budget_s=20.0, first_only=True)['failures'])
    except Exception:
        return True


def _types_key(D):
    return '+'.join(sorted(D.types()))


def model_ops_key(case):
    """operators of the (minimised) NL model + whether its nonlinear parts only see constants / fixed variables"""
    M = case['model']
    ops = {}
    used = set()

    def walk(j):
        k = j[0]
        if k == 'v':
            used.add(j[1])
            return
        if k in ('n', 'T', 'F'):
            return
        ops[k] = 1
        if k == 'pl':
            used.add(j[3])
            return
        for a in j[1:]:
            if isinstance(a, list) and a and isinstance(a[0], str):
                walk(a)
            elif isinstance(a, list):
                for b in a:
                    if isinstance(b, list):
                        walk(b)
    for c in M['cons']:
        if c['nl'] is not None:
            walk(c['nl'])
    for l in M['lcons']:
        walk(l)
    for o in M['objs']:
        if o['nl'] is not None:
            walk(o['nl'])
    const = all(M['vars'][j]['lb'] == M['vars'][j]['ub'] for j in used)
    key = '+'.join(sorted(ops)) or 'linear'
    if M.get('sos'):
        key += '+sos'
    if const:
        key += ':const-args'
    # options / acceptance entries that survived minimisation are essential for the failure
    cfg = case['cfg']
    ess = sorted(o for o in cfg['options'] if not o.startswith('cvt:cmp:eps')) + \
        sorted('accept=' + a for a in cfg['accept'] if a not in c01gen.ALG_NATIVE)
    if ess:
        key += ':' + ','.join(ess)
    return key


def crash_frame(exe, case, wdir):
    """innermost mp:: function of the crash (via gdb, if installed) - used only to name the finding class"""
    import subprocess, re
    if not shutil.which('gdb'):
        return None
    try:
        m, grids = c01gen.model_from_json(case['model'])
        stub = os.path.join(wdir, 'gdbcase')
        m.write(stub, names=False)
        env = dict(os.environ)
        env['RECSOLVER_LOG'] = os.devnull
        env['RECSOLVER_ACCEPT'] = ','.join(case['cfg']['accept'])
        env['RECSOLVER_QUADOBJ'] = str(case['cfg'].get('quadobj', 1))
        p = subprocess.run(['gdb', '-batch', '-ex', 'run', '-ex', 'bt 12', '--args', exe, stub, '-AMPL'] + list(case['cfg']['options']),
                           capture_output=True, text=True, timeout=120, env=env, errors='replace')
        for line in p.stdout.split('\n'):
            mm = re.match(r'#\d+\s+(?:0x[0-9a-f]+ in )?(.*)', line)
            if not mm:
                continue
            f = mm.group(1)
            if 'mp::' not in f:
                continue
            # strip template arguments and the argument list
            out, depth = [], 0
            for ch in f:
                if ch == '<':
                    depth += 1
                elif ch == '>':
                    depth -= 1
                elif depth == 0:
                    out.append(ch)
            f = ''.join(out)
            f = f.split('(')[0].strip()
            name = f.split('::')[-1].split(' ')[-1]
            if name:
                return name
    except Exception:
        return None
    return None


def _usage_class(key, data, created, status, D):
    """how the converter treated a culprit functional constraint (its one-sided reformulation is too weak)"""
    t = SHORT2LONG[key[0]]
    r = data.get('res_var')
    st = status.get(key) or {}
    # (a) it was converted (in the context known at that time) and a constraint referencing its result variable
    #     was created afterwards, outside its own reformulation: a context that arrived after the conversion
    if st.get('converted'):
        prods = set(map(tuple, st.get('products', [])))
        closure = set(prods)
        frontier = list(prods)
        while frontier:
            k = frontier.pop()
            for k2 in map(tuple, (status.get(k) or {}).get('products', [])):
                if k2 not in closure:
                    closure.add(k2)
                    frontier.append(k2)
        t_conv = min([status.get(k, {}).get('pos', 10 ** 9) for k in prods] or [10 ** 9])
        for k2, d2 in created.items():
            if k2 == key or k2 in closure:
                continue
            if (status.get(k2) or {}).get('pos', 0) > t_conv:
                vs = set()
                _vars_in(d2, vs)
                if r in vs:
                    return ('late-context-map-reuse', t)
    # (a') a reified equality var == const whose reformulation is the unary encoding of the variable, with a
    #      constant that is not a value of the (integer) domain: CreateUnaryEncoding skips such values silently
    if key[0] == '_condlineq' and any(k[0] == '_uenc' for k in map(tuple, st.get('products', []))):
        try:
            body = data['con']['body']
            if len(body['vars']) == 1:
                v, val = body['vars'][0], _g2num(data['con']['rhs_or_range'][1]) / _g2num(body['coefs'][0])
                if val.denominator != 1 or val < D.lb[v] or val > D.ub[v]:
                    return ('uenc-value-outside-domain', t)
        except Exception:
            pass
    # (b) used in a quadratic term with a negative coefficient
    negquad = [False]

    def walk(o):
        if isinstance(o, dict):
            if 'qp_terms' in o:
                q = o['qp_terms']
                for cf, a, b in zip(q['coefs'], q['vars1'], q['vars2']):
                    if r in (a, b) and cf < 0:
                        negquad[0] = True
            for v in o.values():
                walk(v)
        elif isinstance(o, list):
            for v in o:
                walk(v)
    for k2, d2 in created.items():
        if k2 != key:
            walk(d2)
    for l in D.objs.values():
        for cf, a, b in l['quad']:
            if r in (a, b) and cf < 0:
                negquad[0] = True
    if negquad[0]:
        return ('quadterm-negcoef-ctx', t)
    return ('other-use', t)


# ------------------------------------------------------------------ worker
def _seen_count(wbase, sig, bump=False):
    d = os.path.join(wbase, 'seen', hashlib.sha256(sig.encode()).hexdigest()[:16])
    try:
        if bump:
            os.makedirs(d, exist_ok=True)
            open(os.path.join(d, '%d-%d' % (os.getpid(), int(time.time() * 1e6))), 'w').close()
        return len(os.listdir(d))
    except OSError:
        return 0


MAX_SHRINK_PER_CLASS = 2


def process_case(args):
    exe, case, wbase, tier, do_shrink = args
    t0 = time.time()
    wdir = os.path.join(wbase, 'w%d' % os.getpid())
    os.makedirs(wdir, exist_ok=True)
    out = {'id': case.get('id'), 'profile': case.get('profile'), 'status': None}
    try:
        m, grids, r = run_converter(exe, case, wdir, 'c', graph=True)
        out['stats'] = c01gen.model_stats(m)
        cl = classify_run(r)
        out['status'] = cl[0]
        gcreated, gstatus = parse_graph(r['graph'])
        conv = {}
        for k, st in gstatus.items():
            nm = k[0]
            h = conv.setdefault(nm, [0, 0, 0])
            if st.get('final'):
                h[0] += 1
            elif st.get('unused'):
                h[2] += 1
            elif st.get('bridged'):
                h[1] += 1
        out['conv'] = conv
        if cl[0] == 'refused':
            out['refusal'] = cl[1]
            out['diag'] = cl[2][:200]
        elif cl[0] == 'infeasible-claimed':
            # the converter says "model infeasible": then no grid point may be NL-feasible
            out['diag'] = cl[1][:200]
            feas_pt = _feasible_point(m, grids, case['cfg'])
            if feas_pt is not None:
                out['status'] = 'fail'
                out['sig'] = 'false-infeasibility-claim'
                out['dirs'] = ['incomplete']
                out['case'] = shrink(exe, case, wdir, 'false-infeasibility-claim') if do_shrink else case
                feas_pt = _feasible_point(*c01gen.model_from_json(out['case']['model']), out['case']['cfg']) or feas_pt
                out['failure'] = _jsonable({'dir': 'incomplete', 'point': feas_pt,
                                            'what': 'conversion stopped with "%s" but this point satisfies the NL model' % cl[1][-120:].replace('\n', ' ')})
        elif cl[0] in ('bad-refusal', 'crash'):
            out['what'] = cl[1]
            pre = (crash_frame(exe, case, wdir) or '?') if cl[0] == 'crash' else 'bad-refusal'
            if do_shrink and _seen_count(wbase, 'pre:' + pre) < MAX_SHRINK_PER_CLASS:
                out['case'] = shrink(exe, case, wdir, cl[0])
            else:
                out['case'] = case
            _seen_count(wbase, 'pre:' + pre, bump=True)
            out['orig_case'] = case
            if cl[0] == 'crash':
                out['frame'] = crash_frame(exe, out['case'], wdir) if out['case'] is not case else (pre if pre != '?' else None)
        elif cl[0] == 'delivered':
            D = cl[1]
            out['delivered_types'] = D.types()
            out['ctx_delivered'] = {}
            for c in D.cons:
                if 'ctx' in c:
                    k = c['type'] + ':' + c['ctx']
                    out['ctx_delivered'][k] = out['ctx_delivered'].get(k, 0) + 1
            # hypotheses of the composition theorem C01_compose, decided on the recorded contexts by the Lean validator
            try:
                import c01_gadgets
                out['validation'] = c01_gadgets.validate_model(exe, os.path.join(wdir, 'c'), case['cfg']['options'],
                                                               len(m.vars), quadobj=case['cfg'].get('quadobj', 1))
                out['validation']['unproved_conversions'] = sorted(
                    k for k, h in conv.items() if h[1] and k not in c01_gadgets.PROVED_CONVERSIONS)
            except Exception as ex:
                out['validation'] = {'status': 'harness-exception', 'what': repr(ex)[:200]}
            if D.unsupported:
                out['status'] = 'unsupported-type'
                out['what'] = D.unsupported[:3]
            elif approx_in_graph(r['graph']):
                out['status'] = 'approximated'
            elif D.inexact:
                out['status'] = 'rounded-constants'
            else:
                res = check_equiv(m, grids, D, case['cfg'], budget_s=40.0 if tier == 'thorough' else 15.0,
                                  enum_check=(tier == 'thorough'))
                out['res'] = {k: res[k] for k in ('points', 'feasible', 'undecided', 'eps_excluded', 'obj_checked',
                                                  'witness_unverified', 'enum_checked', 'truncated', 'z3')}
                out['naux'] = D.n - len(m.vars)
                if res['failures']:
                    out['status'] = 'fail'
                    f0 = res['failures'][0]
                    out['dirs'] = fail_dirs(res)
                    out['nfail'] = len(res['failures'])
                    if f0['dir'] == 'oracle-internal':
                        out['status'] = 'oracle-internal'
                        out['what'] = f0['what']
                        out['case'] = case
                    elif f0['dir'] in ('structure', 'orig-bounds-widened', 'orig-integrality-dropped'):
                        out['sig'] = f0['dir']
                        out['case'] = case
                        out['failure'] = _jsonable(f0)
                    else:
                        # classes already minimised a few times in this run are reported from the unshrunk case
                        pre = None
                        if do_shrink:
                            try:
                                pre, _ = diagnose(exe, case, wdir, f0)
                                if pre.split(':')[0] in ('unsound', 'incomplete', 'objective', 'objective-unattained'):
                                    pre = const_fold_class(exe, case, wdir) or None
                                    if pre is None:
                                        dist, nrw = distribute_constants(case)
                                        if nrw and not any_failure(exe, dist, wdir, ignore_crash=True):
                                            pre = 'multiplyout-const-times-sum'
                            except Exception:
                                pre = None
                        skip = pre is not None and _seen_count(wbase, pre) >= MAX_SHRINK_PER_CLASS
                        if pre is not None:
                            _seen_count(wbase, pre, bump=True)
                        small = shrink(exe, case, wdir, f0['dir']) if (do_shrink and not skip) else case
                        # re-evaluate the minimised case to get its failing point
                        m2, g2, r2 = run_converter(exe, small, wdir, 'min')
                        cl2 = classify_run(r2)
                        res2 = check_equiv(m2, g2, cl2[1], small['cfg'], budget_s=30.0) if cl2[0] == 'delivered' else {'failures': []}
                        fs = [f for f in res2['failures'] if f['dir'] == f0['dir']]
                        if not fs:
                            small, fs = case, [f0]
                        sig, info = diagnose(exe, small, wdir, fs[0])
                        if sig.split(':')[0] in ('unsound', 'incomplete', 'objective', 'objective-unattained'):
                            cf = const_fold_class(exe, small, wdir)
                            if not cf:
                                dist, nrw = distribute_constants(small)
                                if nrw and not any_failure(exe, dist, wdir, ignore_crash=True):
                                    cf = 'multiplyout-const-times-sum'
                            if cf:
                                info['fallback_sig'] = sig
                                sig = cf
                        # a failing point whose culprit definition also shows a CtxCovers gap on the recorded contexts is a
                        # context propagation / merge defect (not one of the conversion-time classes): own signature
                        try:
                            import c01_gadgets
                            mv, _gv = c01gen.model_from_json(small['model'])
                            vstub = os.path.join(wdir, 'val')
                            mv.write(vstub, names=False)
                            v2 = c01_gadgets.validate_model(exe, vstub, small['cfg']['options'], len(mv.vars),
                                                            quadobj=small['cfg'].get('quadobj', 1))
                            if v2.get('status') == 'ok' and v2.get('gaps'):
                                culprit_vars = {str((c.get('data') or {}).get('res_var')) for c in (info.get('culprits') or [])}
                                culprit_vars |= {str(k[1]) for k in []}
                                hit = [g for g in v2['gaps'] if g.split(':')[0] in culprit_vars]
                                if hit or not culprit_vars:
                                    info['ctx_gaps'] = v2['gaps']
                                    info['fallback_sig'] = sig
                                    sig = 'ctx-merge-gap:' + '+'.join(sorted({g.split(':')[1] for g in (hit or v2['gaps'])}))
                        except Exception:
                            pass
                        out['sig'] = sig
                        out['case'] = small
                        out['orig_case'] = case if small is not case else None
                        out['failure'] = _jsonable(fs[0])
                        out['diag'] = _jsonable(info)
    except Exception:
        out['status'] = 'check-error'
        out['what'] = traceback.format_exc()[-1500:]
        out['case'] = case
    out['t'] = round(time.time() - t0, 3)
    return out


def _jsonable(o):
    if isinstance(o, F):
        return c01gen.fr(o)
    if isinstance(o, dict):
        return {str(k): _jsonable(v) for k, v in o.items()}
    if isinstance(o, (list, tuple)):
        return [_jsonable(v) for v in o]
    if isinstance(o, float):
        return repr(o)
    return o


def model_text(case):
    """human-readable rendering of a case for replay files"""
    M = case['model']

    def ex(j):
        k = j[0]
        if k == 'n':
            return j[1]
        if k == 'v':
            return 'x%d' % j[1]
        if k in ('T', 'F'):
            return 'true' if k == 'T' else 'false'
        if k in c01gen.LIST_OPS:
            return '%s(%s)' % (k, ', '.join(ex(a) for a in j[1]))
        if k == 'numberof':
            return 'numberof %s in (%s)' % (ex(j[1]), ', '.join(ex(a) for a in j[2]))
        if k == 'pl':
            return '<<%s; %s>> x%d' % (', '.join(j[2]), ', '.join(j[1]), j[3])
        if k == 'if':
            return '(if %s then %s else %s)' % (ex(j[1]), ex(j[2]), ex(j[3]))
        if k == 'implies':
            return '(%s ==> %s else %s)' % (ex(j[1]), ex(j[2]), ex(j[3]))
        sym = {'+': '+', '-': '-', '*': '*', '/': '/', 'lt': '<', 'le': '<=', 'eq': '==', 'ge': '>=', 'gt': '>', 'ne': '!=',
               'and': '&&', 'or': '||', 'iff': '<==>'}
        if k in sym and len(j) == 3:
            return '(%s %s %s)' % (ex(j[1]), sym[k], ex(j[2]))
        return '%s(%s)' % (k, ', '.join(ex(a) for a in j[1:]))
    L = []
    for i, v in enumerate(M['vars']):
        L.append('var x%d %s in [%s, %s];  # grid %s' % (i, 'integer' if v['int'] else '', v['lb'], v['ub'], ' '.join(v['grid'])))
    for o in M['objs']:
        lin = ' + '.join('%s*x%s' % (c, j) for j, c in o['lin'].items())
        L.append('%s: %s' % ('minimize' if o['sense'] == 'min' else 'maximize', ' + '.join(t for t in (lin, ex(o['nl']) if o['nl'] else '') if t)))
    for c in M['cons']:
        lin = ' + '.join('%s*x%s' % (cf, j) for j, cf in c['lin'].items())
        body = ' + '.join(t for t in (lin, ex(c['nl']) if c['nl'] else '') if t)
        L.append('s.t. %s <= %s <= %s' % (c['lb'] if c['lb'] is not None else '-inf', body, c['ub'] if c['ub'] is not None else 'inf'))
    for l in M['lcons']:
        L.append('s.t. ' + ex(l))
    for s in M.get('sos', []):
        L.append('SOS%d vars %s ref %s' % (s['type'], s['vars'], s['ref']))
    return L


# ------------------------------------------------------------------ the check
def load_corpus():
    cases = []
    for f in sorted(glob.glob(os.path.join(VERIF, 'corpus', 'C01', '*.json'))):
        try:
            J = json.load(open(f))
            J['case']['id'] = 'corpus:' + os.path.basename(f)
            J['case']['expect_sig'] = J.get('signature')
            cases.append(J['case'])
        except Exception as e:
            cases.append({'bad_corpus_file': f, 'err': repr(e)})
    return cases


def run(ck):
    from multiprocessing import Pool
    try:
        import c01_gadgets
    except ImportError:
        c01_gadgets = None
    cov_mode = bool(os.environ.get('VERIF_COVERAGE'))
    if cov_mode:
        import c01_cov
        c01_cov.build_cov(ck)
        c01_cov.reset_counters()
        os.environ.setdefault('C01_BUDGET_S', '1500')
        os.environ.setdefault('C01_MAX_CASES', '2304')      # what a quick run gets through (seed 1: ~2300 cases)
    if c01_gadgets is not None:
        if not cov_mode:
            # round 8: the bounds every PropagateResult overload of constr_prop_down.h hands down, translated to executable Lean from the
            # tree under test; MpVerif/C01/PropsPropBounds.lean proves them equal to the propagation rule of the reference converter
            pb = ('MpVerif.C01.PropsPropBounds', 'MpVerif/C01/PropsPropBounds.lean', 9)
            if pb not in c01_gadgets.EXTRA_MODULES:
                c01_gadgets.EXTRA_MODULES.insert(len(c01_gadgets.EXTRA_MODULES) - 1, pb)
            r = subprocess.run([sys.executable, os.path.join(VERIF, 'translators', 'gen_propbounds.py'), REPO,
                                os.path.join(LEAN, 'MpVerif', 'Gen', 'C01PropBounds.lean')], capture_output=True, text=True, timeout=300)
            ck.log((r.stdout.strip() or r.stderr.strip())[-300:])
            if r.returncode != 0:
                ck.add_violation('obligation:C01_gen_propbounds', 'translators/gen_propbounds.py could not translate the bounds passed by '
                                 'PropagateResult in include/mp/flat/constr_prop_down.h: %s' % (r.stdout + r.stderr)[-400:], {}, found_input=False)
        res = c01_gadgets.run_gadgets(ck, proof=not cov_mode)
        if hasattr(c01_gadgets, 'report'):
            c01_gadgets.report(ck, res)
    else:
        ck.log('stage A (gadget theorems, checks/c01_gadgets.py) not present in this tree: end-to-end stage only')
        ck.cov.setdefault('obligations', 0)
        ck.cov.setdefault('discharged', 0)
        ck.level = 'exploration'
    run_e2e(ck)
    if cov_mode:
        prev = None
        pj = os.path.join(VERIF, 'design_notes', 'coverage', 'C01.json')
        if os.path.exists(pj):
            old = json.load(open(pj))
            prev = old.get('before') or {k: old[k] for k in ('anchor_line_cov', 'anchor_branch_cov', 'per_file') if k in old}
            if os.environ.get('C01_COV_BASELINE'):
                prev = None
        lines, branches, funcs = c01_cov.collect(ck)
        e2e = ck.cov.get('e2e') or {}
        summ = c01_cov.report(ck, lines, branches, funcs,
                              {'gadget_cases': (res.get('stats') or {}).get('runs') if c01_gadgets is not None else None,
                               'e2e_cases': e2e.get('cases'), 'seed': ck.seed, 'profiles': e2e.get('profiles')}, before=prev)
        ck.log('COVERAGE of the anchored files: lines %.1f %%, branches %.1f %% -> design_notes/coverage/C01.generated.md'
               % (summ['anchor_line_cov'], summ['anchor_branch_cov']))
    else:
        pj = os.path.join(VERIF, 'design_notes', 'coverage', 'C01.json')
        if os.path.exists(pj):
            try:
                cj = json.load(open(pj))
                ck.cov['anchor_line_cov'] = cj.get('anchor_line_cov')
                ck.cov['anchor_branch_cov'] = cj.get('anchor_branch_cov')
                ck.cov['anchor_cov_note'] = 'measured by VERIF_COVERAGE=1 ./check C01 on %s (repo %s), see design_notes/coverage/C01.md' % (cj.get('measured'), cj.get('repo_head'))
            except Exception:
                pass


def run_e2e(ck):
    from multiprocessing import Pool
    t_start = time.time()
    import c01_gadgets as _cg
    exe = _cg.rec_exe(ck)
    ck.log('recsolver built/cached: %s (%.1fs)' % (os.path.basename(exe), time.time() - t_start))
    wbase = os.path.join(BUILD, 'c01work')
    shutil.rmtree(wbase, ignore_errors=True)
    os.makedirs(wbase, exist_ok=True)
    # thorough: whole check (stage A ~1-2 min + this) stays under 15 min
    budget = float(os.environ.get('C01_BUDGET_S', 36 if ck.tier == 'quick' else 720))   # quick: the whole check (stage A ~25 s) stays near 60 s warm
    t_build = time.time() - t_start
    if ck.tier == 'quick' and t_build > 60 and 'C01_BUDGET_S' not in os.environ:
        budget = 60.0                      # cold build: keep the whole quick tier near 3 minutes
    t_start = time.time()                  # the budget counts the end-to-end stage only
    ncases_max = int(os.environ.get('C01_MAX_CASES', 100000))
    corpus = load_corpus()
    agg = Agg()
    pool = Pool(WORKERS)
    try:
        # corpus first
        good = [c for c in corpus if 'model' in c]
        for c in corpus:
            if 'model' not in c:
                ck.add_violation('corpus-unreadable', 'corpus file unreadable: %s' % c, c, found_input=False)
        for out in pool.imap_unordered(process_case, [(exe, c, wbase, ck.tier, False) for c in good]):
            agg.add(out, ck, corpus=True)
        ck.log('corpus: %d cases, %d reproduce their recorded failure' % (len(good), agg.corpus_repro))
        # generated cases, in batches until the time budget is used
        idx = 0
        batch = 64 if ck.tier == 'quick' else 256
        while time.time() - t_start < budget and idx < ncases_max:
            cases = [c01gen.gen_case(ck.seed, idx + k, ck.tier) for k in range(batch)]
            idx += batch
            for out in pool.imap_unordered(process_case, [(exe, c, wbase, ck.tier, True) for c in cases], chunksize=2):
                agg.add(out, ck)
    finally:
        pool.terminate()
        pool.join()
    agg.report(ck, time.time() - t_start)
    shutil.rmtree(wbase, ignore_errors=True)


class Agg:
    def __init__(self):
        self.n = 0
        self.status = {}
        self.ops = {}
        self.ctx = {}
        self.depth = {}
        self.shared = 0
        self.shared_diff = 0
        self.negnl = 0
        self.conv = {}
        self.deliv = {}
        self.ctx_deliv = {}
        self.refusals = {}
        self.points = self.feasible = self.undecided = self.eps_excl = self.objchk = self.unver = self.enumchk = 0
        self.truncated = 0
        self.models_checked = 0
        self.models_mixed = 0          # both feasible and infeasible grid points
        self.sigs = {}
        self.corpus_repro = 0
        self.profiles = {}
        self.time = 0.0
        self.naux = {}
        self.val = {'validated': 0, 'covered': 0, 'ctx_gap': 0, 'not_wf': 0, 'outside': {}, 'unproved_conversions': {},
                    'other_status': {}, 'gap_examples': [], 'covered_but_failed': 0, 'gap_and_failed': 0,
                    'with_objective': 0, 'obj_covered': 0, 'obj_gap': 0, 'obj_gap_examples': []}

    def add(self, out, ck, corpus=False):
        self.n += 1
        st = out['status']
        self.status[st] = self.status.get(st, 0) + 1
        self.time += out.get('t', 0)
        self.profiles[out.get('profile')] = self.profiles.get(out.get('profile'), 0) + 1
        v = out.get('validation')
        if v and not corpus:
            V = self.val
            if v.get('status') != 'ok':
                V['other_status'][v.get('status')] = V['other_status'].get(v.get('status'), 0) + 1
            else:
                V['validated'] += 1
                for rsn in v.get('outside') or []:
                    V['outside'][rsn] = V['outside'].get(rsn, 0) + 1
                for k in v.get('unproved_conversions') or []:
                    V['unproved_conversions'][k] = V['unproved_conversions'].get(k, 0) + 1
                if not v.get('wf'):
                    V['not_wf'] += 1
                if v.get('gaps'):
                    V['ctx_gap'] += 1
                    if len(V['gap_examples']) < 6:
                        V['gap_examples'].append({'case': out.get('id'), 'gaps': v['gaps'][:6], 'oracle_status': st})
                    if st == 'fail':
                        V['gap_and_failed'] += 1
                covered = v.get('wf') and not v.get('gaps') and not v.get('outside') and not v.get('unproved_conversions')
                if v.get('objgaps') is not None:          # hypothesis ObjCovers of C01_compose_objective
                    V['with_objective'] += 1
                    if v['objgaps']:
                        V['obj_gap'] += 1
                        if len(V['obj_gap_examples']) < 6:
                            V['obj_gap_examples'].append({'case': out.get('id'), 'objgaps': v['objgaps'][:6], 'oracle_status': st})
                    elif covered:
                        V['obj_covered'] += 1
                if covered:
                    V['covered'] += 1
                    if st == 'fail':
                        V['covered_but_failed'] += 1
        s = out.get('stats')
        if s:
            for k, v in s['ops'].items():
                self.ops[k] = self.ops.get(k, 0) + v
            for k, v in s['ctx'].items():
                self.ctx[k] = self.ctx.get(k, 0) + v
            self.depth[s['depth']] = self.depth.get(s['depth'], 0) + 1
            self.shared += 1 if s['shared'] else 0
            self.shared_diff += 1 if s['shared_diff_ctx'] else 0
            self.negnl += 1 if s['negcoef_nonlinear'] else 0
        for k, v in (out.get('conv') or {}).items():
            h = self.conv.setdefault(k, [0, 0, 0])
            for i in range(3):
                h[i] += v[i]
        for k, v in (out.get('delivered_types') or {}).items():
            self.deliv[k] = self.deliv.get(k, 0) + v
        for k, v in (out.get('ctx_delivered') or {}).items():
            self.ctx_deliv[k] = self.ctx_deliv.get(k, 0) + v
        if st == 'refused':
            self.refusals[out['refusal']] = self.refusals.get(out['refusal'], 0) + 1
            if out['refusal'] == 'other':
                ck.sample('refusal(other): ' + out.get('diag', '')[:160])
        r = out.get('res')
        if r:
            self.models_checked += 1
            self.points += r['points']
            self.feasible += r['feasible']
            self.undecided += r['undecided']
            self.eps_excl += r['eps_excluded']
            self.objchk += r['obj_checked']
            self.unver += r['witness_unverified']
            self.enumchk += r['enum_checked']
            self.truncated += 1 if r['truncated'] else 0
            if 0 < r['feasible'] < r['points']:
                self.models_mixed += 1
            na = min(out.get('naux', 0), 40) // 5 * 5
            self.naux[na] = self.naux.get(na, 0) + 1
        if st == 'fail':
            sig = out['sig']
            self.sigs[sig] = self.sigs.get(sig, 0) + 1
            if corpus and out['case'].get('expect_sig') == sig:
                self.corpus_repro += 1
            f = out.get('failure') or {}
            replay = {'how': 'python3 checks/c01.py --replay <this file>  (or ./check C01 --replay <file>): writes the NL model, runs '
                             'harness/recsolver with the options/acceptance below and re-evaluates the point',
                      'model_text': model_text(out['case']), 'options': out['case']['cfg']['options'],
                      'accept': out['case']['cfg']['accept'], 'quadobj': out['case']['cfg'].get('quadobj'),
                      'point': f.get('point'), 'direction': f.get('dir'), 'what': f.get('what'),
                      'aux_witness': f.get('witness'), 'orig_obj': f.get('orig_obj'), 'deliv_obj': f.get('deliv_obj'),
                      'diagnosis': out.get('diag'), 'case': out['case'], 'unshrunk_case': out.get('orig_case')}
            what = '%s at point %s: %s [%s]' % (f.get('dir'), f.get('point'), f.get('what'), '; '.join(model_text(out['case'])[-3:]))
            ck.add_violation(sig, what, replay, found_input=True)
            self.save_found(sig, what, replay, out)
            if self.sigs[sig] == 1:
                ck.sample('finding %s: %s' % (sig, what[:300]))
        elif st in ('bad-refusal', 'crash'):
            sig = ('crash:segv:' if st == 'crash' else st + ':') + (out.get('frame') or model_ops_key(out['case']))
            if corpus and out['case'].get('expect_sig') == sig:
                self.corpus_repro += 1
            self.sigs[sig] = self.sigs.get(sig, 0) + 1
            self.save_found(sig, out.get('what', '').split('\n')[0][:200], {'model_text': model_text(out['case']), 'options': out['case']['cfg']['options'],
                                                                              'accept': out['case']['cfg']['accept']}, out)
            ck.add_violation(sig, '%s [%s]' % (out.get('what', '').split('\n')[0][:200], '; '.join(model_text(out['case']))),
                             {'model_text': model_text(out['case']), 'options': out['case']['cfg']['options'],
                              'accept': out['case']['cfg']['accept'], 'case': out.get('case'), 'what': out.get('what'),
                              'unshrunk_case': out.get('orig_case')}, found_input=True)
        elif st in ('check-error', 'oracle-internal'):
            ck.add_violation(st, 'the check itself failed on a case: %s' % out.get('what', '')[:400],
                             {'case': out.get('case'), 'what': out.get('what')}, found_input=False)
        elif st == 'unsupported-type':
            ck.add_violation('unsupported-delivered-type', 'delivered constraint type without semantics in the oracle: %s' % out.get('what'),
                             {'case': out.get('case')}, found_input=False)

    def save_found(self, sig, what, replay, out):
        """every run keeps the smallest case seen per signature under build/c01-findings/ (also for known findings,
        whose replay objects common.py does not store); corpus/C01 entries are copied from there by hand"""
        try:
            d = os.path.join(BUILD, 'c01-findings')
            os.makedirs(d, exist_ok=True)
            name = ''.join(ch if ch.isalnum() or ch in '-_+' else '_' for ch in sig)[:80]
            path = os.path.join(d, name + '.json')
            size = len(json.dumps(out['case']['model']))
            if os.path.exists(path):
                try:
                    if json.load(open(path)).get('size', 1 << 30) <= size:
                        return
                except Exception:
                    pass
            json.dump({'signature': sig, 'what': what, 'size': size, 'case': out['case'], 'replay': replay}, open(path, 'w'), indent=1, default=str)
        except Exception:
            pass

    def report(self, ck, wall):
        ck.log('end-to-end: %d cases in %.1fs wall (%.1f cpu-s), status %s' % (self.n, wall, self.time, dict(sorted(self.status.items()))))
        ck.log('  models checked on their whole grid: %d (%d with both feasible and infeasible points); points %d (feasible %d, eps-excluded %d, objective checked %d, undecided %d, unverified witnesses %d, enumeration cross-checks %d, truncated models %d)' %
               (self.models_checked, self.models_mixed, self.points, self.feasible, self.eps_excl, self.objchk, self.undecided, self.unver, self.enumchk, self.truncated))
        ck.log('  operators: %s' % dict(sorted(self.ops.items(), key=lambda kv: -kv[1])))
        ck.log('  nesting depth: %s; models with shared subexpressions %d, shared in different contexts %d, negative coefficient on nonlinear subterm %d' %
               (dict(sorted(self.depth.items())), self.shared, self.shared_diff, self.negnl))
        ck.log('  NL-side contexts (op:ctx): %s' % dict(sorted(self.ctx.items())))
        ck.log('  conversions per flat type [delivered, converted, unused]: %s' % dict(sorted(self.conv.items())))
        ck.log('  delivered native functional constraints by ctx: %s' % dict(sorted(self.ctx_deliv.items())))
        ck.log('  refusal kinds: %s' % dict(sorted(self.refusals.items())))
        ck.log('  failure signatures: %s' % dict(sorted(self.sigs.items())))
        V = self.val
        ck.log('  C01_compose hypotheses on recorded (pre-conversion) contexts, decided by the Lean validator: %d models validated; '
               '%d fully inside the theorem (WF, CtxCovers incl. quadratic roots, linear/quadratic/logical roots, every conversion has a proved gadget); %d with a context gap '
               '(%d of them also fail the oracle); %d not in creation order; outside: %s; unproved conversions used: %s; '
               'inside the theorem but failing the oracle (late contexts / map reuse): %d; validator not applicable: %s'
               % (V['validated'], V['covered'], V['ctx_gap'], V['gap_and_failed'], V['not_wf'], dict(sorted(V['outside'].items())),
                  dict(sorted(V['unproved_conversions'].items())), V['covered_but_failed'], V['other_status']))
        for ex in V['gap_examples'][:3]:
            ck.log('    context gap example: %s' % ex)
        ck.log('  C01_compose_objective: %d validated models have an objective; ObjCovers decided by the Lean validator (objGaps): '
               '%d fully inside the objective theorem, %d with an objective context gap %s'
               % (V['with_objective'], V['obj_covered'], V['obj_gap'], V['obj_gap_examples'][:2]))
        # stage A (gadgets) may already have filled these four; add the end-to-end counters
        ck.cov['evaluations'] = int(ck.cov.get('evaluations') or 0) + self.points
        ck.cov['distinct_nontrivial'] = int(ck.cov.get('distinct_nontrivial') or 0) + self.models_mixed
        rule = 'end-to-end: models whose grid has both NL-feasible and NL-infeasible points and whose delivered model was decided at every grid point'
        ck.cov['rule'] = (ck.cov['rule'] + '; ' + rule) if ck.cov.get('rule') else rule
        ck.cov['traces_validated_against_impl'] = int(ck.cov.get('traces_validated_against_impl') or 0) + self.models_checked
        ck.cov['exhaustive'] = False
        ck.cov['e2e'] = {
            'cases': self.n, 'status': self.status, 'models_checked': self.models_checked, 'models_mixed': self.models_mixed,
            'grid_points': self.points, 'feasible_points': self.feasible, 'eps_excluded_points': self.eps_excl,
            'objective_points': self.objchk, 'undecided_queries': self.undecided, 'unverified_witnesses': self.unver,
            'enum_crosschecks': self.enumchk, 'operators': self.ops, 'depth': self.depth, 'models_with_sharing': self.shared,
            'models_shared_in_different_ctx': self.shared_diff, 'models_negcoef_nonlinear': self.negnl, 'nl_contexts': self.ctx,
            'conversions_per_type_delivered_converted_unused': self.conv, 'delivered_types': self.deliv,
            'delivered_functional_ctx': self.ctx_deliv, 'refusal_kinds': self.refusals, 'failure_signatures': self.sigs,
            'profiles': self.profiles, 'aux_count_hist': self.naux, 'corpus_reproduced': self.corpus_repro,
            'compose_validation': self.val,
        }
        ck.assumptions += [
            'delivered functional constraints accepted natively mean res == f(args) (context-independent), 0/1 truth = value >= 1/2',
            'strict / negated comparisons over continuous expressions follow the documented cvt:cmp:eps semantics: grid points where some '
            'comparison has 0 < |lhs-rhs| < eps are excluded from the completeness and objective directions (counted: eps_excluded_points); '
            'eps is always given explicitly as a dyadic value (the default 1e-4 is not a dyadic double and is not exercised)',
            'the original domain is gridded (integers: every value; continuous: bounds, zero and half-integer steps); equivalence between grid points is not checked',
            'z3 4.x decides the existence of auxiliaries (every sat witness re-evaluated exactly in Python; unsat answers cross-checked by enumeration in thorough tier where auxiliaries are small-domain integers)',
            'runs in which the converter introduced a PL *approximation* (pow/exp/log) are outside the exact fragment and skipped (counted as status approximated)',
            'runs whose delivered model contains non-integer constants with a mantissa longer than 34 bits (double roundings of non-dyadic reals: sqrt(2)^2 in the cone -> quadratic conversion, 1/3, ...) are skipped (status rounded-constants): exact arithmetic on rounded irrational data is not the property',
        ]
        ck.cov['trusted_base'] += ['harness/recsolver RecModelAPI log = what a solver API receives (C20 cross-checks it against the graph export)',
                                   'gen/nlgen.py exact evaluator = NL semantics of the fragment', 'z3 (python3 z3-solver)']


def replay(ck, path):
    J = json.load(open(path))
    case = (J.get('replay') or J).get('case') or J['case']
    exe = recsolver.build(ck, flags=('-O1',))
    wbase = os.path.join(BUILD, 'c01work')
    os.makedirs(wbase, exist_ok=True)
    out = process_case((exe, case, wbase, 'thorough', False))
    print(json.dumps({k: out.get(k) for k in ('status', 'sig', 'dirs', 'failure', 'res', 'what')}, indent=1, default=str))
    for l in model_text(case):
        print('   ', l)
    agg = Agg()
    agg.add(out, ck)
    return ck.finish()

"""Attribution of Lean error lines to declarations, with declaration spans that START AT THE DOC COMMENT.

Lean reports some errors of a declaration (e.g. a failing `theorem T : a = b := rfl`, "Not a definitional equality")
at the first line of the declaration *including its `/-- … -/` doc comment*.  `common.Check.failing_decls` maps an
error line to the last `theorem|def|…` keyword line at or before it, and therefore blames the PRECEDING declaration
for such an error.  `failing_decls_spans` is a drop-in replacement: same arguments (plus the lean directory), same
result shape (list of declaration names, `<file>:<line>` for lines outside every declaration).

    from failing_spans import failing_decls_spans
    names = failing_decls_spans(lake_output, 'MpVerif/C12/Props.lean', LEAN)
"""
import os, re

DECL = re.compile(r'^\s*(?:@\[[^\]]*\]\s*)?(?:private\s+|protected\s+|noncomputable\s+)*'
                  r'(theorem|lemma|example|def|instance|abbrev|structure|inductive|c\d\d_\w+)\b\s*([\w.\']+)?')   # c17_… = C17's theorem macro


def decl_spans(path):
    """[(first line incl. doc comment / attributes, keyword line, name)] for every declaration of the file, in order"""
    lines = open(path).read().split('\n')
    spans = []
    doc_start = None         # first line of a pending `/-- … -/` (or of a pending attribute line)
    in_doc = False
    in_block = 0             # depth of ordinary `/- … -/` comments (ignored)
    for i, ln in enumerate(lines, 1):
        s = ln.strip()
        if in_doc:
            if '-/' in s:
                in_doc = False
            continue
        if in_block:
            in_block += s.count('/-') - s.count('-/')
            in_block = max(in_block, 0)
            continue
        if s.startswith('/--'):
            if doc_start is None:
                doc_start = i
            if '-/' not in s[3:]:
                in_doc = True
            continue
        if s.startswith('/-'):
            if s.count('/-') > s.count('-/'):
                in_block = s.count('/-') - s.count('-/')
            continue
        if s.startswith('@[') and not DECL.match(ln):
            if doc_start is None:
                doc_start = i
            continue
        m = DECL.match(ln)
        if m:
            name = m.group(2) or '%s@%d' % (m.group(1), i)
            spans.append((doc_start if doc_start is not None else i, i, name))
            doc_start = None
        elif s and not s.startswith('--'):
            doc_start = None     # a doc comment must be directly followed by its declaration
    return spans


def failing_decls_spans(output, relfile, lean_dir):
    """names of the declarations of lean/<relfile> that contain the error lines found in `output`"""
    spans = decl_spans(os.path.join(lean_dir, relfile))
    bad = []
    for m in re.finditer(r'error: ' + re.escape(relfile) + r':(\d+):(\d+):', output):
        ln = int(m.group(1))
        cur = None
        for start, _, name in spans:
            if start <= ln:
                cur = name
            else:
                break
        cur = cur or '%s:%d' % (relfile, ln)
        if cur not in bad:
            bad.append(cur)
    return bad

"""C16 — GSL bindings return consistent derivatives or an explicit error (claimed: partial).

1. translators/tr_gsl.py regenerates lean/MpVerif/Gen/GslSkel.lean from $MP_REPO/src/gsl/amplgsl.cc
2. proof obligations: soundness of the discipline analysis + `decide` of the analysis over the generated table
3. harness/h_gsl.cc: every registered function pointer of the real code (UBSan build, linked with libgsl)
   x generated arguments x modes x dig: property oracle (returns, deterministic, no silent NaN / unset
   partial, derivatives vs. Richardson/Ridders differences of the binding's own values)
4. correspondence: every observed call must be explained by the generated skeleton (lean driver)
"""
import os, sys, json, re, subprocess, hashlib, shutil, time
from common import *

GEN = os.path.join(LEAN, 'MpVerif', 'Gen', 'GslSkel.lean')
N_THEOREMS = 7


def enclosing_function(src_lines, line):
    """name of the function (or function-defining macro use) the 1-based source line belongs to"""
    for i in range(min(line, len(src_lines)) - 1, -1, -1):
        t = src_lines[i]
        m = re.match(r'static\s+[\w\s\*]+?\b(\w+)\s*\(\s*arglist\s*\*', t)
        if m:
            return m.group(1)
        m = re.match(r'(WRAP\w*|DEBYE)\((\w+)', t)
        if m and i == line - 1:
            return 'ampl' + m.group(2) if m.group(1) != 'DEBYE' else 'amplgsl_sf_debye_' + m.group(2)
        if re.match(r'#define\s+(WRAP\w*|CHECK_CALL|DEBYE)', t):
            return 'macro:' + t.split()[1].split('(')[0]
    return '?'


def undisciplined(ck):
    """ask Lean which generated skeletons fail the analysis (used when the table theorem no longer checks)"""
    script = os.path.join(BUILD, 'c16_undisciplined.lean')
    open(script, 'w').write('import MpVerif.C16.Analysis\nimport MpVerif.Gen.GslSkel\nopen MpVerif.C16 MpVerif.Gen.GslSkel\n'
                            '#eval (registered.filter (fun e => !disciplined e.body e.nargs)).map (·.name)\n'
                            '#eval errorHandlerOffFirst\n')
    ok, out = ck.lake(['MpVerif.C16.Analysis', 'MpVerif.Gen.GslSkel'])
    if not ok:
        return None, None
    with LakeLock():
        rc, out, err = sh(['lake', 'env', 'lean', script], cwd=LEAN, timeout=900)
    m = re.search(r'\[(.*?)\]', out, re.S)
    names = re.findall(r'"(\w+)"', m.group(1)) if m else None
    return names, ('true' in out.split(']')[-1]) if m else None


def build_harness(ck):
    flags = ['-O1', '-g', '-fsanitize=undefined,float-cast-overflow', '-fsanitize-recover=all']
    shim = os.path.join(VERIF, 'harness', 'shim')
    objs = ck.objects([os.path.join(REPO, 'src', 'gsl', 'amplgsl.cc'), os.path.join(VERIF, 'harness', 'h_gsl.cc')],
                      flags=flags, extra_inc=[shim], tag='gsl')
    # src/gsl/default.c replaces GSL's gsl_rng_env_setup (keeps the seed AMPL handed over): part of the library as shipped
    objs += ck.objects([os.path.join(REPO, 'src', 'gsl', 'default.c')], flags=['-O1', '-g'], extra_inc=[shim], cxx='gcc', std='gnu11', tag='gslc')
    return ck.link('h_gsl', objs, flags=['-fsanitize=undefined,float-cast-overflow'], libs=['-lgsl', '-lgslcblas', '-lm'])


def build_gsl_info(ck):
    """src/gsl/gsl-info.cc (the program that writes gsl.ampl) linked with the same amplgsl.cc"""
    shim = os.path.join(VERIF, 'harness', 'shim')
    objs = ck.objects([os.path.join(REPO, 'src', 'gsl', 'amplgsl.cc'), os.path.join(REPO, 'src', 'gsl', 'gsl-info.cc')],
                      flags=['-O1', '-g'], extra_inc=[shim], tag='gslinfo')
    objs += ck.objects([os.path.join(REPO, 'src', 'gsl', 'default.c')], flags=['-O1', '-g'], extra_inc=[shim], cxx='gcc', std='gnu11', tag='gslc')
    return ck.link('gsl_info', objs, libs=['-lgsl', '-lgslcblas', '-lm'])


RNGENV = [('default', {}), ('seed-env', {'GSL_RNG_SEED': '99'}), ('type-env', {'GSL_RNG_TYPE': 'taus'}),
          ('type-and-seed-env', {'GSL_RNG_TYPE': 'taus', 'GSL_RNG_SEED': '99'}), ('invalid-type', {'GSL_RNG_TYPE': 'nosuch'})]


def rngenv_oracle(ck, exe):
    """src/gsl/default.c: GSL_RNG_TYPE selects the generator; GSL_RNG_SEED matters exactly when AMPL's seed is 0"""
    res = {}
    for tag, env in RNGENV:
        e = {k: v for k, v in os.environ.items() if not k.startswith('GSL_RNG_')}
        e.update(env)
        p = subprocess.run([exe, 'rngenv'], capture_output=True, text=True, env=e, timeout=60)
        rows = dict(re.findall(r'seed (\d+): (.*)', p.stdout))
        res[tag] = (p.returncode, rows)
    d = res['default'][1]
    def bad(sig, what):
        ck.add_violation(sig, what, {'observed': {k: v for k, v in res.items()}, 'cmd': 'GSL_RNG_TYPE=.. GSL_RNG_SEED=.. %s rngenv' % exe})
    if res['default'][0] != 0 or len(d) != 2:
        bad('rng-env:default-run-failed', 'h_gsl rngenv failed without any GSL_RNG_* variable: rc=%s' % res['default'][0])
        return res
    if d['0'] == d['5']:
        bad('rng-seed-ignored:rngenv', 'seeds 0 and 5 give the same variates')
    s = res['seed-env'][1]
    if s.get('5') != d['5']:
        bad('rng-env:GSL_RNG_SEED-overrides-ampl-seed', 'GSL_RNG_SEED changed the stream although AMPL supplied the non-zero seed 5')
    if s.get('0') == d['0']:
        bad('rng-env:GSL_RNG_SEED-ignored', 'GSL_RNG_SEED=99 has no effect when AMPL supplies seed 0')
    t = res['type-env'][1]
    if t.get('5') == d['5']:
        bad('rng-env:GSL_RNG_TYPE-ignored', 'GSL_RNG_TYPE=taus gives the same stream as the default generator')
    if res['invalid-type'][0] != 0:
        bad('rng-env:invalid-GSL_RNG_TYPE-kills-process', 'with GSL_RNG_TYPE=nosuch funcadd_ASL does not return: rc=%s (gsl_rng_alloc(NULL) in rng_init)' % res['invalid-type'][0])
    ck.cov['rng_env_variants_observed'] = {k: v[0] for k, v in res.items()}
    return res


def gsl_info_oracle(ck, meta):
    """gsl-info must declare exactly the functions funcadd_ASL registers, with the right attribute"""
    exe = build_gsl_info(ck)
    d = os.path.join(BUILD, 'c16', 'gslinfo')
    os.makedirs(d, exist_ok=True)
    p = subprocess.run([exe], cwd=d, capture_output=True, text=True, timeout=60)
    got = []
    f = os.path.join(d, 'gsl.ampl')
    if p.returncode == 0 and os.path.exists(f):
        got = re.findall(r'^function (\w+)( random| symbolic)?;$', open(f).read(), re.M)
    attr = {'FUNCADD_REAL_VALUED': '', 'FUNCADD_STRING_VALUED': ' symbolic', 'FUNCADD_RANDOM_VALUED': ' random'}
    want = [(a, attr.get(t, '?')) for a, c, t, n in meta.get('registered', [])]
    ck.cov['gsl_info_declarations'] = len(got)
    if want and got != want:
        diff = [x for x in want if x not in got][:3] + [x for x in got if x not in want][:3]
        ck.add_violation('gsl-info-declarations-differ', 'gsl.ampl written by gsl-info does not declare the registered functions (rc=%s): %s' % (p.returncode, diff),
                         {'first_differences': diff, 'stdout': p.stdout[-300:], 'cmd': exe}, found_input=True)


def run_harness(ck, exe, outdir, extra=()):
    cmd = [exe, ck.tier, str(ck.seed), outdir] + list(extra)
    limit = 420 if ck.tier == 'quick' else 2400
    try:
        p = subprocess.run(cmd, capture_output=True, text=True, timeout=limit)
        return p.returncode, p.stdout
    except subprocess.TimeoutExpired as e:
        return -999, (e.stdout.decode() if isinstance(e.stdout, bytes) else (e.stdout or ''))



# ---------------------------------------------------------------------------------------------------- coverage mode
ANCHOR_BUILT = ['src/gsl/amplgsl.cc', 'src/gsl/default.c', 'src/gsl/gsl-info.cc']
ANCHOR_NOT_BUILT = {'test/gsl-test.cc': 'needs ASL (solvers/asl.h) and gtest; not built in the pinned configuration, nothing of it can be executed here',
                    'test/function.h': 'helper of gsl-test.cc, needs ASL',
                    'test/function.cc': 'helper of gsl-test.cc, needs ASL'}
MECH_HELPERS = ['check_result', 'check_args', 'check_deriv_arg', 'check_bessel_args', 'eval_error', 'deriv_error', 'format_eval_error',
                'format_error', 'error', 'check_const_arg', 'check_int_arg', 'check_uint_arg', 'check_zero_func_args', 'check_coupling_args',
                'funcadd_ASL', 'rng_init', 'free_rng']


def classify_gap(fn, src, what, detail):
    """(class, reason) for one uncovered line / untaken branch"""
    if '(throw)' in detail:
        return 'a', 'exception edge of a call compiled at -O0 (C functions never throw)'
    if 'WRAP_DISCRETE' in src and 'DEFAULT_ARGS' not in src and what in ('branch 9', 'branch 11'):
        return 'a', 'WRAP_DISCRETE instantiated with a non-null name table whose entries from index 1 on are all non-null (hypergeometric) / has_names constant true: the other outcome cannot occur in this instantiation'
    if 'DEFAULT_ARGS' in src:
        return 'a', 'WRAP_DISCRETE instantiated with DEFAULT_ARGS = 0: the name loop is dead by construction in this instantiation'
    if 'x < -1 / M_E' in src or '*al->derivs = GSL_NAN;' in src:
        return 'a', 'dead: for x < -1/e the preceding CHECK_CALL already returned with an evaluation error'
    if 'ASLdate' in src:
        return 'b', 'needs a second AmplExports with an ASL date before 20120830 (no Addrandinit): then rng stays NULL; outside the supported ASL'
    if fn in ('format_error', 'error', 'deriv_error') and ('format_error' in src or 'va_' in src):
        return 'a', 'va_list plumbing edge, no decision'
    if 'gsl_rng_default == 0' in src or 'not recognized' in src or 'Valid generator' in src or 'fputc' in src or "(++i) % 4" in src or 'unknown generator' in src or 'fprintf (stderr, " %18s"' in src:
        return 'b', 'executed by the GSL_RNG_TYPE=nosuch run, but that process dies in gsl_rng_alloc(NULL) before gcov can flush its counters (finding C16-invalid-rng-type-env-crash)'
    if fn == 'main':
        return 'a', 'I/O failure paths of the gsl-info tool (unwritable directory); nothing to do with function evaluation'
    if fn in ('amplgsl_ran_landau', 'amplgsl_ran_ugaussian', 'amplgsl_ran_ugaussian_ratio_method') and 'WRAP(' in src:
        return 'a', 'zero-argument bindings: check_args cannot fail (no argument can be NaN)'
    if fn in ('amplgsl_sf_bessel_zero_J0', 'amplgsl_sf_bessel_zero_J1', 'amplgsl_sf_psi_1piy', 'amplgsl_sf_zetam1') and ('CHECK_CALL' in src or 'WRAP_CHECKED' in src):
        return 'b', 'defensive status test: the GSL routine returned GSL_SUCCESS for every argument probed (all unsigned s incl. 4e9; y from 0 to 1e300), no input known that makes it fail'
    if fn is None and ('for (t = t0' in src or 'int i = 0;' in src):
        return 'b', 'executed by the GSL_RNG_TYPE=nosuch run, but that process dies in gsl_rng_alloc(NULL) before gcov can flush its counters (finding C16-invalid-rng-type-env-crash)'
    if 'status != GSL_SUCCESS' in src or 'CHECK_CALL' in src or 'WRAP_CHECKED' in src:
        return 'c', 'GSL status branch of this binding not driven to both outcomes by the quick stream (reachable with other arguments)'
    return 'c', 'reachable with other arguments'


def parse_gcov(path):
    out = {'functions': {}, 'gaps': []}
    cur, lineno, src = None, 0, ''
    for l in open(path, errors='replace'):
        l = l.rstrip('\n')
        m = re.match(r'function (\S+) called (\d+) returned (\d+)% blocks executed (\d+)%', l)
        if m:
            nm = m.group(1)
            mm = re.match(r'_ZL?\d+([A-Za-z_0-9]+?)(P7arglist.*|Pv.*|PvS_m|v)?$', nm)
            cur = re.sub(r'(P7arglist.*|Pvm|Pv|v)$', '', re.sub(r'^_ZL?\d+', '', nm)) if nm.startswith('_Z') else nm
            out['functions'][cur] = {'called': int(m.group(2)), 'blocks': int(m.group(4))}
            continue
        m = re.match(r'\s*([\d#=\-]+)\*?:\s*(\d+):(.*)', l)
        if m:
            lineno, src = int(m.group(2)), m.group(3).strip()
            if m.group(1) in ('#####', '====='):
                out['gaps'].append((cur, lineno, src, 'line', 'not executed'))
            continue
        m = re.match(r'branch\s+(\d+) (never executed|taken (\d+))(.*)', l)
        if m and (m.group(2) == 'never executed' or m.group(3) == '0'):
            out['gaps'].append((cur, lineno, src, 'branch %s' % m.group(1), (m.group(2) + m.group(4)).strip()))
    return out


def coverage_mode(ck):
    """VERIF_COVERAGE=1 ./check C16: gcov of the anchored files under the quick-tier input stream"""
    cdir = os.path.join(BUILD, 'cov16')
    shutil.rmtree(cdir, ignore_errors=True)
    os.makedirs(os.path.join(cdir, 'out'))
    shim = os.path.join(VERIF, 'harness', 'shim')
    inc = ['-I', shim, '-I', os.path.join(VERIF, 'harness')]
    def cc(cmd):
        rc, out, err = sh(cmd, cwd=cdir, timeout=900)
        if rc != 0:
            raise RuntimeError('coverage build failed: %s\n%s' % (' '.join(cmd), err[-2000:]))
    cc(['g++', '-std=c++17', '--coverage', '-O0', '-g'] + inc + ['-c', os.path.join(REPO, 'src/gsl/amplgsl.cc'), '-o', 'amplgsl.o'])
    cc(['gcc', '-std=gnu11', '--coverage', '-O0', '-g'] + inc + ['-c', os.path.join(REPO, 'src/gsl/default.c'), '-o', 'default.o'])
    cc(['g++', '-std=c++17', '--coverage', '-O0', '-g'] + inc + ['-c', os.path.join(REPO, 'src/gsl/gsl-info.cc'), '-o', 'gsl-info.o'])
    cc(['g++', '-std=c++17', '-O1'] + inc + ['-c', os.path.join(VERIF, 'harness/h_gsl.cc'), '-o', 'h_gsl.o'])
    cc(['g++', '--coverage', 'amplgsl.o', 'default.o', 'h_gsl.o', '-o', 'h_gsl_cov', '-lgsl', '-lgslcblas', '-lm'])
    cc(['g++', '--coverage', 'amplgsl.o', 'default.o', 'gsl-info.o', '-o', 'gsl_info_cov', '-lgsl', '-lgslcblas', '-lm'])
    t0 = time.time()
    p = subprocess.run([os.path.join(cdir, 'h_gsl_cov'), 'quick', str(ck.seed), os.path.join(cdir, 'out')], capture_output=True, text=True, timeout=1800)
    ck.log('coverage: quick stream through the instrumented build: rc=%s %.0fs' % (p.returncode, time.time() - t0))
    for tag, env in RNGENV:
        e = {k: v for k, v in os.environ.items() if not k.startswith('GSL_RNG_')}
        e.update(env)
        subprocess.run([os.path.join(cdir, 'h_gsl_cov'), 'rngenv'], capture_output=True, env=e, timeout=60)
    subprocess.run([os.path.join(cdir, 'gsl_info_cov')], cwd=os.path.join(cdir, 'out'), capture_output=True, timeout=60)
    summary, report = {}, {}
    for f in ANCHOR_BUILT:
        rc, out, err = sh(['gcov-12', '-b', '-c', '-o', '.', os.path.join(REPO, f)], cwd=cdir, timeout=600)
        m = re.search("File '" + re.escape(os.path.join(REPO, f)) + r"'\nLines executed:([\d.]+)% of (\d+)\nBranches executed:([\d.]+)% of (\d+)\nTaken at least once:([\d.]+)% of (\d+)", out)
        if not m:
            raise RuntimeError('no gcov summary for %s: %s' % (f, out[-500:] + err[-500:]))
        summary[f] = {'lines_pct': float(m.group(1)), 'lines': int(m.group(2)), 'branches_executed_pct': float(m.group(3)),
                      'branches': int(m.group(4)), 'branches_taken_pct': float(m.group(5))}
        report[f] = parse_gcov(os.path.join(cdir, os.path.basename(f) + '.gcov'))
    tl = sum(v['lines'] for v in summary.values())
    tb = sum(v['branches'] for v in summary.values())
    line_cov = sum(v['lines'] * v['lines_pct'] for v in summary.values()) / tl
    br_cov = sum(v['branches'] * v['branches_taken_pct'] for v in summary.values()) / tb
    cdoc = os.path.join(VERIF, 'design_notes', 'coverage')
    os.makedirs(cdoc, exist_ok=True)
    prev = {}
    jp = os.path.join(cdoc, 'C16.json')
    if os.path.exists(jp):
        prev = json.load(open(jp))
    classes = {'a': 0, 'b': 0, 'c': 0}
    md = ['# C16 — coverage of the anchored code under the quick-tier input stream', '',
          'Produced by `VERIF_COVERAGE=1 ./check C16` (seed %d): `amplgsl.cc`, `default.c`, `gsl-info.cc` compiled with `--coverage -O0`, '
          'harness quick stream + the five `rngenv` environment variants + one run of `gsl-info`; `gcov-12 -b -c`.' % ck.seed, '',
          '| anchored file | lines | line cov % | branches | executed % | taken at least once % |', '|---|---|---|---|---|---|']
    for f in ANCHOR_BUILT:
        v = summary[f]
        md.append('| `%s` | %d | %.2f | %d | %.2f | %.2f |' % (f, v['lines'], v['lines_pct'], v['branches'], v['branches_executed_pct'], v['branches_taken_pct']))
    for f, why in ANCHOR_NOT_BUILT.items():
        md.append('| `%s` | – | not built | – | – | – |  (b) %s' % (f, why))
    md += ['', '**All built anchored files together: line coverage %.2f %%, branch coverage (taken at least once) %.2f %%.**' % (line_cov, br_cov), '']
    base = prev.get('baseline') or {'anchor_line_cov': round(line_cov, 2), 'anchor_branch_cov': round(br_cov, 2), 'note': 'first measurement'}
    md += ['Baseline before the round-3 generator work (same procedure, amplgsl.cc only linked with stock libgsl, default.c / gsl-info.cc not built): '
           'line %.2f %%, branch %.2f %%.' % (base['anchor_line_cov'], base['anchor_branch_cov']), '']
    for f in ANCHOR_BUILT:
        rep = report[f]
        never = [fn for fn, st in rep['functions'].items() if st['called'] == 0]
        md += ['## `%s`' % f, '', 'functions never called: %s' % (', '.join('`%s`' % x for x in never) or 'none'), '']
        byfn = {}
        for fn, ln, src, what, detail in rep['gaps']:
            cl, why = classify_gap(fn, src, what, detail)
            classes[cl] += 1
            byfn.setdefault((cl, why), {}).setdefault(fn, []).append((ln, what, src))
        for (cl, why), fns in sorted(byfn.items()):
            n_items = sum(len(v) for v in fns.values())
            md.append('* **(%s)** %s — %d items in %d functions' % (cl, why, n_items, len(fns)))
            mech = [fn for fn in fns if fn in MECH_HELPERS]
            shown = 0
            for fn in sorted(fns, key=lambda x: (x not in MECH_HELPERS, x)):
                if cl == 'a' and fn not in MECH_HELPERS:
                    continue
                if shown >= 60:
                    md.append('  * …')
                    break
                shown += 1
                items = fns[fn]
                md.append('  * `%s`: %s' % (fn, '; '.join('L%d %s `%s`' % (ln, what, src[:70]) for ln, what, src in items[:4]) + (' …(+%d)' % (len(items) - 4) if len(items) > 4 else '')))
        md.append('')
    # the hand-modelled helpers: every arm of the Lean models (Model.lean: checkArgs, checkConstArg, checkIntArg, checkUintArg,
    # checkZeroFuncArgs, checkDerivArg, checkBesselArgs, checkCouplingArgs, checkResult, evalError/derivError/argError) mirrors one C branch
    rep = report['src/gsl/amplgsl.cc']
    md += ['## hand-modelled helpers = arms of the Lean model', '',
           'Each `if` of these C functions is one `if`/`match` arm of its Lean model (`MpVerif/C16/Model.lean`); every call counted here is also a line of the '
           'correspondence stream that the Lean driver must explain, so C branch coverage of the helper is arm coverage of the model.', '',
           '| helper | calls | blocks executed % | decision branches never taken (exception edges excluded) |', '|---|---|---|---|']
    for h in MECH_HELPERS:
        st = rep['functions'].get(h)
        if not st:
            continue
        real = [(ln, what, src) for fn, ln, src, what, detail in rep['gaps'] if fn == h and '(throw)' not in detail and classify_gap(fn, src, what, detail)[0] != 'a']
        md.append('| `%s` | %d | %d | %s |' % (h, st['called'], st['blocks'], '; '.join('L%d %s' % (ln, what) for ln, what, src in real) or 'none'))
    md.append('')
    md += ['Classes: (a) irrelevant to the property, (b) unreachable through this harness design, (c) reachable — generator gap still open. '
           'Totals: a=%d, b=%d, c=%d.' % (classes['a'], classes['b'], classes['c']), '']
    manual = os.path.join(cdoc, 'C16-manual.md')
    if os.path.exists(manual):
        md += [open(manual).read()]
    open(os.path.join(cdoc, 'C16.md'), 'w').write('\n'.join(md) + '\n')
    js = {'anchor_line_cov': round(line_cov, 2), 'anchor_branch_cov': round(br_cov, 2), 'per_file': summary, 'gap_items': classes,
          'baseline': base, 'seed': ck.seed, 'procedure': 'VERIF_COVERAGE=1 ./check C16 (gcov-12 -b -c, quick-tier stream)'}
    json.dump(js, open(jp, 'w'), indent=1)
    ck.log('coverage: line %.2f%% branch %.2f%% (gaps a=%d b=%d c=%d) -> design_notes/coverage/C16.md' % (line_cov, br_cov, classes['a'], classes['b'], classes['c']))
    ck.cov.update({'obligations': 0, 'discharged': 0, 'checker_cmd': 'coverage mode: no proofs run', 'anchor_line_cov': js['anchor_line_cov'], 'anchor_branch_cov': js['anchor_branch_cov']})


def run(ck):
    ck.level = 'proof'
    if os.environ.get('VERIF_COVERAGE') == '1':
        return coverage_mode(ck)
    work = os.path.join(BUILD, 'tr')
    rc, out, err = sh([sys.executable, os.path.join(VERIF, 'translators', 'tr_gsl.py'), REPO, GEN, work], timeout=900)
    ck.log((out.strip() or err.strip())[-600:])
    meta = {}
    mp = os.path.join(work, 'gsl_skel_meta.json')
    if rc in (0, 2) and os.path.exists(mp):
        meta = json.load(open(mp))
    problems = meta.get('problems', []) if rc != 0 else []
    if rc not in (0, 2) or (rc == 2 and not meta):
        problems = ['translator-crashed:' + (out + err).strip()[-300:]]
    hard = [p for p in problems if not p.startswith(('checker-changed', 'formula-changed'))]

    # ---------------------------------------------------------------- proof obligations
    proof_ok, failing = False, []
    if not hard:
        proof_ok, failing = ck.proof_stage('MpVerif.C16.Props', 'MpVerif/C16/Props.lean', 'C16_',
                                            ['MpVerif/C16/*.lean', 'MpVerif/Gen/GslSkel.lean'], expect_min=N_THEOREMS)
        ck.log('proof stage: ok=%s failing=%s' % (proof_ok, failing[:8]))
        # proof-only Mathlib file: HasDerivAt theorems for the elementary bindings (formulas transcribed by hand,
        # pinned to the source by the translator's formula fingerprints)
        okd, outd = ck.lake(['MpVerif.C16.Deriv'])
        dth = []
        if okd:
            aok, dth, _ = ck.prop_theorems('MpVerif.C16.Deriv', '')
            dbad = [(n, [a for a in ax if a not in ALLOWED_AXIOMS]) for n, ax in dth]
            dbad = [x for x in dbad if x[1]]
            if not aok or len(dth) < 20 or dbad:
                failing.append('MpVerif.C16.Deriv: audit (%d theorems, bad axioms %s)' % (len(dth), dbad[:3]))
                proof_ok = False
        else:
            failing.append('MpVerif.C16.Deriv does not build: ' + outd[-400:])
            proof_ok = False
        ck.cov['obligations'] = ck.cov.get('obligations', 0) + max(len(dth), 20)
        ck.cov['discharged'] = ck.cov.get('discharged', 0) + (len(dth) if okd and proof_ok else 0)
        ck.cov['derivative_theorems_elementary_bindings'] = [n for n, _ in dth]
        if ck.tier == 'thorough' and proof_ok:
            bad = ck.leanchecker(['MpVerif.C16.Props'])
            if bad:
                failing += ['leanchecker rejected %s' % m for m in bad]
                proof_ok = False
    else:
        ck.cov.update({'obligations': N_THEOREMS, 'discharged': 0, 'checker_cmd': 'translators/tr_gsl.py failed: %s' % hard[:3]})
    bad_fns, handler_off = None, None
    if not proof_ok and not hard:
        bad_fns, handler_off = undisciplined(ck)
        ck.log('undisciplined skeletons: %s; errorHandlerOffFirst=%s' % (bad_fns, handler_off))

    # ---------------------------------------------------------------- the real code
    exe = build_harness(ck)
    outdir = os.path.join(BUILD, 'c16')
    os.makedirs(outdir, exist_ok=True)
    rc_h, hout = run_harness(ck, exe, outdir)
    crashed = None
    if rc_h != 0 or 'DONE' not in hout:
        rc2, hout2 = run_harness(ck, exe, outdir, ['flush'])
        begins = [l for l in hout2.split('\n') if l.startswith('begin ')]
        crashed = (rc_h, begins[-1][6:] if begins else '(before the first call: funcadd_ASL itself?)')
        hout = hout2
    regs, findings, stats, hist = [], [], {}, {}
    for l in hout.split('\n'):
        if l.startswith('REG '):
            _, nm, ty, na = l.split(' ')
            regs.append((nm, int(ty), int(na)))
        elif l.startswith('FINDING '):
            parts = l[8:].split(' | ')
            findings.append((parts[0], int(parts[1]) if len(parts) > 1 and parts[1].isdigit() else 1, ' | '.join(parts[2:])))
        elif l.startswith('STAT '):
            k = l.split(' ')
            stats[k[1]] = ' '.join(k[2:])
        elif l.startswith('HIST '):
            k = l.split(' ')
            hist[k[1]] = int(k[2])
    ck.log('harness: %d registrations, %s calls, %d finding classes, rc=%s' % (len(regs), stats.get('calls'), len(findings), rc_h))
    try:
        rngenv_oracle(ck, exe)
        gsl_info_oracle(ck, meta)
    except Exception as e:
        ck.add_violation('rng-env-or-gsl-info-oracle-crashed', repr(e), {'exception': repr(e)}, found_input=False)

    # registration list: what the real funcadd_ASL registered == what the translator read
    tyval = {'FUNCADD_REAL_VALUED': 0, 'FUNCADD_STRING_VALUED': 2, 'FUNCADD_RANDOM_VALUED': 4}
    if meta.get('registered') is not None and regs:
        want = [(a, tyval.get(t, -1), n) for a, c, t, n in meta['registered']]
        if want != regs:
            diff = [x for x in want if x not in regs][:3] + [x for x in regs if x not in want][:3]
            ck.add_violation('registration-list-differs', 'functions registered by the compiled funcadd_ASL differ from the list the translator extracted: %s' % diff,
                             {'translator': want[:5], 'compiled': regs[:5], 'first_differences': diff}, found_input=False)

    src_lines = open(os.path.join(REPO, 'src', 'gsl', 'amplgsl.cc'), errors='replace').read().split('\n')
    # UBSan reports (recoverable mode): one per source location
    ub = {}
    ubp = os.path.join(outdir, 'c16.ubsan.txt')
    if os.path.exists(ubp):
        for l in open(ubp, errors='replace'):
            m = re.search(r'amplgsl\.cc:(\d+):\d+: runtime error: (.*)', l)
            if m:
                line, msg = int(m.group(1)), m.group(2).strip()
                kind = ('float-cast' if 'outside the range of representable values' in msg else
                        'signed-overflow' if 'signed integer overflow' in msg else
                        'other')
                fn = enclosing_function(src_lines, line)
                ub.setdefault('ub-%s:%s' % (kind, fn), []).append('amplgsl.cc:%d: %s' % (line, msg))
    ub_replays = {f[0].split(':', 1)[1]: f[2] for f in findings if f[0].startswith('ubsan-report:')}
    for sig, lst in sorted(ub.items()):
        ck.add_violation(sig, 'undefined behaviour in %s: %s' % (sig.split(':', 1)[1], lst[0]),
                         {'reports': lst[:6], 'a_call_that_triggered_a_report': list(ub_replays.values())[:3],
                          'how': 'build/bin/h_gsl-* <replay line> (UBSan prints to stderr)'})
    fn_with_input = {}
    per_kind, overflow = {}, {}

    def capped(sig, what, rep, found_input=True):
        """at most 6 VIOLATION lines per kind of signature; the rest is summarised in one more"""
        known = any(k.get('property') == ck.pid and k.get('status') == 'open' and re.fullmatch(k['match'], sig) for k in ck.known)
        kind = sig.split(':')[0]
        if not known:
            per_kind[kind] = per_kind.get(kind, 0) + 1
            if per_kind[kind] > 6:
                overflow.setdefault(kind, []).append(sig)
                return
        ck.add_violation(sig, what, rep, found_input)

    for sig, cnt, what in findings:
        if sig.startswith('ubsan-report:'):
            continue
        fn = sig.split(':')[1] if ':' in sig else ''
        fn_with_input.setdefault(fn, (sig, what))
        capped(sig, '%s (%d such observations in this run): %s' % (sig, cnt, what[:400]),
               {'replay_line': what.split('  #')[0], 'detail': what,
                'cmd': '%s %s' % (exe, what.split('  #')[0])})
    if crashed:
        ck.add_violation('harness-terminated', 'the harness process died (rc=%s) while/after: %s' % crashed,
                         {'last_begin': crashed[1], 'cmd': '%s %s' % (exe, crashed[1])})

    # ---------------------------------------------------------------- correspondence with the Lean skeletons
    calls = os.path.join(outdir, 'c16.calls.txt')
    n_lines = n_ok = 0
    unexplained = {}
    if not hard and os.path.exists(calls):
        try:
            drv = ck.driver('drv_c16')
            mo = os.path.join(outdir, 'c16.model.out')
            with open(calls) as fi, open(mo, 'w') as fo:
                subprocess.run([drv], stdin=fi, stdout=fo, check=True, timeout=1200)
            with open(calls) as fi, open(mo) as fm:
                for cl, ml in zip(fi, fm):
                    n_lines += 1
                    if ml.strip() == 'ok':
                        n_ok += 1
                    else:
                        nm = cl.split(' ')[1] if ' ' in cl else '?'
                        unexplained.setdefault(nm, []).append((cl.strip(), ml.strip()))
                    if n_lines % 9973 == 1:
                        ck.sample(cl.strip() + '  =>  ' + ml.strip())
        except Exception as e:
            failing.append('model driver: %r' % (e,))
            proof_ok = False
    for nm, lst in sorted(unexplained.items()):
        has_input = nm in fn_with_input
        capped('model-differs:%s' % nm,
                         'the generated skeleton of %s does not explain what the compiled binding did: %s -> %s (%d calls)' % (nm, lst[0][0], lst[0][1], len(lst)),
                         {'call': lst[0][0], 'driver': lst[0][1], 'more': [x[0] for x in lst[1:4]], 'oracle_finding_for_same_function': fn_with_input.get(nm)},
                         found_input=has_input)

    for kind, sigs in sorted(overflow.items()):
        ck.add_violation('%s:and-%d-more' % (kind, len(sigs)), '%d further failing input classes of kind %s: %s' % (len(sigs), kind, sigs[:40]),
                         {'signatures': sigs})
    # ---------------------------------------------------------------- obligations that no longer check
    for p in problems:
        kind = p.split(':')[0]
        ck.add_violation('translator:%s' % p[:80], 'the translator no longer maps amplgsl.cc onto the model: %s' % p,
                         {'problem': p, 'searched': '%s calls of the real bindings; findings: %s' % (stats.get('calls'), [f[0] for f in findings][:10])},
                         found_input=False)
    if not proof_ok and not hard:
        named = False
        for k_, fn in enumerate(bad_fns or []):
            named = True
            hit = fn_with_input.get(fn)
            if k_ >= 6:
                if k_ == 6:
                    ck.add_violation('undisciplined:and-%d-more' % (len(bad_fns) - 6), 'further skeletons failing the discipline analysis: %s' % bad_fns[6:60],
                                     {'functions': bad_fns[6:]}, found_input=any(f in fn_with_input for f in bad_fns[6:]))
                continue
            ck.add_violation('undisciplined:%s' % fn,
                             'the skeleton of %s no longer passes the discipline analysis (a path returns without check_result / without an error / leaving a requested partial unassigned)%s'
                             % (fn, ('; failing input on the real code: ' + hit[1][:300]) if hit else ''),
                             {'function': fn, 'theorem': 'C16_all_registered_disciplined', 'failing_input': hit},
                             found_input=bool(hit))
        if handler_off is False:
            named = True
            ck.add_violation('error-handler-not-switched-off', 'funcadd_ASL no longer starts with gsl_set_error_handler_off()',
                             {'theorem': 'C16_error_handler_off_first', 'harness_terminated': crashed}, found_input=bool(crashed))
        if not named:
            for fdecl in failing:
                ck.add_violation('obligation:%s' % fdecl[:60], 'proof obligation no longer checks: %s' % fdecl,
                                 {'theorem': fdecl, 'module': 'MpVerif.C16.Props'}, found_input=False)

    # ---------------------------------------------------------------- evidence
    ncalls = int(stats.get('calls', '0') or 0)
    ck.cov['evaluations'] = ncalls
    ck.cov['functions_exercised'] = int(stats.get('functions', '0') or 0)
    ck.cov['distinct_nontrivial'] = n_lines
    ck.cov['rule'] = 'distinct (function, argument vector, mode, dig) calls of the real bindings whose complete observation (Errmsg kind, written slots, NaN bits) was checked against the generated skeleton'
    ck.cov['traces_validated_against_impl'] = n_ok
    ck.cov['correspondence'] = {'calls_compared': n_lines, 'explained_by_skeleton': n_ok, 'unexplained': n_lines - n_ok}
    ck.cov['numeric_first_derivatives'] = stats.get('num1')
    ck.cov['numeric_second_derivatives'] = stats.get('num2')
    ck.cov['generator_histogram'] = hist
    ck.cov['ubsan_report_classes'] = sorted(ub)
    try:
        cj = json.load(open(os.path.join(VERIF, 'design_notes', 'coverage', 'C16.json')))
        ck.cov['anchor_line_cov'] = cj['anchor_line_cov']
        ck.cov['anchor_branch_cov'] = cj['anchor_branch_cov']
        ck.cov['anchor_cov_note'] = 'as measured by the last VERIF_COVERAGE=1 run (design_notes/coverage/C16.md); not recomputed here'
    except Exception:
        pass
    ck.cov['exhaustive'] = False
    ck.cov['translator'] = {'registrations': len(meta.get('registered', [])), 'skeletons': meta.get('functions_translated'), 'problems': problems}
    ck.level = 'proof'
    ck.notes += ['claimed PARTIAL: proved = NaN/error discipline of all registered bindings (every requested partial assigned, no silent NaN, no silent return 0), tied to the source by the translator; '
                 'only explored numerically = agreement of the derivative formulas with numerical differentiation, termination of GSL itself']
    ck.assumptions += ['GSL / libm calls do not touch the arglist (they never receive it: enforced syntactically by the translator)',
                       'al->n equals the registered number of arguments (AMPL guarantees it for fixed-arity functions)',
                       'hand models of the 15 checker/error functions of amplgsl.cc, pinned by AST fingerprint (translators/gsl_primitives.json) and compared with the real code on every call of the harness',
                       'Hessian packing taken as ASL documents it: hes[i + j(j+1)/2], i <= j']
    ck.cov['trusted_base'] += ['translators/tr_gsl.py + clang-14 JSON AST (every observed call of the compiled bindings is checked against the generated skeleton)',
                               'harness/shim/funcadd.h stands in for ASL funcadd.h (absent from the tree)',
                               'libgsl 2.7.1 as installed; numerical-differentiation oracle (Ridders) with conservative acceptance thresholds']


def replay(ck, path):
    obj = json.load(open(path))
    rep = obj.get('replay', {})
    line = rep.get('replay_line') or rep.get('last_begin') or ''
    exe = build_harness(ck)
    if not line.startswith('replay '):
        print('nothing to replay against the real code in %s: %s' % (path, obj.get('what')))
        return 1
    p = subprocess.run([exe] + line.split(), capture_output=True, text=True, timeout=120)
    print(p.stdout + p.stderr[-2000:])
    return 1 if ('FINDING' in p.stdout or p.returncode not in (0,)) else 0

"""C16 — GSL bindings return consistent derivatives or an explicit error (claimed: partial).

1. translators/tr_gsl.py regenerates lean/MpVerif/Gen/GslSkel.lean from $MP_REPO/src/gsl/amplgsl.cc
2. proof obligations: soundness of the discipline analysis + `decide` of the analysis over the generated table
3. harness/h_gsl.cc: every registered function pointer of the real code (UBSan build, linked with libgsl)
   x generated arguments x modes x dig: property oracle (returns, deterministic, no silent NaN / unset
   partial, derivatives vs. Richardson/Ridders differences of the binding's own values)
4. correspondence: every observed call must be explained by the generated skeleton (lean driver)
"""
import os, sys, json, re, subprocess, hashlib
from common import *

GEN = os.path.join(LEAN, 'MpVerif', 'Gen', 'GslSkel.lean')
N_THEOREMS = 7


def enclosing_function(src_lines, line):
    """name of the function (or function-defining macro use) the 1-based source line belongs to"""
    for i in range(min(line, len(src_lines)) - 1, -1, -1):
        t = src_lines[i]
        m = re.match(r'static\s+[\w\s\*]+?\b(\w+)\s*\(\s*arglist\s*\*', t)
        if m:
            return m.group(1)
        m = re.match(r'(WRAP\w*|DEBYE)\((\w+)', t)
        if m and i == line - 1:
            return 'ampl' + m.group(2) if m.group(1) != 'DEBYE' else 'amplgsl_sf_debye_' + m.group(2)
        if re.match(r'#define\s+(WRAP\w*|CHECK_CALL|DEBYE)', t):
            return 'macro:' + t.split()[1].split('(')[0]
    return '?'


def undisciplined(ck):
    """ask Lean which generated skeletons fail the analysis (used when the table theorem no longer checks)"""
    script = os.path.join(BUILD, 'c16_undisciplined.lean')
    open(script, 'w').write('import MpVerif.C16.Analysis\nimport MpVerif.Gen.GslSkel\nopen MpVerif.C16 MpVerif.Gen.GslSkel\n'
                            '#eval (registered.filter (fun e => !disciplined e.body e.nargs)).map (·.name)\n'
                            '#eval errorHandlerOffFirst\n')
    ok, out = ck.lake(['MpVerif.C16.Analysis', 'MpVerif.Gen.GslSkel'])
    if not ok:
        return None, None
    with LakeLock():
        rc, out, err = sh(['lake', 'env', 'lean', script], cwd=LEAN, timeout=900)
    m = re.search(r'\[(.*?)\]', out, re.S)
    names = re.findall(r'"(\w+)"', m.group(1)) if m else None
    return names, ('true' in out.split(']')[-1]) if m else None


def build_harness(ck):
    flags = ['-O1', '-g', '-fsanitize=undefined,float-cast-overflow', '-fsanitize-recover=all']
    shim = os.path.join(VERIF, 'harness', 'shim')
    objs = ck.objects([os.path.join(REPO, 'src', 'gsl', 'amplgsl.cc'), os.path.join(VERIF, 'harness', 'h_gsl.cc')],
                      flags=flags, extra_inc=[shim], tag='gsl')
    return ck.link('h_gsl', objs, flags=['-fsanitize=undefined,float-cast-overflow'], libs=['-lgsl', '-lgslcblas', '-lm'])


def run_harness(ck, exe, outdir, extra=()):
    cmd = [exe, ck.tier, str(ck.seed), outdir] + list(extra)
    limit = 420 if ck.tier == 'quick' else 2400
    try:
        p = subprocess.run(cmd, capture_output=True, text=True, timeout=limit)
        return p.returncode, p.stdout
    except subprocess.TimeoutExpired as e:
        return -999, (e.stdout.decode() if isinstance(e.stdout, bytes) else (e.stdout or ''))


def run(ck):
    ck.level = 'proof'
    work = os.path.join(BUILD, 'tr')
    rc, out, err = sh([sys.executable, os.path.join(VERIF, 'translators', 'tr_gsl.py'), REPO, GEN, work], timeout=900)
    ck.log((out.strip() or err.strip())[-600:])
    meta = {}
    mp = os.path.join(work, 'gsl_skel_meta.json')
    if rc in (0, 2) and os.path.exists(mp):
        meta = json.load(open(mp))
    problems = meta.get('problems', []) if rc != 0 else []
    if rc not in (0, 2) or (rc == 2 and not meta):
        problems = ['translator-crashed:' + (out + err).strip()[-300:]]
    hard = [p for p in problems if not p.startswith(('checker-changed', 'formula-changed'))]

    # ---------------------------------------------------------------- proof obligations
    proof_ok, failing = False, []
    if not hard:
        proof_ok, failing = ck.proof_stage('MpVerif.C16.Props', 'MpVerif/C16/Props.lean', 'C16_',
                                            ['MpVerif/C16/*.lean', 'MpVerif/Gen/GslSkel.lean'], expect_min=N_THEOREMS)
        ck.log('proof stage: ok=%s failing=%s' % (proof_ok, failing[:8]))
        # proof-only Mathlib file: HasDerivAt theorems for the elementary bindings (formulas transcribed by hand,
        # pinned to the source by the translator's formula fingerprints)
        okd, outd = ck.lake(['MpVerif.C16.Deriv'])
        dth = []
        if okd:
            aok, dth, _ = ck.prop_theorems('MpVerif.C16.Deriv', '')
            dbad = [(n, [a for a in ax if a not in ALLOWED_AXIOMS]) for n, ax in dth]
            dbad = [x for x in dbad if x[1]]
            if not aok or len(dth) < 20 or dbad:
                failing.append('MpVerif.C16.Deriv: audit (%d theorems, bad axioms %s)' % (len(dth), dbad[:3]))
                proof_ok = False
        else:
            failing.append('MpVerif.C16.Deriv does not build: ' + outd[-400:])
            proof_ok = False
        ck.cov['obligations'] = ck.cov.get('obligations', 0) + max(len(dth), 20)
        ck.cov['discharged'] = ck.cov.get('discharged', 0) + (len(dth) if okd and proof_ok else 0)
        ck.cov['derivative_theorems_elementary_bindings'] = [n for n, _ in dth]
        if ck.tier == 'thorough' and proof_ok:
            bad = ck.leanchecker(['MpVerif.C16.Props'])
            if bad:
                failing += ['leanchecker rejected %s' % m for m in bad]
                proof_ok = False
    else:
        ck.cov.update({'obligations': N_THEOREMS, 'discharged': 0, 'checker_cmd': 'translators/tr_gsl.py failed: %s' % hard[:3]})
    bad_fns, handler_off = None, None
    if not proof_ok and not hard:
        bad_fns, handler_off = undisciplined(ck)
        ck.log('undisciplined skeletons: %s; errorHandlerOffFirst=%s' % (bad_fns, handler_off))

    # ---------------------------------------------------------------- the real code
    exe = build_harness(ck)
    outdir = os.path.join(BUILD, 'c16')
    os.makedirs(outdir, exist_ok=True)
    rc_h, hout = run_harness(ck, exe, outdir)
    crashed = None
    if rc_h != 0 or 'DONE' not in hout:
        rc2, hout2 = run_harness(ck, exe, outdir, ['flush'])
        begins = [l for l in hout2.split('\n') if l.startswith('begin ')]
        crashed = (rc_h, begins[-1][6:] if begins else '(before the first call: funcadd_ASL itself?)')
        hout = hout2
    regs, findings, stats, hist = [], [], {}, {}
    for l in hout.split('\n'):
        if l.startswith('REG '):
            _, nm, ty, na = l.split(' ')
            regs.append((nm, int(ty), int(na)))
        elif l.startswith('FINDING '):
            parts = l[8:].split(' | ')
            findings.append((parts[0], int(parts[1]) if len(parts) > 1 and parts[1].isdigit() else 1, ' | '.join(parts[2:])))
        elif l.startswith('STAT '):
            k = l.split(' ')
            stats[k[1]] = ' '.join(k[2:])
        elif l.startswith('HIST '):
            k = l.split(' ')
            hist[k[1]] = int(k[2])
    ck.log('harness: %d registrations, %s calls, %d finding classes, rc=%s' % (len(regs), stats.get('calls'), len(findings), rc_h))

    # registration list: what the real funcadd_ASL registered == what the translator read
    tyval = {'FUNCADD_REAL_VALUED': 0, 'FUNCADD_STRING_VALUED': 2, 'FUNCADD_RANDOM_VALUED': 4}
    if meta.get('registered') is not None and regs:
        want = [(a, tyval.get(t, -1), n) for a, c, t, n in meta['registered']]
        if want != regs:
            diff = [x for x in want if x not in regs][:3] + [x for x in regs if x not in want][:3]
            ck.add_violation('registration-list-differs', 'functions registered by the compiled funcadd_ASL differ from the list the translator extracted: %s' % diff,
                             {'translator': want[:5], 'compiled': regs[:5], 'first_differences': diff}, found_input=False)

    src_lines = open(os.path.join(REPO, 'src', 'gsl', 'amplgsl.cc'), errors='replace').read().split('\n')
    # UBSan reports (recoverable mode): one per source location
    ub = {}
    ubp = os.path.join(outdir, 'c16.ubsan.txt')
    if os.path.exists(ubp):
        for l in open(ubp, errors='replace'):
            m = re.search(r'amplgsl\.cc:(\d+):\d+: runtime error: (.*)', l)
            if m:
                line, msg = int(m.group(1)), m.group(2).strip()
                kind = ('float-cast' if 'outside the range of representable values' in msg else
                        'signed-overflow' if 'signed integer overflow' in msg else
                        'other')
                fn = enclosing_function(src_lines, line)
                ub.setdefault('ub-%s:%s' % (kind, fn), []).append('amplgsl.cc:%d: %s' % (line, msg))
    ub_replays = {f[0].split(':', 1)[1]: f[2] for f in findings if f[0].startswith('ubsan-report:')}
    for sig, lst in sorted(ub.items()):
        ck.add_violation(sig, 'undefined behaviour in %s: %s' % (sig.split(':', 1)[1], lst[0]),
                         {'reports': lst[:6], 'a_call_that_triggered_a_report': list(ub_replays.values())[:3],
                          'how': 'build/bin/h_gsl-* <replay line> (UBSan prints to stderr)'})
    fn_with_input = {}
    per_kind, overflow = {}, {}

    def capped(sig, what, rep, found_input=True):
        """at most 6 VIOLATION lines per kind of signature; the rest is summarised in one more"""
        known = any(k.get('property') == ck.pid and k.get('status') == 'open' and re.fullmatch(k['match'], sig) for k in ck.known)
        kind = sig.split(':')[0]
        if not known:
            per_kind[kind] = per_kind.get(kind, 0) + 1
            if per_kind[kind] > 6:
                overflow.setdefault(kind, []).append(sig)
                return
        ck.add_violation(sig, what, rep, found_input)

    for sig, cnt, what in findings:
        if sig.startswith('ubsan-report:'):
            continue
        fn = sig.split(':')[1] if ':' in sig else ''
        fn_with_input.setdefault(fn, (sig, what))
        capped(sig, '%s (%d such observations in this run): %s' % (sig, cnt, what[:400]),
               {'replay_line': what.split('  #')[0], 'detail': what,
                'cmd': '%s %s' % (exe, what.split('  #')[0])})
    if crashed:
        ck.add_violation('harness-terminated', 'the harness process died (rc=%s) while/after: %s' % crashed,
                         {'last_begin': crashed[1], 'cmd': '%s %s' % (exe, crashed[1])})

    # ---------------------------------------------------------------- correspondence with the Lean skeletons
    calls = os.path.join(outdir, 'c16.calls.txt')
    n_lines = n_ok = 0
    unexplained = {}
    if not hard and os.path.exists(calls):
        try:
            drv = ck.driver('drv_c16')
            mo = os.path.join(outdir, 'c16.model.out')
            with open(calls) as fi, open(mo, 'w') as fo:
                subprocess.run([drv], stdin=fi, stdout=fo, check=True, timeout=1200)
            with open(calls) as fi, open(mo) as fm:
                for cl, ml in zip(fi, fm):
                    n_lines += 1
                    if ml.strip() == 'ok':
                        n_ok += 1
                    else:
                        nm = cl.split(' ')[1] if ' ' in cl else '?'
                        unexplained.setdefault(nm, []).append((cl.strip(), ml.strip()))
                    if n_lines % 9973 == 1:
                        ck.sample(cl.strip() + '  =>  ' + ml.strip())
        except Exception as e:
            failing.append('model driver: %r' % (e,))
            proof_ok = False
    for nm, lst in sorted(unexplained.items()):
        has_input = nm in fn_with_input
        capped('model-differs:%s' % nm,
                         'the generated skeleton of %s does not explain what the compiled binding did: %s -> %s (%d calls)' % (nm, lst[0][0], lst[0][1], len(lst)),
                         {'call': lst[0][0], 'driver': lst[0][1], 'more': [x[0] for x in lst[1:4]], 'oracle_finding_for_same_function': fn_with_input.get(nm)},
                         found_input=has_input)

    for kind, sigs in sorted(overflow.items()):
        ck.add_violation('%s:and-%d-more' % (kind, len(sigs)), '%d further failing input classes of kind %s: %s' % (len(sigs), kind, sigs[:40]),
                         {'signatures': sigs})
    # ---------------------------------------------------------------- obligations that no longer check
    for p in problems:
        kind = p.split(':')[0]
        ck.add_violation('translator:%s' % p[:80], 'the translator no longer maps amplgsl.cc onto the model: %s' % p,
                         {'problem': p, 'searched': '%s calls of the real bindings; findings: %s' % (stats.get('calls'), [f[0] for f in findings][:10])},
                         found_input=False)
    if not proof_ok and not hard:
        named = False
        for k_, fn in enumerate(bad_fns or []):
            named = True
            hit = fn_with_input.get(fn)
            if k_ >= 6:
                if k_ == 6:
                    ck.add_violation('undisciplined:and-%d-more' % (len(bad_fns) - 6), 'further skeletons failing the discipline analysis: %s' % bad_fns[6:60],
                                     {'functions': bad_fns[6:]}, found_input=any(f in fn_with_input for f in bad_fns[6:]))
                continue
            ck.add_violation('undisciplined:%s' % fn,
                             'the skeleton of %s no longer passes the discipline analysis (a path returns without check_result / without an error / leaving a requested partial unassigned)%s'
                             % (fn, ('; failing input on the real code: ' + hit[1][:300]) if hit else ''),
                             {'function': fn, 'theorem': 'C16_all_registered_disciplined', 'failing_input': hit},
                             found_input=bool(hit))
        if handler_off is False:
            named = True
            ck.add_violation('error-handler-not-switched-off', 'funcadd_ASL no longer starts with gsl_set_error_handler_off()',
                             {'theorem': 'C16_error_handler_off_first', 'harness_terminated': crashed}, found_input=bool(crashed))
        if not named:
            for fdecl in failing:
                ck.add_violation('obligation:%s' % fdecl[:60], 'proof obligation no longer checks: %s' % fdecl,
                                 {'theorem': fdecl, 'module': 'MpVerif.C16.Props'}, found_input=False)

    # ---------------------------------------------------------------- evidence
    ncalls = int(stats.get('calls', '0') or 0)
    ck.cov['evaluations'] = ncalls
    ck.cov['functions_exercised'] = int(stats.get('functions', '0') or 0)
    ck.cov['distinct_nontrivial'] = n_lines
    ck.cov['rule'] = 'distinct (function, argument vector, mode, dig) calls of the real bindings whose complete observation (Errmsg kind, written slots, NaN bits) was checked against the generated skeleton'
    ck.cov['traces_validated_against_impl'] = n_ok
    ck.cov['correspondence'] = {'calls_compared': n_lines, 'explained_by_skeleton': n_ok, 'unexplained': n_lines - n_ok}
    ck.cov['numeric_first_derivatives'] = stats.get('num1')
    ck.cov['numeric_second_derivatives'] = stats.get('num2')
    ck.cov['generator_histogram'] = hist
    ck.cov['ubsan_report_classes'] = sorted(ub)
    ck.cov['exhaustive'] = False
    ck.cov['translator'] = {'registrations': len(meta.get('registered', [])), 'skeletons': meta.get('functions_translated'), 'problems': problems}
    ck.level = 'proof'
    ck.notes += ['claimed PARTIAL: proved = NaN/error discipline of all registered bindings (every requested partial assigned, no silent NaN, no silent return 0), tied to the source by the translator; '
                 'only explored numerically = agreement of the derivative formulas with numerical differentiation, termination of GSL itself']
    ck.assumptions += ['GSL / libm calls do not touch the arglist (they never receive it: enforced syntactically by the translator)',
                       'al->n equals the registered number of arguments (AMPL guarantees it for fixed-arity functions)',
                       'hand models of the 15 checker/error functions of amplgsl.cc, pinned by AST fingerprint (translators/gsl_primitives.json) and compared with the real code on every call of the harness',
                       'Hessian packing taken as ASL documents it: hes[i + j(j+1)/2], i <= j']
    ck.cov['trusted_base'] += ['translators/tr_gsl.py + clang-14 JSON AST (every observed call of the compiled bindings is checked against the generated skeleton)',
                               'harness/shim/funcadd.h stands in for ASL funcadd.h (absent from the tree)',
                               'libgsl 2.7.1 as installed; numerical-differentiation oracle (Ridders) with conservative acceptance thresholds']


def replay(ck, path):
    obj = json.load(open(path))
    rep = obj.get('replay', {})
    line = rep.get('replay_line') or rep.get('last_begin') or ''
    exe = build_harness(ck)
    if not line.startswith('replay '):
        print('nothing to replay against the real code in %s: %s' % (path, obj.get('what')))
        return 1
    p = subprocess.run([exe] + line.split(), capture_output=True, text=True, timeout=120)
    print(p.stdout + p.stderr[-2000:])
    return 1 if ('FINDING' in p.stdout or p.returncode not in (0,)) else 0

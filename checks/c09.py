"""C09 — a driver run always ends in a well-formed result or a diagnosed failure.

1. proof obligations: lean/MpVerif/C09/Props.lean (decision model of RunBackendApp/Run/ReportError/
   MakeProperSolutionHandler/HandleSolution/WriteSolFile; theorems over all stages x raise kinds x codes x
   dimensions x modes x option/flag lists x output-path states)
2. tie: the real driver (harness/recsolver, ASan+UBSan build of the current tree) is run as a process on
   generated cases; what it leaves behind (exit status, stderr class, stdout, full strict parse of <stub>.sol)
   is canonicalised and compared with the model's prediction for the same scenario (drv_c09)
3. property oracle (python, independent of the Lean model) on every observed run
Crash/hang freedom is *observed only* (sanitizers + timeout) -> level 'partial'.
"""
import os, sys, re, json, shutil, subprocess, time, hashlib
from concurrent.futures import ThreadPoolExecutor
from common import *
import recsolver
sys.path.insert(0, os.path.join(VERIF, 'gen'))
import nlgen, c09gen
from nlgen import Rng

SAN = ('-O1', '-g', '-fsanitize=address,undefined', '-fno-sanitize-recover=all', '-fno-sanitize=vptr')
STAGES = ['ctor', 'init', 'openNL', 'header', 'options', 'populate', 'body', 'names', 'convert', 'extras', 'solve', 'report', 'suffixes']
NO_HANDLER = {'ctor', 'init', 'openNL', 'header'}
SITES = ['ctor', 'init', 'options', 'convert', 'extras', 'solve', 'report', 'suffixes']
KINDS = ['plain', 'withCode', 'infeas', 'solCheck', 'unsupported', 'optionError', 'readError', 'fmtError', 'systemError', 'stdExn', 'foreign']
EXITFAIL = {'unsupported', 'readError', 'fmtError'}
TIMEOUT = 40
ASAN = 'detect_leaks=0:abort_on_error=0:allocator_may_return_null=1:max_allocation_size_mb=512:hard_rss_limit_mb=1500'


# ------------------------------------------------------------------------------------------ strict .sol parser
def parse_sol_strict(text):
    """Grammar of mp::WriteSolFile, consumed completely; returns dict or None.
    message lines, 'Options', n, n option lines, ncons, nduals, nvars, nprimals, nduals numbers, nprimals numbers,
    'objno a b', then suffix blocks; nothing may be left over and the file must end with a newline."""
    if not text.endswith('\n'):
        return None
    L = text[:-1].split('\n')
    try:
        i = L.index('Options')
    except ValueError:
        return None
    msg = L[:i]
    i += 1

    def integer(s):
        if not re.fullmatch(r'-?\d+', s):
            raise ValueError(s)
        return int(s)

    def number(s):
        if not re.fullmatch(r'[-+]?(\d+\.?\d*([eE][-+]?\d+)?|\.\d+([eE][-+]?\d+)?|inf|nan|infinity)', s, re.I):
            raise ValueError(s)
        return float(s)
    try:
        nopt = integer(L[i]); i += 1
        if not (1 <= nopt <= 9):
            return None
        opts = [integer(L[i + k]) for k in range(nopt)]; i += nopt
        ncons, nduals, nvars, nprimals = (integer(L[i + k]) for k in range(4)); i += 4
        if min(ncons, nduals, nvars, nprimals) < 0:
            return None
        dual = [number(L[i + k]) for k in range(nduals)]; i += nduals
        primal = [number(L[i + k]) for k in range(nprimals)]; i += nprimals
        m = re.fullmatch(r'objno (-?\d+) (-?\d+)', L[i])
        if not m:
            return None
        objno, code = int(m.group(1)), int(m.group(2)); i += 1
        nsuf = 0
        while i < len(L):
            m = re.fullmatch(r'suffix (\d+) (\d+) (\d+) (\d+) (\d+)', L[i])
            if not m:
                return None
            kind, n, namelen, tablen, tablines = (int(t) for t in m.groups())
            name = L[i + 1]
            if len(name) + 1 != namelen:
                return None
            i += 2 + tablines
            limit = {0: nvars, 1: ncons, 2: None, 3: 1}[kind & 3]
            for _ in range(n):
                a = L[i].split(' ')
                if len(a) != 2:
                    return None
                idx = integer(a[0]); number(a[1])
                if idx < 0 or (limit is not None and idx >= max(limit, 1)):
                    return None
                i += 1
            nsuf += 1
    except (IndexError, ValueError):
        return None
    return {'message': '\n'.join(msg), 'ncons': ncons, 'nduals': nduals, 'nvars': nvars, 'nprimals': nprimals,
            'objno': objno, 'code': code, 'nsuf': nsuf}


# ------------------------------------------------------------------------------------------ running one case
def materialise(case, d, exe):
    os.makedirs(d, exist_ok=True)
    stub = os.path.join(d, 'm')
    if case.get('nl') is not None:
        open(stub + '.nl', 'w', encoding='latin-1', newline='').write(case['nl'])
    for ext in ('col', 'row'):
        if case.get(ext) is not None:
            open(stub + '.' + ext, 'w', encoding='latin-1', newline='').write(case[ext])
    for name, content in (case.get('optfiles') or {}).items():
        open(os.path.join(d, name), 'w', encoding='latin-1', newline='').write(content)
    op = case.get('outpath', 'ok')
    if op == 'isdir':
        os.makedirs(stub + '.sol')
    elif op == 'dangling':
        os.symlink(os.path.join(d, 'no', 'such', 'dir', 'm.sol'), stub + '.sol')
    elif op == 'devfull':
        os.symlink('/dev/full', stub + '.sol')
    env = {k: v for k, v in os.environ.items() if not k.endswith('_options') and not k.startswith('RECSOLVER_')}
    env['ASAN_OPTIONS'] = ASAN
    env['UBSAN_OPTIONS'] = 'print_stacktrace=1'
    env['RECSOLVER_LOG'] = stub + '.reclog'
    env.update({k: v.replace('@DIR@', d) for k, v in case.get('env', {}).items()})
    if case.get('script') is not None:
        open(stub + '.script', 'w').write(case['script'])
        env['RECSOLVER_SCRIPT'] = stub + '.script'
    argv = [exe] + list(case.get('flags_argv', []))
    if case.get('stub', True):
        argv.append(stub + ('.nl' if case.get('stub_with_ext') else ''))
    if case.get('ampl'):
        argv.append('-AMPL')
    argv += [t.replace('@DIR@', d) for t, _ in case.get('options', [])]
    return stub, argv, env


def run_case(case, d, exe):
    stub, argv, env = materialise(case, d, exe)
    t0 = time.time()
    try:
        p = subprocess.run(argv, capture_output=True, env=env, timeout=TIMEOUT, cwd=d)
        rc, out, err = p.returncode, p.stdout.decode('latin-1'), p.stderr.decode('latin-1')
    except subprocess.TimeoutExpired:
        rc, out, err = 'timeout', '', ''
    r = {'rc': rc, 'out': out, 'err': err, 'wall': time.time() - t0, 'sol': None, 'sol_special': None, 'log': '',
         'cmdline': ' '.join(argv), 'env': {k: v for k, v in env.items() if k.endswith('_options') or k.startswith('RECSOLVER_')}}
    sp = stub + '.sol'
    if os.path.islink(sp) or os.path.isdir(sp):
        r['sol_special'] = case.get('outpath')
    elif os.path.exists(sp):
        r['sol'] = open(sp, encoding='latin-1', newline='').read()
    if os.path.exists(stub + '.reclog'):
        r['log'] = open(stub + '.reclog', errors='replace').read()
    return r


def top_frame(err):
    """name of the innermost mp:: function in a sanitizer stack trace (template arguments removed)"""
    for l in err.split('\n'):
        m = re.match(r'\s*#\d+ 0x[0-9a-f]+ in (.*?)( /| \(/|$)', l)
        if not m or 'mp::' not in m.group(1):
            continue
        t = m.group(1)
        prev = None
        while prev != t:
            prev = t
            t = re.sub(r'<[^<>]*>', '', t)
        t = re.sub(r'\(.*$', '', t)
        names = re.findall(r'([A-Za-z_]\w*)\s*$', t)
        return names[0] if names else t[-40:]
    return ''


def strip_echo(out):
    """stdout without the banner, backspaces, option echo lines ('  name = value'), the warnings block
    and the tables printed for wantsol&2 / wantsol&4: what remains is the solve message"""
    out = out.replace('\b', '')
    lines = []
    skip = None
    for l in out.split('\n'):
        if skip == 'warn':
            if l.strip() == '':
                skip = None
                continue
            if not (l.startswith('recsolver 0.0.1:') or 'injected ' in l or 'scripted ' in l):
                continue
            skip = None
        if skip == 'table':
            if l.strip() == '':
                skip = None
            continue
        if l.startswith('------------ WARNINGS'):
            skip = 'warn'
            continue
        if re.match(r'^(variable|constraint)\s+(value|dual value)\s*$', l):
            skip = 'table'
            continue
        if l.startswith('  '):
            continue
        lines.append(l)
    txt = '\n'.join(lines)
    txt = re.sub(r'^recsolver 0\.0\.1: (?=\n|$)', '', txt)
    return txt.strip('\n ')


def observe(case, r):
    """canonical observation: dict(kind=..., ...) + canonical string comparable with Outcome.toStr"""
    rc, err = r['rc'], r['err']
    if rc == 'timeout':
        return {'kind': 'hang'}
    m = re.search(r'ERROR: (AddressSanitizer|LeakSanitizer|UndefinedBehaviorSanitizer)[: ]+([\w-]+)', err)
    m2 = re.search(r'runtime error: ([^\n]{0,80})', err)
    if m or m2:
        what = (m.group(2) if m else 'ubsan:' + re.sub(r'0x[0-9a-f]+|\d+', 'N', m2.group(1))[:50])
        return {'kind': 'crash', 'detail': 'sanitizer:%s' % what, 'frame': top_frame(err)}
    if 'hard rss limit exhausted' in err:
        return {'kind': 'crash', 'detail': 'rss-limit', 'frame': ''}
    if isinstance(rc, int) and rc < 0:
        return {'kind': 'crash', 'detail': 'signal%d%s' % (-rc, ':terminate' if 'terminate called' in err else ''), 'frame': ''}
    if rc == 0 and err.startswith('Error: '):
        return {'kind': 'stderr', 'exit': 0}
    if rc == 0:
        if r['sol'] is not None:
            ps = parse_sol_strict(r['sol'])
            echoed = 0
            if ps:
                ml = [l for l in ps['message'].split('\n') if l.strip()]
                own = [l for l in ml if l.startswith('recsolver 0.0.1:')] or ml[:1]
                key = own[0].replace('recsolver 0.0.1:', '').strip() if own else ''
                echoed = 1 if (key and key in r['out'].replace('\b', '')) and not case.get('ampl') else 0
            if ps is None:
                return {'kind': 'sol', 'complete': 0, 'raw': r['sol'][:300]}
            return {'kind': 'sol', 'complete': 1, 'echoed': echoed, **ps}
        if r['sol_special'] == 'devfull' and 'cannot close file' in err:
            # fmt::BufferedFile's destructor reports the failed fclose on stderr: the writer ran, the data are lost
            return {'kind': 'sol', 'complete': 0, 'raw': '(symlink to /dev/full)', 'err': err[:100]}
        if case.get('info'):
            return {'kind': 'info'}
        rest = strip_echo(r['out'])
        if any(l.startswith('recsolver 0.0.1:') or 'injected ' in l or 'scripted ' in l for l in rest.split('\n')):
            shown = 1
        elif not rest:
            shown = 0 if 'WARNINGS' not in r['out'] else '?'   # an unprefixed message right after a warnings block cannot be told apart
        else:
            shown = 1
        return {'kind': 'stdout', 'shown': shown}
    # rc > 0
    if r['sol'] is not None:
        return {'kind': 'anomaly', 'detail': 'exit %s but a .sol exists' % rc}
    if not err.startswith('Error: '):
        return {'kind': 'anomaly', 'detail': 'exit %s without "Error:" on stderr: %r' % (rc, err[:80])}
    return {'kind': 'stderr', 'exit': rc}


def canon(o):
    k = o['kind']
    if k == 'info':
        return 'info exit=0'
    if k == 'sol':
        if not o['complete']:
            return 'sol complete=0 exit=0'
        return 'sol code=%d ncons=%d nduals=%d nvars=%d nprimals=%d complete=1 echoed=%d exit=0' % (
            o['code'], o['ncons'], o['nduals'], o['nvars'], o['nprimals'], o['echoed'])
    if k == 'stdout':
        return 'stdout shown=%s exit=0' % o['shown']
    if k == 'stderr':
        return 'stderr exit=%d' % o['exit']
    if k == 'crash':
        return 'crash'
    return k


def canon_model(line):
    """bring the Lean driver's line to the same canonical form (drop what cannot be observed)"""
    s = line.split(' | ')[0]
    if s.startswith('sol ') and 'complete=0' in s:
        return 'sol complete=0 exit=0'
    if s.startswith('stdout '):
        return re.sub(r'code=-?\d+ ', '', s)
    return s


# ------------------------------------------------------------------------------------------ classification
def classify_message(case, r, o):
    """for runs whose ending the generator does not know: infer (stage, raise[, code]) from the diagnostic's
    class (never from its free text beyond the class), the recorder log and the code."""
    msg = ''
    if o['kind'] == 'sol' and o.get('complete'):
        msg = o['message']
    elif o['kind'] == 'stderr':
        msg = r['err']
    elif o['kind'] == 'stdout':
        msg = r['out']
    began = '"ev":"begin"' in r['log']
    solved = '"ev":"solve"' in r['log']
    hdr = case.get('header')
    if 'injected ' in msg:
        m = re.search(r'injected (\w+) at (\w+)', msg)
        f = case.get('inject')
        if f:
            return f
    if re.search(r'cannot open file [^\n]*\.nl', msg):
        return ('openNL', 'systemError', None)
    if re.search(r'\.nl:(\d+:\d+|offset \d+): ', msg):
        return ('body' if (o['kind'] != 'stderr') else 'header', 'readError', None)
    if re.search(r'\.(col|row):\d+:\d+: ', msg):
        return ('names', 'readError', None)
    if re.search(r'Unknown option or invalid key|doesn\'t accept an argument|Empty option name|Failed to read option file', msg):
        return ('options', 'plain', None)
    if re.search(r'Invalid value "[^"]*" for option', msg):
        return ('options', 'optionError', None)
    if 'scripted runtime_error' in msg:
        return ('solve', 'stdExn', None)
    if 'scripted mp::Error' in msg:
        return ('solve', 'withCode', case['answer'][0])
    if 'scripted UnsupportedError' in msg:
        return ('solve', 'unsupported', None)
    code = o.get('code') if o['kind'] == 'sol' and o.get('complete') else None
    stage = 'report' if solved else 'convert'
    if code is not None and hdr and not began and (o['ncons'], o['nvars']) != (hdr[0], hdr[1]):
        # the problem was not (completely) populated from the header: NLProblemBuilder::OnHeader threw
        stage = 'populate'
    if 'unsupported: ' in msg or re.search(r'[Uu]nsupported', msg) and code == 1:
        return (stage, 'unsupported', None)
    if 'Model infeasible' in msg:
        return (stage, 'infeas' if code == 200 or code is None else 'wrappedInfeas', None)
    if code is not None:
        if solved and code == case['answer'][0] and not re.search(r'Error|error|failed', msg.split('WARNINGS')[0]):
            return None                      # the solver's answer was reported
        if code == 150:
            return (stage, 'solCheck', None)
        if code == 1:
            return (stage, 'fmtError', None)
        if code == 500:
            return (stage, 'plain', None)
        if code == 200:
            return (stage, 'infeas', None)
        return (stage, 'withCode', code)
    if o['kind'] == 'stdout':
        # no code observable: decide by the recorder log
        if solved and not re.search(r'injected|Error', msg):
            return None
        return (stage, 'plain', None)
    if o['kind'] == 'stderr':
        return ('header' if not began else stage, 'stdExn', None)
    return None


def cause_of(fault):
    if fault is None:
        return 'none'
    st, rz, c = fault
    if rz in ('infeas', 'wrappedInfeas'):
        return 'infeasible'
    if rz == 'withCode' and c is not None and c >= 100:      # BackendApp::Run keeps only codes >= sol::UNCERTAIN
        return 'raised:%d' % c
    if rz == 'solCheck':
        return 'raised:150'
    return 'failure'


def oracle(case, sc, o):
    """The property, evaluated on the observation (independent of the Lean model). Returns a list of
    (signature, text). sc = scenario facts: ending=(stage, raise, code)|None|'info', dims, outpath."""
    dev = []
    ending = sc['ending']
    if o['kind'] in ('hang', 'crash', 'anomaly'):
        d = o.get('detail', o['kind'])
        if o.get('frame') == 'VisitDisequality':
            dev.append(('crash:VisitDisequality-constant-eq', 'crash (%s) in ProblemFlattener::VisitDisequality: a disequality whose sides differ by a constant '
                        '(x != x, y != c with c outside y\'s domain) folds to a constant and eq.get_representing_variable() indexes an empty vector' % d))
            return dev
        if o['kind'] == 'crash' and o.get('frame') == 'name' and sc.get('names_first_empty'):
            dev.append(('crash:NameProvider-empty-first-line', 'crash (%s) in NameProvider::name: the first line of the .col/.row file is empty and *(pos1past-1) reads '
                        'one byte before the file mapping (layout dependent)' % d))
            return dev
        if o['kind'] == 'crash' and o.get('frame') in ('Visit', 'ConvertLogicalCon', 'Convert2Var') and sc.get('undefined_lcons'):
            dev.append(('crash:undefined-logical-constraint', 'crash (%s): the NL header declares logical constraints for which the file has no L segment; '
                        'the flattener visits the null expression' % d))
            return dev
        if o['kind'] == 'hang' and not sc.get('hdr_inconsistent'):
            st = ending[0] if isinstance(ending, tuple) else sc.get('progress', 'unknown')
            dev.append(('hang:%s' % st, 'the driver did not terminate within %d s (stage by construction / last progress: %s); command line: %s'
                        % (TIMEOUT, st, sc.get('cmdline', ''))))
            return dev
        if (o['kind'] == 'hang' or d in ('rss-limit', 'signal9') or d.startswith('sanitizer:allocat') or d.startswith('sanitizer:out-of-memory')) \
                and sc.get('hdr_inconsistent'):
            dev.append(('resource:inconsistent-header-counts', 'NL header with inconsistent counts makes the driver allocate without bound (%s)' % d))
            return dev
        dev.append(('%s:%s:%s' % (o['kind'], d, o.get('frame', '')), 'run ended with %s (%s)' % (o['kind'], d)))
        return dev
    if ending == 'info':
        if o['kind'] != 'info':
            dev.append(('info:unexpected-outcome', 'info-only invocation ended with %s' % canon(o)))
        return dev
    if o['kind'] == 'info':
        dev.append(('model-run:nothing-reported', 'a model run ended with exit 0, no .sol and nothing but usage/version output'))
        return dev
    cause = cause_of(ending)
    rz = ending[1] if ending else None
    if o['kind'] == 'sol':
        if not o['complete']:
            dev.append(('writeerr:devfull' if sc['outpath'] == 'devfull' else 'solfile:malformed',
                        'exit status 0 but <stub>.sol is truncated / not parseable: %r' % o.get('raw', '')[:80]))
            return dev
        hd = sc['dims']
        if hd is not None and (o['ncons'], o['nvars']) != tuple(hd):
            where = {'options': 'optdims', 'populate': 'hdrdims'}.get(ending[0] if ending else '', 'dims')

            dev.append(('%s:%s' % (where, rz), '.sol count lines say %d constraints / %d variables, NL header says %d / %d'
                        % (o['ncons'], o['nvars'], hd[0], hd[1])))
        if o['nduals'] not in (0, o['ncons']) or o['nprimals'] not in (0, o['nvars']):
            dev.append(('blocks', 'value blocks neither empty nor full: nduals=%d ncons=%d nprimals=%d nvars=%d'
                        % (o['nduals'], o['ncons'], o['nprimals'], o['nvars'])))
        c = o['code']
        ok = {'none': lambda: c == sc['answer'][0], 'infeasible': lambda: 200 <= c <= 299, 'failure': lambda: 500 <= c <= 999}
        if cause.startswith('raised:'):
            good = c == int(cause[7:])
        else:
            good = ok[cause]()
        if not good:
            if c == 500 and rz == 'wrappedInfeas':
                dev.append(('infeas500:%s' % ending[0], 'model proven infeasible during conversion ("Model infeasible: …") but the .sol carries solve code 500, not 200-299'))
            elif c == 1 and rz in EXITFAIL:
                dev.append(('code1:%s:%s' % (rz, ending[0]), 'failure (%s at %s) reported with solve code 1 (class "solved") in the .sol' % (rz, ending[0])))
            else:
                dev.append(('codeclass:%s:%d' % (cause, c), 'cause %s but .sol carries solve code %d' % (cause, c)))
    elif o['kind'] == 'stdout':
        if cause != 'none':
            dev.append(('standalone:%s' % ('silent' if not o['shown'] else 'stdout'),
                        'error (%s) without -AMPL/wantsol&1: exit status 0, no .sol, diagnosis %s' %
                        (cause, 'printed on stdout only' if o['shown'] else 'not printed at all (wantsol&8)')))
    elif o['kind'] == 'stderr':
        if o['exit'] == 0:
            dev.append(('ctorcode' if ending and ending[0] == 'ctor' else 'stderr:exit0', 'Error on stderr but exit status 0'))
        cannot = (ending is not None and ending[0] in NO_HANDLER) or sc['outpath'] in ('isdir', 'dangling', 'readonly', 'devfull')
        if not cannot:
            dev.append(('stderr:file-was-possible', 'stderr + exit %d although a .sol could have been written' % o['exit']))
    return dev


# ------------------------------------------------------------------------------------------ scenario line
def tok_str(t):
    if isinstance(t, str):
        return t
    if t[0] == 'F':                                   # option file: ('F', read_fails, [inner tokens])
        return 'F%d:%s' % (t[1], ';'.join(tok_str(x) for x in t[2]))
    return 'w%d' % t[1]


def expand_toks(all_opts):
    """the token sequence in the order ParseOptionString sees it (option files spliced in place,
    a read failure raises after the readable tokens)"""
    out = []
    for _, t in all_opts:
        if not isinstance(t, str) and t[0] == 'F':
            out += list(t[2]) + (['b'] if t[1] else [])
        else:
            out.append(t)
    return out


def scenario_line(case, ending_fault, dims, ans, partial=(0, 0)):
    flags = ''.join(case.get('flags_tok', [])) or '-'
    opts = ','.join(tok_str(t) for _, t in case.get('all_opts', [])) or '-'
    op = case.get('outpath', 'ok')
    can_open = 0 if op in ('isdir', 'dangling', 'readonly') else 1
    can_flush = 0 if op == 'devfull' else can_open
    if ending_fault is None:
        f = 'none'
    else:
        st, rz, c = ending_fault
        f = '%s:%s' % (st, rz) + (':%d' % c if rz == 'withCode' else '')
    return 'run %s %d %d %s %d %d %d %d %d %d %d %s %d %d %d' % (
        flags, 1 if case.get('stub', True) else 0, 1 if case.get('ampl') else 0, opts, 1 if case.get('objno_big') else 0,
        dims[0], dims[1], partial[0], partial[1], can_open, can_flush, f, ans[0], 1 if ans[1] else 0, 1 if ans[2] else 0)


def py_model_ending(case, fault):
    """which part of the case ends the run, for the oracle (mirrors the *order of execution*, nothing else):
    returns 'info' | None | (stage, raise, code)"""
    def before(limit):
        return fault is not None and STAGES.index(fault[0]) < limit
    if before(2):
        return fault
    for f in case.get('flags_tok', []):
        if f == 'i':
            return 'info'
        if f == 'x':
            return ('init', 'optionError', None)
        if f == 'd':
            break
    if not case.get('stub', True):
        return 'info'
    if before(4):
        return fault
    for t in expand_toks(case.get('all_opts', [])):
        if t == 'b':
            return ('options', 'plain', None)
        if t == 'v':
            return ('options', 'optionError', None)
    if before(5):
        return fault
    if case.get('objno_big'):
        return ('options', 'optionError', None)
    if fault is not None and fault[0] == 'suffixes' and fault[1] != 'foreign':
        return None
    return fault


# ------------------------------------------------------------------------------------------ case construction
class CaseGen:
    def __init__(self, seed, tmp):
        self.r = Rng(seed * 7919 + 17)
        self.g = c09gen.G(self.r)
        self.tmp = tmp
        self.n = 0

    def texts(self, m):
        self.n += 1
        return c09gen.nl_text(m, os.path.join(self.tmp, 'g%d' % self.n))

    def base(self, family, m, **kw):
        nl, col, row = self.texts(m)
        hd = c09gen.header_dims(nl)
        c = {'family': family, 'nl': nl, 'col': col, 'row': row, 'header': hd, 'nobjs': len(m.objs), 'stub': True, 'ampl': True,
             'options': [], 'env': {}, 'flags_argv': [], 'flags_tok': [], 'outpath': 'ok', 'natural': None, 'inject': None,
             'answer': (0, True, True), 'script': None}
        c.update(kw)
        return c

    # ---- decorations
    def add_mode(self, c):
        r = self.r
        c['ampl'] = r.chance(2, 3)
        fl = []
        if r.chance(1, 5):
            fl.append(('-s', 's'))
        if r.chance(1, 8):
            fl.append(('-e', 'e'))
        if r.chance(1, 12):
            fl.append(('--', 'd'))
        if r.chance(1, 40):
            fl.append((r.choice(['-x', '-q', '-sx', '-']), 'x'))
        if r.chance(1, 40):
            fl.append((r.choice(['-v', '-?', '-=acc', '-!', '-c', '-a']), 'i'))
            c['info'] = True
        r_fl = fl
        c['flags_argv'] = [a for a, _ in r_fl]
        c['flags_tok'] = [t for _, t in r_fl]
        if any(t == 'd' for t in c['flags_tok']):
            # everything after '--' is the stub; later flags in our list would be taken as the stub: cut
            i = c['flags_tok'].index('d')
            c['flags_argv'], c['flags_tok'] = c['flags_argv'][:i + 1], c['flags_tok'][:i + 1]
            c.pop('info', None)
            if 'i' in c['flags_tok']:
                c['info'] = True
        if 'i' in c['flags_tok'] and 'x' in c['flags_tok'] and c['flags_tok'].index('x') < c['flags_tok'].index('i'):
            c.pop('info', None)
        if 'x' in c['flags_tok']:
            i = c['flags_tok'].index('x')
            if 'i' not in c['flags_tok'][:i]:
                c.pop('info', None)
        if r.chance(1, 30):
            c['stub'] = False
            c['info'] = True
            c['ampl'] = False
        if r.chance(1, 10):
            c['stub_with_ext'] = True

    def add_options(self, c, p_bad=(1, 4)):
        r = self.r
        opts = []
        for _ in range(r.choice([0, 0, 1, 1, 2, 3])):
            k = r.below(10)
            if k < 5:
                opts.append((r.choice(c09gen.OPT_OK), 'o'))
            elif k < 8:
                w = r.choice(c09gen.WANTSOL)
                opts.append((r.choice(['wantsol=%d', 'tech:wantsol=%d']) % w, ('w', w)))
            else:
                opts.append((r.choice(c09gen.OPT_OK), 'o'))
        if r.chance(*p_bad):
            k = r.below(10)
            pos = r.rint(0, len(opts))
            if k < 6:
                opts.insert(pos, (r.choice(c09gen.OPT_BAD), 'b'))
            elif k < 9:
                opts.insert(pos, (r.choice(c09gen.OPT_INVALID), 'v'))
            else:
                # objno beyond the number of objectives: raised after all options have been parsed
                nob = c.get('nobjs', 0)
                opts.insert(pos, (r.choice(['objno=%d', 'obj:no=%d']) % (nob + r.rint(1, 3)), 'o'))
                c['objno_big'] = True
        # an option file somewhere in the list
        if r.chance(1, 5):
            opts.insert(r.rint(0, len(opts)), self.optfile(c))
        # some options come from the environment (parsed before argv)
        envopts = []
        if opts and r.chance(1, 4):
            k = r.rint(1, len(opts))
            envopts, opts = opts[:k], opts[k:]
            var = r.choice(['mp_options', 'recsolver_options'])
            c['env'][var] = ' '.join(t for t, _ in envopts)
        if not c.get('ampl') and r.chance(1, 12) and c.get('stub', True) and opts:
            # -AMPL not directly after the stub: it is then an (unknown) option
            opts.append(('-AMPL', 'b'))
        if not c.get('stub', True):
            opts, envopts = [], envopts     # without a stub the first assignment would be taken as the stub
        c['options'] = opts
        c['all_opts'] = envopts + opts
        # objno beyond the number of objectives (the last assignment wins): raised after all options are parsed
        last = None
        for t, k in c['all_opts']:
            m = re.fullmatch(r'(obj:no|objno)=(\d+)', t)
            if m and k == 'o':
                last = int(m.group(2))
        c['objno_big'] = bool(last is not None and last > c.get('nobjs', 0))

    def optfile(self, c, kind=None):
        """one `tech:optionfile=<path>` item: (text, ('F', read_fails, [inner tokens])); the file goes to c['optfiles']"""
        r = self.r
        kind = kind or r.choice(['valid', 'valid', 'unknown', 'invalid', 'empty', 'nonl', 'comments', 'missing', 'dir', 'procmem'])
        key = r.choice(['tech:optionfile', 'optionfile', 'option:file'])
        if kind == 'missing':
            return ('%s=@DIR@/no-such-file.opt' % key, ('F', 1, []))
        if kind == 'dir':
            return ('%s=@DIR@' % key, ('F', 1, []))
        if kind == 'procmem':
            return ('%s=/proc/self/mem' % key, ('F', 1, []))
        safe = [t for t in c09gen.OPT_OK if not t.startswith(('obj:no', 'objno', 'cvt:names'))]
        lines, toks = [], []
        if kind != 'empty':
            for _ in range(r.rint(0 if kind == 'comments' else 1, 4)):
                k = r.below(8)
                if kind == 'comments' or k == 0:
                    lines.append(r.choice(['# a comment', '   # foo=1 (commented out)', '', '   ', '#wantsol=1']))
                    continue
                if k <= 4:
                    t, tk = r.choice(safe), 'o'
                elif k == 5:
                    w = r.choice(c09gen.WANTSOL); t, tk = 'wantsol=%d' % w, ('w', w)
                else:
                    t2 = r.choice(safe); t, tk = r.choice(safe) + ' ' + t2, 'o'
                    toks.append('o')
                lines.append(r.choice(['', '  ', '\t']) + t)
                toks.append(tk)
            if kind == 'unknown':
                i = r.rint(0, len(lines))
                n_before = sum(1 for l in lines[:i] if l.strip() and not l.strip().startswith('#'))
                # tokens before line i: count them (a line may carry two)
                cnt = 0
                for l in lines[:i]:
                    if l.strip() and not l.strip().startswith('#'):
                        cnt += len(l.split())
                lines.insert(i, r.choice(c09gen.OPT_BAD[:6]))
                toks.insert(cnt, 'b')
            if kind == 'invalid':
                lines.append(r.choice(c09gen.OPT_INVALID[:2]))
                toks.append('v')
        text = '\n'.join(lines) + ('\n' if lines and kind != 'nonl' else '')
        name = 'opts%d.txt' % len(c.setdefault('optfiles', {}))
        c['optfiles'][name] = text
        return ('%s=@DIR@/%s' % (key, name), ('F', 0, toks))

    def add_outpath(self, c):
        r = self.r
        # only where the ending is known by construction: with a failing output path the diagnostic
        # (which the classifier would need) is not observable
        if c.get('natural') is not None and r.chance(1, 5):
            c['outpath'] = r.choice(['isdir', 'dangling', 'devfull'] if os.path.exists('/dev/full') else ['isdir', 'dangling'])

    def add_names(self, c):
        r = self.r
        k = r.below(12)
        if k < 5:
            return
        if k == 5:
            c['col'] = None
        elif k == 6:
            c['row'] = None
        elif k == 7:
            c['col'] = c['row'] = None
        elif k == 8:     # short
            c['col'] = '\n'.join((c['col'] or 'a\n').split('\n')[:1]) + '\n'
        elif k == 9:     # malformed: no final newline -> ReadError at names (if names are read)
            which = r.choice(['col', 'row'])
            # (standalone mode with wantsol&2/4 re-reads the names files inside HandleSolution: not modelled)
            if c[which] and c.get('ampl'):
                c[which] = c[which].rstrip('\n') + 'z'
                c['names_bad'] = which
        elif k == 10:    # empty first line / CRLF / long names
            c['col'] = '\n' + (c['col'] or '')
        else:
            c['col'] = (c['col'] or '').replace('\n', '\r\n')

    def add_fault(self, c, p=(1, 3)):
        r = self.r
        if not r.chance(*p):
            return
        if r.chance(1, 3):
            t = r.choice([1, 2, 3])
            code = r.choice([0, 1, 100, 150, 200, 201, 299, 300, 400, 499, 500, 501, 567, 999, 256, 512, -1, -200])
            c['script'] = 'code %d\nmsg scripted\nthrow %d\n' % (code, t)
            c['answer'] = (code, False, False)
            c['inject'] = ('solve', {1: 'stdExn', 2: 'withCode', 3: 'unsupported'}[t], code if t == 2 else None)
        else:
            site = r.choice([x for x in SITES if x != 'suffixes'])   # (reached only if the standard suffixes did not throw: corpus only)
            kind = r.choice(KINDS)
            code = r.choice([0, 1, 99, 100, 150, 200, 250, 299, 300, 499, 500, 512, 567, 999, 1000, 256, 768, -1, -7, 65536]) if kind == 'withCode' else None
            c['env']['RECSOLVER_FAULT'] = '%s:%s' % (site, kind) + (':%d' % code if code is not None else '')
            c['inject'] = (site, kind, code)
        c['synthetic'] = True

    def add_answer(self, c):
        """arbitrary solve codes from the scripted solver (no vectors: sizes of the solver-side model are not known here)"""
        r = self.r
        if c.get('script') is None and r.chance(1, 2) and not (c.get('inject') and c['inject'][0] == 'suffixes'):
            code = r.choice([0, 0, 1, 2, 99, 100, 101, 150, 199, 200, 201, 299, 300, 349, 350, 399, 400, 449, 450, 499, 500, 501, 550, 600, 999,
                             1000, 5000, -1, -200, r.rint(0, 999)])
            c['script'] = 'code %d\nmsg scripted answer\n' % code
            c['answer'] = (code, False, False)

    def broken_header(self, c):
        r = self.r
        L = c['nl'].split('\n')
        k = r.below(6)
        if k == 0:
            L[1] = ' 2 x 1'
        elif k == 1:
            L = L[:r.rint(1, 9)]
        elif k == 2:
            L[0] = 'q' + L[0][1:]
        elif k == 3:
            L[r.rint(1, 9)] = ' -1 -1 -1'
        elif k == 4:
            L[1] = ' 1 99999999999 1 0 0 0'
        else:
            L[0] = 'g3 1 1 0'
            L[r.rint(2, 9)] = ' a b'
        c['nl'] = '\n'.join(L) + ('\n' if k != 1 else '')
        c['header'] = None
        c['natural'] = ('header', 'readError', None)

    def broken_body(self, c):
        """a garbage segment right after the header lines / at a random segment start"""
        r = self.r
        L = c['nl'].split('\n')
        starts = [i for i in range(10, len(L)) if L[i][:1] in 'CLOrbkJGdxS' and L[i]]
        i = r.choice(starts) if starts else 10
        L.insert(i, r.choice(['Q', 'Z9', 'y 1 2', '%%%', 'c0']))
        c['nl'] = '\n'.join(L)
        c['natural'] = ('body', 'readError', None)

    # ---- families
    def case(self):
        r = self.r
        fam = r.choice(['lp', 'lp', 'mix', 'mix', 'mix', 'infeasible', 'unsupported', 'bigm', 'badheader', 'badbody', 'missing', 'names'])
        if fam == 'lp':
            c = self.base('lp', self.g.model_lp())
            c['natural'] = 'none'
        elif fam == 'mix':
            m = self.g.model_mix(bounded=r.chance(3, 4))
            c = self.base('mix', m)
            c['natural'] = None          # unknown: conversion may fail, inferred from the diagnostic class
            if r.chance(1, 3):
                acc = r.choice(['ALL', 'LinConRange,LinConLE,LinConEQ,LinConGE,QuadConLE,QuadConGE,QuadConEQ,QuadConRange',
                                'LinConRange,LinConLE,LinConEQ,LinConGE,IndicatorLinConLE,IndicatorLinConGE,IndicatorLinConEQ',
                                'LinConRange,LinConLE,LinConEQ,LinConGE,AbsConstraint,MaxConstraint,MinConstraint,OrConstraint,AndConstraint'])
                c['env']['RECSOLVER_ACCEPT'] = acc
        elif fam == 'infeasible':
            m, how = self.g.model_infeasible()
            c = self.base('infeasible:' + how, m)
            c['natural'] = None          # detection during conversion is not guaranteed -> inferred
        elif fam == 'unsupported':
            m, op = self.g.model_unsupported()
            c = self.base('unsupported:' + op, m)
            c['natural'] = ('convert', 'unsupported', None)
        elif fam == 'bigm':
            c = self.base('bigm', self.g.model_bigm())
            c['natural'] = None
            c['env']['RECSOLVER_ACCEPT'] = 'LinConRange,LinConLE,LinConEQ,LinConGE'
        elif fam == 'badheader':
            c = self.base('badheader', self.g.model_lp())
            self.broken_header(c)
        elif fam == 'badbody':
            c = self.base('badbody', self.g.model_lp() if r.chance(1, 2) else self.g.model_mix())
            self.broken_body(c)
        elif fam == 'missing':
            c = self.base('missing', self.g.model_lp())
            c['nl'] = None
            c['header'] = None
            c['natural'] = ('openNL', 'systemError', None)
        else:
            c = self.base('names', self.g.model_lp())
            c['natural'] = 'none'
        self.add_mode(c)
        self.add_options(c)
        self.add_names(c)
        self.add_outpath(c)
        if fam in ('lp', 'mix', 'names', 'infeasible', 'bigm', 'unsupported'):
            self.add_fault(c)
            self.add_answer(c)
        return c

    def malformed(self):
        """mutations of a valid NL text; ending unknown (inferred); the oracle is what counts here"""
        r = self.r
        m = self.g.model_mix() if r.chance(2, 3) else self.g.model_lp()
        c = self.base('malformed', m)
        s = c['nl']
        k = r.below(9)
        L = s.split('\n')
        if k == 0:
            s = s[:r.rint(0, len(s))]
        elif k == 1 and len(L) > 11:
            del L[r.rint(10, len(L) - 1)]
            s = '\n'.join(L)
        elif k == 2 and len(L) > 11:
            i = r.rint(10, len(L) - 1)
            L.insert(i, L[i])
            s = '\n'.join(L)
        elif k == 3:
            i = r.rint(1, 9)
            toks = L[i].split()
            if toks:
                j = r.below(len(toks))
                toks[j] = r.choice(['0', '1', '2', '7', '100', '-1', '2147483647', '1000000'])
                L[i] = ' ' + ' '.join(toks)
            s = '\n'.join(L)
        elif k == 4 and len(L) > 11:
            i = r.rint(10, len(L) - 1)
            L[i] = re.sub(r'\d+', lambda mm: r.choice(['0', '99', '-3', '1e400', 'nan', '4294967296', mm.group(0)]), L[i], count=1)
            s = '\n'.join(L)
        elif k == 5:
            i = r.rint(0, max(0, len(s) - 1))
            s = s[:i] + r.choice(['\x00', '\xff', 'o', 'v', 'n', ' ', '\n', '9']) + s[i + 1:]
        elif k == 6 and len(L) > 11:
            i = r.rint(10, len(L) - 1)
            L[i] = r.choice(['o%d' % r.rint(0, 90), 'v%d' % r.rint(0, 40), 'n1e999', 'f0 1', 'h3:abc', 'o54', '3'])
            s = '\n'.join(L)
        elif k == 7:
            s = s.replace('\n', '\r\n')
        else:
            s = s + r.choice(['S0 1 zork\n0 1\n', 'x1\n99 1\n', 'd1\n0 1\n', 'k0\n', 'b\n', '\n\n', 'V1 0 0\n'])
        c['nl'] = s
        c['header'] = c09gen.header_dims(s)
        c['natural'] = None
        c['ampl'] = r.chance(4, 5)
        c['all_opts'] = []
        if r.chance(1, 4):
            self.add_options(c, p_bad=(0, 1))
        return c


def corpus_cases(cg):
    """fixed cases run first: the counterexample theorems, a calibration of every option token used by the
    generator, every injection site x raise kind, output-path states, the command-line flags."""
    out = []
    g = c09gen.G(Rng(99))

    def lp():
        m = nlgen.Model()
        x = m.var(0, 10); y = m.var(0, 10, True)
        m.obj('min', {x: 1, y: 2}); m.con(1, None, {x: 1, y: 1})
        return m

    def mk(name, **kw):
        c = cg.base('corpus:' + name, lp())
        c['natural'] = 'none'
        c['all_opts'] = []
        c.update(kw)
        if 'options' in kw and 'all_opts' not in kw:
            c['all_opts'] = kw['options']
        out.append(c)
        return c
    mk('plain')
    mk('counterexample_optdims', options=[('foo=1', 'b')])
    c = mk('fixed_code1_body'); cg.broken_body(c)
    c = mk('fixed_code1_names'); c['col'] = 'x\ny'; c['names_bad'] = 'col'
    m = lp(); m.con(0, None, {}, ('rem', ('v', 0), ('n', 3)))
    c = cg.base('corpus:fixed_code1_unsupported', m); c['natural'] = ('convert', 'unsupported', None); c['all_opts'] = []; out.append(c)
    mk('fixed_writeerr', outpath='devfull')
    mk('counterexample_standalone', ampl=False, options=[('foo=1', 'b')])
    mk('counterexample_standalone_silent', ampl=False, options=[('wantsol=8', ('w', 8)), ('foo=1', 'b')])
    mk('counterexample_ctorcode', env={'RECSOLVER_FAULT': 'ctor:withCode:512'}, inject=('ctor', 'withCode', 512), synthetic=True)
    mk('counterexample_foreign', env={'RECSOLVER_FAULT': 'solve:foreign'}, inject=('solve', 'foreign', None), synthetic=True)
    m = lp(); m.lcon(('lt', ('n', 1), ('n', 0)))
    c = cg.base('corpus:infeasible', m); c['natural'] = ('convert', 'infeas', None); c['all_opts'] = []; out.append(c)
    c = cg.base('corpus:bigm', g.model_bigm()); c['natural'] = None; c['all_opts'] = []; out.append(c)
    # binary fixed to 1 and `not (b = 1)`: MP_INFEAS inside PropagateResult, re-raised by ConstraintKeeper with MP_RAISE
    m = lp(); b = m.var(1, 1, True); m.lcon(('not', ('eq', ('v', b), ('n', 1))))
    c = cg.base('corpus:fixed_infeas500', m); c['natural'] = ('convert', 'wrappedInfeas', None); c['all_opts'] = []; out.append(c)
    # inconsistent header: one more nonlinear variable declared than there are variables
    c = mk('counterexample_hdrdims')
    L = c['nl'].split('\n'); L[4] = ' 3 3 3'; c['nl'] = '\n'.join(L); c['natural'] = None
    # a disequality whose two sides cancel: x != x
    m = lp(); m.lcon(('ne', ('v', 0), ('v', 0)))
    c = cg.base('corpus:ne_same', m); c['natural'] = None; c['all_opts'] = []; out.append(c)
    # header claiming 2^31-1 nonlinear variables (bounded here by the allocator limits of the sanitizer run time)
    c = mk('hdr_huge_count')
    L = c['nl'].split('\n'); L[4] = ' 2 2 2147483647'; c['nl'] = '\n'.join(L); c['natural'] = None
    # header claiming 2^31-1 variables for a 20-line file
    c = mk('hdr_huge_nvars')
    L = c['nl'].split('\n'); L[1] = ' 2147483647 1 1 0 0 0'; c['nl'] = '\n'.join(L); c['natural'] = None; c['header'] = c09gen.header_dims(c['nl'])
    # header declaring 100 logical constraints, none defined
    c = mk('undefined_lcons')
    L = c['nl'].split('\n'); L[1] = ' 2 1 1 0 0 100'; c['nl'] = '\n'.join(L); c['natural'] = None
    # y != c with c outside y's domain inside a count (the lead's / C19's reproducer)
    m = nlgen.Model(); x = m.var(-4, 8); y = m.var(0, 2, True); m.obj('min', {x: 1})
    m.con(None, 3, {x: 1}, ('count', [('ne', ('v', y), ('n', 3)), ('le', ('v', x), ('n', 1))]))
    c = cg.base('corpus:ne_outside_domain', m); c['natural'] = None; c['all_opts'] = []; out.append(c)
    # first line of the .col file empty, standalone mode printing the solution
    c = mk('names_first_line_empty', ampl=False, flags_argv=['-s'], flags_tok=['s'], options=[('wantsol=3', ('w', 3))])
    c['col'] = '\n' + c['col']
    for op in ('isdir', 'dangling'):
        mk('outpath_' + op, outpath=op)
        mk('outpath_%s_err' % op, outpath=op, options=[('foo=1', 'b')])
    mk('noampl', ampl=False)
    mk('noampl_wantsol', ampl=False, options=[('wantsol=1', ('w', 1))])
    mk('noampl_s', ampl=False, flags_argv=['-s'], flags_tok=['s'])
    mk('bad_after_wantsol', ampl=False, options=[('wantsol=1', ('w', 1)), ('foo=1', 'b')])
    mk('bad_before_wantsol', ampl=False, options=[('foo=1', 'b'), ('wantsol=1', ('w', 1))])
    mk('objno_big', options=[('objno=5', 'o')], objno_big=True)
    mk('missing', nl=None, header=None, natural=('openNL', 'systemError', None))
    c = mk('badheader'); cg.broken_header(c)
    for f in ['-v', '-?', '-=acc', '-!', '-c', '-a']:
        mk('flag' + f, flags_argv=[f], flags_tok=['i'], info=True)
    mk('flag-x', flags_argv=['-x'], flags_tok=['x'])
    mk('flag--', flags_argv=['--'], flags_tok=['d'], ampl=False)
    mk('nostub', stub=False, ampl=False, info=True)
    mk('stub.nl', stub_with_ext=True)
    mk('AMPL-late', ampl=False, options=[('cvt:bigM=10', 'o'), ('-AMPL', 'b')])
    for kind in ['valid', 'unknown', 'invalid', 'empty', 'nonl', 'comments', 'missing', 'dir', 'procmem']:
        for rep in range(3 if kind in ('valid', 'unknown') else 1):
            c = mk('optfile:%s' % kind)
            item = cg.optfile(c, kind)
            c['options'] = [('cvt:bigM=7', 'o'), item, ('wantsol=1', ('w', 1))]
            c['all_opts'] = c['options']
        c = mk('optfile-standalone:%s' % kind, ampl=False)
        c['options'] = [cg.optfile(c, kind)]
        c['all_opts'] = c['options']
    for t in c09gen.OPT_OK:
        mk('opt-ok:' + t, options=[(t, 'o')])
    for t in c09gen.OPT_BAD:
        mk('opt-bad:' + t, options=[(t, 'b')])
    for t in c09gen.OPT_INVALID:
        mk('opt-invalid:' + t, options=[(t, 'v')])
    for w in c09gen.WANTSOL:
        mk('wantsol=%d' % w, ampl=False, options=[('wantsol=%d' % w, ('w', w))])
    for site in SITES:
        for kind in KINDS:
            codes = [512, -7, 0, 250] if kind == 'withCode' else [None]
            for code in codes:
                mk('inject:%s:%s' % (site, kind), env={'RECSOLVER_FAULT': '%s:%s' % (site, kind) + (':%d' % code if code is not None else '')},
                   inject=(site, kind, code), synthetic=True)
    for t, k in ((1, 'stdExn'), (2, 'withCode'), (3, 'unsupported')):
        mk('script-throw%d' % t, script='code 250\nmsg s\nthrow %d\n' % t, answer=(250, False, False),
           inject=('solve', k, 250 if t == 2 else None), synthetic=True)
    for code in (0, 1, 99, 100, 200, 299, 300, 400, 500, 567, 999, 1000, -1):
        mk('script-code%d' % code, script='code %d\nmsg s\n' % code, answer=(code, False, False))
    return out


# ------------------------------------------------------------------------------------------ main
def evaluate(case, r):
    """returns (obs, ending_fault(for model), sc(for oracle), inferred(bool))"""
    o = observe(case, r)
    # which non-option fault is first?  natural (by construction) vs injected vs names
    cands = []
    nat = case.get('natural')
    inferred = False
    if nat is None:
        inf = classify_message(case, r, o)
        inferred = True
        if inf is not None:
            cands.append(inf)
    elif nat != 'none':
        cands.append(nat)
    if case.get('names_bad'):
        mode = '1'                           # cvt:names: the last assignment wins; 0 and 3 do not read the files
        for t, _ in case.get('all_opts', []):
            if t.startswith('cvt:names='):
                mode = t.split('=', 1)[1]
        if mode in ('1', '2'):
            cands.append(('names', 'readError', None))
    if case.get('inject'):
        cands.append(case['inject'])
    fault = min(cands, key=lambda f: STAGES.index(f[0])) if cands else None
    # an injected 'convert' fault fires when the model is pushed to the ModelAPI, i.e. after a natural conversion failure
    if fault and case.get('inject') and fault == case['inject'] and fault[0] == 'convert':
        others = [f for f in cands if f != fault and f[0] == 'convert']
        if others:
            fault = others[0]
    return o, fault, inferred


def run(ck):
    ck.level = 'proof'
    ck.notes.append('PARTIAL: proof about the hand model of the outcome decision logic + sampled correspondence with the real driver; '
                    'termination / crash freedom of the C++ is observed only (ASan+UBSan, timeout) on the generated inputs')
    proof_ok, failing = ck.proof_stage('MpVerif.C09.Props', 'MpVerif/C09/Props.lean', 'C09_',
                                        ['MpVerif/C09/*.lean'], expect_min=33)
    ck.log('proof stage: ok=%s failing=%s' % (proof_ok, failing[:8]))
    if ck.tier == 'thorough' and proof_ok:
        bad = ck.leanchecker(['MpVerif.C09.Props'])
        if bad:
            failing += ['leanchecker rejected %s' % m for m in bad]
            proof_ok = False
    exe = recsolver.build(ck, flags=SAN, name='recsolver_san')
    drv = ck.driver('drv_c09')
    ck.log('built %s' % os.path.basename(exe))
    work = os.path.join(BUILD, 'c09.work')
    shutil.rmtree(work, ignore_errors=True)
    os.makedirs(work)
    cg = CaseGen(ck.seed, work)
    cases = corpus_cases(cg)
    n_corpus = len(cases)
    n_rand, n_mal = (700, 300) if ck.tier == 'quick' else (9000, 4000)
    for _ in range(n_rand):
        cases.append(cg.case())
    for _ in range(n_mal):
        cases.append(cg.malformed())
    for i, c in enumerate(cases):
        c['id'] = i
        c.setdefault('all_opts', c.get('options', []))
    ck.log('%d cases (%d corpus, %d structured, %d malformed)' % (len(cases), n_corpus, n_rand, n_mal))

    def one(c):
        return run_case(c, os.path.join(work, 'c%d' % c['id']), exe)
    t0 = time.time()
    with ThreadPoolExecutor(max_workers=6) as ex:
        results = list(ex.map(one, cases))
    ck.log('ran %d processes in %.1fs (max single %.2fs)' % (len(cases), time.time() - t0, max(r['wall'] for r in results)))

    lines, evals = [], []
    for c, r in zip(cases, results):
        o, fault, inferred = evaluate(c, r)
        hd = c.get('header')
        dims = (hd[0], hd[1]) if hd else (0, 0)
        ans = c.get('answer', (0, True, True))
        if c.get('script') is None and o['kind'] == 'sol' and o.get('complete'):
            # which vectors the (unscripted) solver stub returns after postsolve is part of the solver's answer, not of the driver logic
            ans = (ans[0], o['nprimals'] > 0, o['nduals'] > 0)
        partial = (o['ncons'], o['nvars']) if (fault and fault[0] == 'populate' and o['kind'] == 'sol' and o.get('complete')) else (0, 0)
        lines.append(scenario_line(c, fault, dims, ans, partial))
        evals.append((o, fault, inferred))
    p = subprocess.run([drv], input='\n'.join(lines) + '\n', capture_output=True, text=True)
    model = p.stdout.split('\n')

    hist = {'family': {}, 'outcome': {}, 'ending': {}, 'deviation': {}, 'outpath': {}, 'mode': {}}
    rows = set()
    distinct = set()
    n_cmp = n_dis = n_inferred = n_latent = 0
    inferred_dis = []

    def bump(h, k):
        hist[h][k] = hist[h].get(k, 0) + 1
    for idx, (c, r) in enumerate(zip(cases, results)):
        o, fault, inferred = evals[idx]
        hd = c.get('header')
        ml = model[idx] if idx < len(model) else ''
        obs_s = canon(o)
        mod_s = canon_model(ml)
        if 'shown=?' in obs_s:
            mod_s = re.sub(r'shown=\d', 'shown=?', mod_s)
        ending = py_model_ending(c, fault)
        fam = c['family'].split(':')[0] if not c['family'].startswith('corpus') else 'corpus'
        bump('family', fam)
        bump('outcome', obs_s.split(' ')[0] + ('' if o['kind'] != 'sol' or not o.get('complete') else ':%d' % (o['code'] // 100 * 100)))
        bump('ending', 'info' if ending == 'info' else ('none' if ending is None else '%s:%s' % (ending[0], ending[1])))
        bump('outpath', c.get('outpath', 'ok'))
        bump('mode', ('ampl' if c.get('ampl') else 'standalone'))
        if ending not in (None, 'info'):
            rows.add((ending[0], ending[1]))
        distinct.add((fam, obs_s, str(ending), c.get('outpath'), bool(c.get('ampl'))))
        n_inferred += inferred
        replay = {'case': {k: v for k, v in c.items() if k not in ('id',)}, 'observed': obs_s, 'model': ml,
                  'scenario_line': lines[idx], 'cmdline': r.get('cmdline'), 'env': r.get('env'), 'stdout': r['out'][-600:], 'stderr': r['err'][-1500:],
                  'sol': (r['sol'] or '')[:600], 'how': './check C09 --replay <this file>'}
        # (a) correspondence model vs implementation
        n_cmp += 1
        corr_bad = (ml == 'bad-op' or obs_s != mod_s)
        # (b) the property itself on what the implementation did
        sc = {'ending': ending, 'dims': (hd[0], hd[1]) if hd else None, 'outpath': c.get('outpath', 'ok'),
              'answer': c.get('answer', (0, True, True)), 'hdr_inconsistent': c09gen.header_inconsistent(c['nl']) if c.get('nl') else False,
              'undefined_lcons': c09gen.undefined_logical_cons(c['nl']) if c.get('nl') else False,
              'cmdline': r.get('cmdline', ''),
              'progress': 'report' if '"ev":"solve"' in r['log'] else ('convert' if '"ev":"begin"' in r['log'] else 'read-or-options'),
              'names_first_empty': any((c.get(e) or 'x').startswith(('\n', '\r')) for e in ('col', 'row'))}
        devs = oracle(c, sc, o)
        latent = c.get('synthetic') and c.get('inject') and (
            (c['inject'][1] == 'foreign') or (c['inject'][0] == 'ctor'))
        for sig, text in devs:
            bump('deviation', sig.split(':')[0] + (':latent-injection' if latent and sig.split(':')[0] in ('crash', 'ctorcode') else ''))
            if latent and sig.split(':')[0] in ('crash', 'ctorcode') and not corr_bad:
                n_latent += 1        # model row validated by injection; not an input of the property's domain
                continue
            ck.add_violation(sig, '%s  [family %s, argv tail %s]' % (text, c['family'], ' '.join(
                c.get('flags_argv', []) + (['<stub>'] if c.get('stub', True) else []) + (['-AMPL'] if c.get('ampl') else []) + [t for t, _ in c.get('options', [])])),
                replay, found_input=True)
        if corr_bad and any(sig.split(':')[0] in ('crash', 'hang', 'resource', 'anomaly') for sig, _ in devs):
            n_crash_unpredicted = True       # crashes of the real code are not rows of the decision table; reported above
        elif corr_bad:
            n_dis += 1
            if not devs and inferred:
                # the ending fed to the model was only guessed from the diagnostic's class and the driver's behaviour
                # satisfies the property: recorded; fatal only if it happens more than occasionally (see below)
                inferred_dis.append((lines[idx], mod_s, obs_s, replay))
            elif not devs:
                # the real code satisfies the property here but the model predicts something else: model drift
                ck.add_violation('model-differs:%s' % ('inferred' if inferred else 'constructed'),
                                 'model predicts "%s" but the driver did "%s" (scenario: %s)' % (mod_s, obs_s, lines[idx]),
                                 replay, found_input=False)
            else:
                # property violated *and* not as the model (which reproduces the known deviations) predicts
                ck.add_violation('unmodelled:' + devs[0][0], 'deviation not predicted by the model: model "%s", driver "%s": %s' % (mod_s, obs_s, devs[0][1]),
                                 replay, found_input=True)
        if idx % 97 == 0:
            ck.sample('%s => %s' % (lines[idx], obs_s))
    if len(inferred_dis) > max(3, n_inferred // 500):
        l, mo, ob, rp = inferred_dis[0]
        ck.add_violation('model-differs:inferred', '%d runs with an inferred ending disagree with the model although the property holds, e.g. '
                         'model "%s", driver "%s" (scenario: %s)' % (len(inferred_dis), mo, ob, l), rp, found_input=False)
    elif inferred_dis:
        ck.notes.append('%d run(s) with an ending inferred from the diagnostic class disagree with the model while satisfying the property '
                        '(classifier ambiguity), e.g. %s => model "%s", driver "%s"' % (len(inferred_dis),) + inferred_dis[0][:3])
    ck.cov.update({
        'evaluations': len(cases),
        'traces_validated_against_impl': n_cmp,
        'correspondence': {'runs_compared_model_vs_driver': n_cmp, 'disagreements': n_dis,
                           'endings_known_by_construction': n_cmp - n_inferred, 'endings_inferred_from_diagnostic_class': n_inferred,
                           'inferred_disagreements_property_holds': len(inferred_dis)},
        'distinct_nontrivial': len(distinct),
        'rule': 'distinct (model family, canonical outcome, ending (stage,raise), output-path state, -AMPL) tuples over all process runs',
        'table_rows_hit': {'stage_x_raise_pairs_observed': len(rows), 'of': len(STAGES) * len(KINDS)},
        'latent_rows_validated_by_injection_only': n_latent,
        'histogram': hist,
        'exhaustive': False,
        'sanitizers': 'ASan+UBSan (vptr check off: CRTP static_cast in FlatConverter ctor fires on every run), per-run timeout %ds' % TIMEOUT,
    })
    ck.log('outcomes: %s' % json.dumps(hist['outcome'], sort_keys=True))
    ck.log('endings: %s' % json.dumps(hist['ending'], sort_keys=True))
    ck.log('deviations: %s   correspondence disagreements: %d   inferred endings: %d   rows hit: %d' %
           (json.dumps(hist['deviation'], sort_keys=True), n_dis, n_inferred, len(rows)))
    if not proof_ok:
        for fdecl in failing:
            ck.add_violation('obligation:%s' % fdecl, 'proof obligation no longer checks: %s' % fdecl,
                             {'theorem': fdecl, 'module': 'MpVerif.C09.Props',
                              'searched': '%d driver runs; see other violations for failing inputs' % len(cases)}, found_input=False)
    ck.assumptions += [
        'crash/hang freedom and memory safety are OBSERVED only (sanitizer build, timeout) on the generated inputs: the property is decided partially',
        'the model is a hand-extracted decision table (stage x raise kind x mode x output path); its agreement with the driver is sampled on every run',
        'exceptions reaching the catch clauses are std::exception-derived (no throw site of another type is known outside ConvertItems)',
        'the solver answers with well-sized vectors (wrong-sized solver vectors are C04\'s subject)',
        'text NL input; NL headers with at least one AMPL option (zero options: C05/A8)',
    ]
    ck.cov['trusted_base'] += ['harness/recsolver (fault injection via RECSOLVER_FAULT at 8 sites), checks/c09.py (strict .sol parser, classifier of diagnostics into (stage, raise))']
    shutil.rmtree(work, ignore_errors=True)


def replay(ck, path):
    ck.level = 'proof'
    rep = json.load(open(path))
    case = rep['replay']['case'] if 'replay' in rep else rep['case']
    for k in ('options', 'all_opts'):
        case[k] = [(t, tuple(x) if isinstance(x, list) else x) for t, x in case.get(k, [])]
    for k in ('natural', 'inject'):
        if isinstance(case.get(k), list):
            case[k] = tuple(case[k])
    case['answer'] = tuple(case.get('answer', (0, True, True)))
    exe = recsolver.build(ck, flags=SAN, name='recsolver_san')
    d = os.path.join(BUILD, 'c09.replay')
    shutil.rmtree(d, ignore_errors=True)
    r = run_case(case, d, exe)
    o, fault, inferred = evaluate(case, r)
    hd = case.get('header')
    ending = py_model_ending(case, fault)
    sc = {'ending': ending, 'dims': (hd[0], hd[1]) if hd else None, 'outpath': case.get('outpath', 'ok'), 'answer': case['answer']}
    devs = oracle(case, sc, o)
    stub, argv, env = materialise(case, os.path.join(BUILD, 'c09.replay2'), exe) if False else (None, None, None)
    print('observed: %s' % canon(o))
    print('stdout: %r\nstderr: %r\nsol: %r' % (r['out'][-400:], r['err'][-800:], (r['sol'] or '')[:400]))
    for sig, text in devs:
        print('DEVIATION %s: %s' % (sig, text))
        ck.add_violation(sig, text, {'case': case, 'observed': canon(o)}, found_input=True)
    print('files left in %s' % d)
    return ck.finish()

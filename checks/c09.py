"""C09 — a driver run always ends in a well-formed result or a diagnosed failure.

1. proof obligations: lean/MpVerif/C09/Props.lean (decision model of RunBackendApp/Run/ReportError/
   MakeProperSolutionHandler/HandleSolution/WriteSolFile; theorems over all stages x raise kinds x codes x
   dimensions x modes x option/flag lists x output-path states)
2. tie: the real driver (harness/recsolver, ASan+UBSan build of the current tree) is run as a process on
   generated cases; what it leaves behind (exit status, stderr class, stdout, full strict parse of <stub>.sol)
   is canonicalised and compared with the model's prediction for the same scenario (drv_c09)
3. property oracle (python, independent of the Lean model) on every observed run
Crash/hang freedom is *observed only* (sanitizers + timeout) -> level 'partial'.
"""
import os, sys, re, json, shutil, subprocess, time, hashlib
from concurrent.futures import ThreadPoolExecutor
from common import *
import recsolver
sys.path.insert(0, os.path.join(VERIF, 'gen'))
import nlgen, c09gen
from nlgen import Rng

SAN = ('-O1', '-g', '-fsanitize=address,undefined', '-fno-sanitize-recover=all', '-fno-sanitize=vptr')
STAGES = ['ctor', 'init', 'openNL', 'header', 'options', 'populate', 'body', 'names', 'convert', 'extras', 'solve', 'report', 'suffixes']
NO_HANDLER = {'ctor', 'init', 'openNL', 'header'}
SITES = ['ctor', 'init', 'options', 'convert', 'extras', 'solve', 'report', 'suffixes']
KINDS = ['plain', 'withCode', 'infeas', 'solCheck', 'unsupported', 'optionError', 'readError', 'fmtError', 'systemError', 'stdExn', 'foreign']
EXITFAIL = {'unsupported', 'readError', 'fmtError'}
TIMEOUT = 40
ASAN = 'detect_leaks=0:abort_on_error=0:allocator_may_return_null=1:max_allocation_size_mb=512:hard_rss_limit_mb=1500'


# ------------------------------------------------------------------------------------------ strict .sol parser
def parse_sol_strict(text):
    """Grammar of mp::WriteSolFile, consumed completely; returns dict or None.
    message lines, 'Options', n, n option lines, ncons, nduals, nvars, nprimals, nduals numbers, nprimals numbers,
    'objno a b', then suffix blocks; nothing may be left over and the file must end with a newline."""
    if not text.endswith('\n'):
        return None
    L = text[:-1].split('\n')
    try:
        i = L.index('Options')
    except ValueError:
        return None
    msg = L[:i]
    i += 1

    def integer(s):
        if not re.fullmatch(r'-?\d+', s):
            raise ValueError(s)
        return int(s)

    def number(s):
        if not re.fullmatch(r'[-+]?(\d+\.?\d*([eE][-+]?\d+)?|\.\d+([eE][-+]?\d+)?|inf|nan|infinity)', s, re.I):
            raise ValueError(s)
        return float(s)
    try:
        nopt = integer(L[i]); i += 1
        if not (1 <= nopt <= 9):
            return None
        opts = [integer(L[i + k]) for k in range(nopt)]; i += nopt
        ncons, nduals, nvars, nprimals = (integer(L[i + k]) for k in range(4)); i += 4
        if min(ncons, nduals, nvars, nprimals) < 0:
            return None
        dual = [number(L[i + k]) for k in range(nduals)]; i += nduals
        primal = [number(L[i + k]) for k in range(nprimals)]; i += nprimals
        m = re.fullmatch(r'objno (-?\d+) (-?\d+)', L[i])
        if not m:
            return None
        objno, code = int(m.group(1)), int(m.group(2)); i += 1
        nsuf = 0
        while i < len(L):
            m = re.fullmatch(r'suffix (\d+) (\d+) (\d+) (\d+) (\d+)', L[i])
            if not m:
                return None
            kind, n, namelen, tablen, tablines = (int(t) for t in m.groups())
            name = L[i + 1]
            if len(name) + 1 != namelen:
                return None
            i += 2 + tablines
            limit = {0: nvars, 1: ncons, 2: None, 3: 1}[kind & 3]
            for _ in range(n):
                a = L[i].split(' ')
                if len(a) != 2:
                    return None
                idx = integer(a[0]); number(a[1])
                if idx < 0 or (limit is not None and idx >= max(limit, 1)):
                    return None
                i += 1
            nsuf += 1
    except (IndexError, ValueError):
        return None
    return {'message': '\n'.join(msg), 'ncons': ncons, 'nduals': nduals, 'nvars': nvars, 'nprimals': nprimals,
            'objno': objno, 'code': code, 'nsuf': nsuf}


# ------------------------------------------------------------------------------------------ running one case
def materialise(case, d, exe):
    os.makedirs(d, exist_ok=True)
    stub = os.path.join(d, 'm')
    if case.get('nl') is not None:
        open(stub + '.nl', 'w', encoding='latin-1', newline='').write(case['nl'])
    for ext in ('col', 'row'):
        if case.get(ext) is not None:
            open(stub + '.' + ext, 'w', encoding='latin-1', newline='').write(case[ext])
    for name, content in (case.get('optfiles') or {}).items():
        open(os.path.join(d, name), 'w', encoding='latin-1', newline='').write(content)
    op = case.get('outpath', 'ok')
    if op == 'isdir':
        os.makedirs(stub + '.sol')
    elif op == 'dangling':
        os.symlink(os.path.join(d, 'no', 'such', 'dir', 'm.sol'), stub + '.sol')
    elif op == 'devfull':
        os.symlink('/dev/full', stub + '.sol')
    env = {k: v for k, v in os.environ.items() if not k.endswith('_options') and not k.startswith('RECSOLVER_')}
    env['ASAN_OPTIONS'] = ASAN
    env['UBSAN_OPTIONS'] = 'print_stacktrace=1'
    env['RECSOLVER_LOG'] = stub + '.reclog'
    env.update({k: v.replace('@DIR@', d) for k, v in case.get('env', {}).items()})
    if case.get('script') is not None:
        open(stub + '.script', 'w').write(case['script'])
        env['RECSOLVER_SCRIPT'] = stub + '.script'
    exe0 = exe
    if case.get('exe_alias'):                      # e.g. rs.exe: BasicSolver::ParseOptions strips .exe/.app for <exe>_options
        exe0 = os.path.join(d, case['exe_alias'])
        if not os.path.lexists(exe0):
            os.symlink(exe, exe0)
    base = os.path.basename(exe0)
    if base.endswith('.exe') or base.endswith('.app'):
        base = base[:-4]
    env = {k.replace('@EXE@', base): v for k, v in env.items()}
    argv = [exe0] + list(case.get('flags_argv', []))
    if case.get('stub', True):
        # cwd is the case directory: a relative stub has no dot anywhere in the argument
        argv.append(('m' if case.get('stub_relative') else stub) + ('.nl' if case.get('stub_with_ext') else ''))
    if case.get('ampl'):
        argv.append('-AMPL')
    argv += [t.replace('@DIR@', d) for t, _ in case.get('options', [])]
    return stub, argv, env


def run_case(case, d, exe):
    stub, argv, env = materialise(case, d, exe)
    t0 = time.time()
    retried = False
    while True:
        try:
            p = subprocess.run(argv, capture_output=True, env=env, timeout=case.get('timeout', TIMEOUT), cwd=d)
            rc, out, err = p.returncode, p.stdout.decode('latin-1'), p.stderr.decode('latin-1')
        except subprocess.TimeoutExpired:
            rc, out, err = 'timeout', '', ''
            if not retried and 'timeout' not in case:
                # a hang of the driver is deterministic and shows again; a stall of the (shared, loaded) machine does not:
                # the run is repeated once from the same files before it is reported as a hang
                retried = True
                if os.path.isfile(stub + '.reclog'):
                    os.remove(stub + '.reclog')          # (<stub>.sol is opened "wb" by the driver; its prepared state is kept)
                continue
        break
    r = {'rc': rc, 'out': out, 'err': err, 'wall': time.time() - t0, 'retried_after_timeout': retried, 'sol': None, 'sol_special': None, 'log': '',
         'cmdline': ' '.join(argv), 'env': {k: v for k, v in env.items() if k.endswith('_options') or k.startswith('RECSOLVER_')}}
    sp = stub + '.sol'
    if os.path.islink(sp) or os.path.isdir(sp):
        r['sol_special'] = case.get('outpath')
    elif os.path.exists(sp):
        r['sol'] = open(sp, encoding='latin-1', newline='').read()
    if os.path.exists(stub + '.reclog'):
        r['log'] = open(stub + '.reclog', errors='replace').read()
    import glob as _g
    r['alts'] = {os.path.basename(f): open(f, encoding='latin-1', newline='').read() for f in sorted(_g.glob(os.path.join(d, 'alt*.sol')))}
    r['exported'] = sorted(os.path.basename(f) for f in _g.glob(os.path.join(d, 'export*.lp')))
    return r


def top_frame(err):
    """name of the innermost mp:: function in a sanitizer stack trace (template arguments removed)"""
    for l in err.split('\n'):
        m = re.match(r'\s*#\d+ 0x[0-9a-f]+ in (.*?)( /| \(/|$)', l)
        if not m or 'mp::' not in m.group(1):
            continue
        t = m.group(1)
        prev = None
        while prev != t:
            prev = t
            t = re.sub(r'<[^<>]*>', '', t)
        t = re.sub(r'\(.*$', '', t)
        names = re.findall(r'([A-Za-z_]\w*)\s*$', t)
        return names[0] if names else t[-40:]
    return ''


def strip_echo(out):
    """stdout without the banner, backspaces, option echo lines ('  name = value'), the warnings block
    and the tables printed for wantsol&2 / wantsol&4: what remains is the solve message"""
    out = out.replace('\b', '')
    out = re.sub(r'^recsolver 0\.0\.1: (?=  )', '', out)      # banner directly followed by an option echo
    lines = []
    skip = None
    for l in out.split('\n'):
        if skip == 'warn':
            if l.strip() == '':
                skip = None
                continue
            if not (l.startswith('recsolver 0.0.1:') or 'injected ' in l or 'scripted ' in l):
                continue
            skip = None
        if skip == 'table':
            if l.strip() == '':
                skip = None
            continue
        if l.startswith('------------ WARNINGS'):
            skip = 'warn'
            continue
        if re.match(r'^(variable|constraint)\s+(value|dual value)\s*$', l):
            skip = 'table'
            continue
        if l.startswith('  '):
            continue
        if re.match(r'^(NL model read time|NL model conversion time|Setup time|Solution time|Output time) = ', l):
            continue                       # tech:timing=1
        if re.match(r'^AMPL/recsolver Optimizer', l):
            continue                       # `version`
        lines.append(l)
    txt = '\n'.join(lines)
    txt = re.sub(r'^recsolver 0\.0\.1: (?=\n|$)', '', txt)
    return txt.strip('\n ')


def observe(case, r):
    """canonical observation: dict(kind=..., ...) + canonical string comparable with Outcome.toStr"""
    rc, err = r['rc'], r['err']
    if rc == 'timeout':
        return {'kind': 'hang'}
    m = re.search(r'ERROR: (AddressSanitizer|LeakSanitizer|UndefinedBehaviorSanitizer)[: ]+([\w-]+)', err)
    m2 = re.search(r'runtime error: ([^\n]{0,80})', err)
    if m or m2:
        what = (m.group(2) if m else 'ubsan:' + re.sub(r'0x[0-9a-f]+|\d+', 'N', m2.group(1))[:50])
        return {'kind': 'crash', 'detail': 'sanitizer:%s' % what, 'frame': top_frame(err)}
    if 'hard rss limit exhausted' in err:
        return {'kind': 'crash', 'detail': 'rss-limit', 'frame': ''}
    if isinstance(rc, int) and rc < 0:
        return {'kind': 'crash', 'detail': 'signal%d%s' % (-rc, ':terminate' if 'terminate called' in err else ''), 'frame': ''}
    if rc == 0 and err.startswith('Error: '):
        return {'kind': 'stderr', 'exit': 0}
    if rc == 0:
        if r['sol'] is not None:
            ps = parse_sol_strict(r['sol'])
            echoed = 0
            if ps:
                ml = [l for l in ps['message'].split('\n') if l.strip()]
                own = [l for l in ml if l.startswith('recsolver 0.0.1:')] or ml[:1]
                key = own[0].replace('recsolver 0.0.1:', '').strip() if own else ''
                echoed = 1 if (key and key in r['out'].replace('\b', '')) and not case.get('ampl') else 0
            if ps is None:
                return {'kind': 'sol', 'complete': 0, 'raw': r['sol'][:300]}
            return {'kind': 'sol', 'complete': 1, 'echoed': echoed, **ps}
        if r['sol_special'] == 'devfull' and 'cannot close file' in err:
            # fmt::BufferedFile's destructor reports the failed fclose on stderr: the writer ran, the data are lost
            return {'kind': 'sol', 'complete': 0, 'raw': '(symlink to /dev/full)', 'err': err[:100]}
        if case.get('info'):
            return {'kind': 'info'}
        rest = strip_echo(r['out'])
        if not rest and 'exportonly.lp' in r.get('exported', []):
            return {'kind': 'silent'}          # model exported, nothing solved, nothing reported
        if any(l.startswith('recsolver 0.0.1:') or 'injected ' in l or 'scripted ' in l for l in rest.split('\n')):
            shown = 1
        elif not rest:
            shown = 0 if 'WARNINGS' not in r['out'] else '?'   # an unprefixed message right after a warnings block cannot be told apart
        else:
            shown = 1
        return {'kind': 'stdout', 'shown': shown}
    # rc > 0
    if r['sol'] is not None:
        return {'kind': 'anomaly', 'detail': 'exit %s but a .sol exists' % rc}
    if not err.startswith('Error: '):
        return {'kind': 'anomaly', 'detail': 'exit %s without "Error:" on stderr: %r' % (rc, err[:80])}
    return {'kind': 'stderr', 'exit': rc}


def canon(o):
    k = o['kind']
    if k == 'info':
        return 'info exit=0'
    if k == 'silent':
        return 'silent exit=0'
    if k == 'sol':
        if not o['complete']:
            return 'sol complete=0 exit=0'
        return 'sol code=%d ncons=%d nduals=%d nvars=%d nprimals=%d complete=1 echoed=%d exit=0' % (
            o['code'], o['ncons'], o['nduals'], o['nvars'], o['nprimals'], o['echoed'])
    if k == 'stdout':
        return 'stdout shown=%s exit=0' % o['shown']
    if k == 'stderr':
        return 'stderr exit=%d' % o['exit']
    if k == 'crash':
        return 'crash'
    return k


def canon_model(line):
    """bring the Lean driver's line to the same canonical form (drop what cannot be observed)"""
    s = line.split(' | ')[0]
    if s.startswith('sol ') and 'complete=0' in s:
        return 'sol complete=0 exit=0'
    if s.startswith('stdout '):
        return re.sub(r'code=-?\d+ ', '', s)
    return s


# ------------------------------------------------------------------------------------------ classification
def classify_message(case, r, o):
    """for runs whose ending the generator does not know: infer (stage, raise[, code]) from the diagnostic's
    class (never from its free text beyond the class), the recorder log and the code."""
    msg = ''
    if o['kind'] == 'sol' and o.get('complete'):
        msg = o['message']
    elif o['kind'] == 'stderr':
        msg = r['err']
    elif o['kind'] == 'stdout':
        msg = r['out']
    began = '"ev":"begin"' in r['log']
    solved = '"ev":"solve"' in r['log']
    hdr = case.get('header')
    if 'injected ' in msg:
        m = re.search(r'injected (\w+) at (\w+)', msg)
        f = case.get('inject')
        if f:
            return f
    if re.search(r'function (\d+|\{\}) is (not|already) defined', msg):      # NLProblemBuilder::BeginCall / DefineFunction (3651d33: MP_RAISE-like)
        return ('body', 'plain', None)
    if re.search(r'cannot open file [^\n]*\.nl', msg):
        return ('openNL', 'systemError', None)
    if re.search(r'\.nl:(\d+:\d+|offset \d+): ', msg):
        return ('body' if (o['kind'] != 'stderr') else 'header', 'readError', None)
    if re.search(r'\.(col|row):\d+:\d+: ', msg):
        return ('names', 'readError', None)
    if re.search(r'Unknown option or invalid key|doesn\'t accept an argument|Empty option name|Failed to read option file', msg):
        return ('options', 'plain', None)
    if re.search(r'Invalid value "[^"]*" for option', msg):
        return ('options', 'optionError', None)
    if 'scripted runtime_error' in msg:
        return ('solve', 'stdExn', None)
    if 'scripted mp::Error' in msg:
        return ('solve', 'withCode', case['answer'][0])
    if 'scripted UnsupportedError' in msg:
        return ('solve', 'unsupported', None)
    code = o.get('code') if o['kind'] == 'sol' and o.get('complete') else None
    stage = 'report' if solved else 'convert'
    if code is not None and hdr and not began and (o['ncons'], o['nvars']) != (hdr[0], hdr[1]):
        # the problem was not (completely) populated from the header: NLProblemBuilder::OnHeader threw
        stage = 'populate'
    if 'unsupported: ' in msg or re.search(r'[Uu]nsupported', msg) and code == 1:
        return (stage, 'unsupported', None)
    if 'Model infeasible' in msg:
        return (stage, 'infeas' if code == 200 or code is None else 'wrappedInfeas', None)
    if code is not None:
        if solved and code == case['answer'][0] and not re.search(r'Error|error|failed', msg.split('WARNINGS')[0]):
            return None                      # the solver's answer was reported
        if code == 150:
            return (stage, 'solCheck', None)
        if code == 1:
            return (stage, 'fmtError', None)
        if code == 500:
            return (stage, 'plain', None)
        if code == 200:
            return (stage, 'infeas', None)
        return (stage, 'withCode', code)
    if o['kind'] == 'stdout':
        # no code observable: decide by the recorder log
        if solved and not re.search(r'injected|Error', msg):
            return None
        return (stage, 'plain', None)
    if o['kind'] == 'stderr':
        return ('header' if not began else stage, 'stdExn', None)
    return None


def cause_of(fault):
    if fault is None:
        return 'none'
    st, rz, c = fault
    if rz in ('infeas', 'wrappedInfeas'):
        return 'infeasible'
    if rz == 'withCode' and c is not None and c >= 100:      # BackendApp::Run keeps only codes >= sol::UNCERTAIN
        return 'raised:%d' % c
    if rz == 'solCheck':
        return 'raised:150'
    return 'failure'


def oracle(case, sc, o):
    """The property, evaluated on the observation (independent of the Lean model). Returns a list of
    (signature, text). sc = scenario facts: ending=(stage, raise, code)|None|'info', dims, outpath."""
    dev = []
    ending = sc['ending']
    if o['kind'] in ('hang', 'crash', 'anomaly'):
        d = o.get('detail', o['kind'])
        if o.get('frame') == 'VisitDisequality':
            dev.append(('crash:VisitDisequality-constant-eq', 'crash (%s) in ProblemFlattener::VisitDisequality: a disequality whose sides differ by a constant '
                        '(x != x, y != c with c outside y\'s domain) folds to a constant and eq.get_representing_variable() indexes an empty vector' % d))
            return dev
        if o['kind'] == 'crash' and o.get('frame') == 'HandleSolution' and 'store to null pointer' in d and sc.get('wants_nsol'):
            dev.append(('crash:nsol-suffix-without-objective', 'crash (%s) in SolutionWriterImpl::HandleSolution: with sol:stub / sol:count the objective-kind '
                        'suffixes nsol/npool are given a value although the problem has no objective (model without objective, or error before '
                        'the problem is populated): SetValue(0, …) on an empty suffix' % d))
            return dev
        if o['kind'] == 'crash' and sc.get('undefined_lcons') and sc.get('graph') and \
                (o.get('frame') in ('ExportLogCon', 'WriteExpr', 'Visit', 'VisitNumeric', 'VisitLogical') or 'ExportLogCon' in sc.get('stack', '')):
            dev.append(('crash:exportlogcon-undefined', 'crash (%s) in ProblemFlattener::ExportLogCon: with cvt:writegraph the logical constraint is written out '
                        '(WriteExpr on its null expression) before ConvertLogicalCon\'s "has no expression" check is reached' % d))
            return dev
        if o['kind'] == 'crash' and o.get('frame') in ('VisitPowConstBase', 'VisitPowConstExp'):
            dev.append(('crash:pow-constant-operand', 'crash (%s) in ProblemFlattener::%s: Cast<NumericConstant>(operand).value() on an operand that is not a '
                        'NumericConstant node ((1+1)^x through VisitPow; opcodes 76/78 with a non-constant "constant" operand)' % (d, o.get('frame'))))
            return dev
        if o['kind'] == 'crash' and o.get('frame') == 'PLPoints':
            dev.append(('crash:PLPoints-empty-integer-domain', 'crash (%s) in PLPoints::PLPoints(const PLSlopes&) (piecewise_linear.cpp:1147): '
                        'BasicPLApproximator::ConsiderIntegrality clears the breakpoints when the integer argument has no integer value in the '
                        '(clipped) domain, the empty PL function is then indexed at [1]' % d))
            return dev
        if o['kind'] == 'crash' and o.get('frame') == 'name' and sc.get('names_first_empty'):
            dev.append(('crash:NameProvider-empty-first-line', 'crash (%s) in NameProvider::name: the first line of the .col/.row file is empty and *(pos1past-1) reads '
                        'one byte before the file mapping (layout dependent)' % d))
            return dev
        if o['kind'] == 'crash' and o.get('frame') in ('Visit', 'ConvertLogicalCon', 'Convert2Var') and sc.get('undefined_lcons'):
            dev.append(('crash:undefined-logical-constraint', 'crash (%s): the NL header declares logical constraints for which the file has no L segment; '
                        'the flattener visits the null expression' % d))
            return dev
        if o['kind'] == 'hang' and not sc.get('hdr_inconsistent'):
            st = ending[0] if isinstance(ending, tuple) else sc.get('progress', 'unknown')
            dev.append(('hang:%s' % st, 'the driver did not terminate within %d s (stage by construction / last progress: %s); command line: %s'
                        % (TIMEOUT, st, sc.get('cmdline', ''))))
            return dev
        if (o['kind'] == 'hang' or d in ('rss-limit', 'signal9') or d.startswith('sanitizer:allocat') or d.startswith('sanitizer:out-of-memory')) \
                and sc.get('hdr_inconsistent'):
            dev.append(('resource:inconsistent-header-counts', 'NL header with inconsistent counts makes the driver allocate without bound (%s)' % d))
            return dev
        dev.append(('%s:%s:%s' % (o['kind'], d, o.get('frame', '')), 'run ended with %s (%s)' % (o['kind'], d)))
        return dev
    if ending == 'exported':
        if o['kind'] == 'silent':
            dev.append(('exportonly:%s' % ('ampl' if case.get('ampl') else 'standalone'),
                        'tech:writemodelonly: the run ends with exit status 0, no .sol and no message at all'))
        else:
            dev.append(('exportonly:unexpected-outcome', 'tech:writemodelonly run ended with %s' % canon(o)))
        return dev
    if o['kind'] == 'silent':
        dev.append(('model-run:nothing-reported', 'a model run ended with exit 0, no .sol and no message'))
        return dev
    if ending == 'info':
        if o['kind'] != 'info':
            dev.append(('info:unexpected-outcome', 'info-only invocation ended with %s' % canon(o)))
        return dev
    if o['kind'] == 'info':
        dev.append(('model-run:nothing-reported', 'a model run ended with exit 0, no .sol and nothing but usage/version output'))
        return dev
    cause = cause_of(ending)
    rz = ending[1] if ending else None
    # alternative-solution files <solstub>N.sol: each one complete, with the header's dimensions, and as many as scripted
    if sc.get('alts') is not None:
        hd = sc['dims']
        for name, text in sorted(sc['alts'].items()):
            ps = parse_sol_strict(text)
            if ps is None:
                dev.append(('altsol:malformed', 'alternative solution file %s is truncated / not parseable: %r' % (name, text[:80])))
            elif hd is not None and (ps['ncons'], ps['nvars']) != tuple(hd):
                dev.append(('altsol:dims', '%s says %d constraints / %d variables, NL header says %d / %d' % (name, ps['ncons'], ps['nvars'], hd[0], hd[1])))
            elif ps['nprimals'] not in (0, ps['nvars']) or ps['nduals'] not in (0, ps['ncons']):
                dev.append(('altsol:blocks', '%s: value blocks neither empty nor full' % name))
        want = sc.get('n_altsol_expected')
        if want is not None and len(sc['alts']) != want:
            dev.append(('altsol:count', '%d alternative solution files written, %d reported by the solver' % (len(sc['alts']), want)))
    if o['kind'] == 'sol':
        if not o['complete']:
            dev.append(('writeerr:devfull' if sc['outpath'] == 'devfull' else 'solfile:malformed',
                        'exit status 0 but <stub>.sol is truncated / not parseable: %r' % o.get('raw', '')[:80]))
            return dev
        hd = sc['dims']
        if hd is not None and (o['ncons'], o['nvars']) != tuple(hd):
            where = {'options': 'optdims', 'populate': 'hdrdims'}.get(ending[0] if ending else '', 'dims')

            dev.append(('%s:%s' % (where, rz), '.sol count lines say %d constraints / %d variables, NL header says %d / %d'
                        % (o['ncons'], o['nvars'], hd[0], hd[1])))
        if o['nduals'] not in (0, o['ncons']) or o['nprimals'] not in (0, o['nvars']):
            dev.append(('blocks', 'value blocks neither empty nor full: nduals=%d ncons=%d nprimals=%d nvars=%d'
                        % (o['nduals'], o['ncons'], o['nprimals'], o['nvars'])))
        c = o['code']
        ok = {'none': lambda: c == sc['answer'][0], 'infeasible': lambda: 200 <= c <= 299, 'failure': lambda: 500 <= c <= 999}
        if cause.startswith('raised:'):
            good = c == int(cause[7:])
        else:
            good = ok[cause]()
        if not good:
            if c == 500 and rz == 'wrappedInfeas':
                dev.append(('infeas500:%s' % ending[0], 'model proven infeasible during conversion ("Model infeasible: …") but the .sol carries solve code 500, not 200-299'))
            elif c == 1 and rz in EXITFAIL:
                dev.append(('code1:%s:%s' % (rz, ending[0]), 'failure (%s at %s) reported with solve code 1 (class "solved") in the .sol' % (rz, ending[0])))
            else:
                dev.append(('codeclass:%s:%d' % (cause, c), 'cause %s but .sol carries solve code %d' % (cause, c)))
    elif o['kind'] == 'stdout':
        if cause != 'none':
            dev.append(('standalone:%s' % ('silent' if not o['shown'] else 'stdout'),
                        'error (%s) without -AMPL/wantsol&1: exit status 0, no .sol, diagnosis %s' %
                        (cause, 'printed on stdout only' if o['shown'] else 'not printed at all (wantsol&8)')))
    elif o['kind'] == 'stderr':
        if o['exit'] == 0:
            dev.append(('ctorcode' if ending and ending[0] == 'ctor' else 'stderr:exit0', 'Error on stderr but exit status 0'))
        cannot = (ending is not None and ending[0] in NO_HANDLER) or sc['outpath'] in ('isdir', 'dangling', 'readonly', 'devfull')
        if not cannot:
            dev.append(('stderr:file-was-possible', 'stderr + exit %d although a .sol could have been written' % o['exit']))
    return dev


# ------------------------------------------------------------------------------------------ scenario line
def tok_str(t):
    if isinstance(t, str):
        return t
    if t[0] == 'F':                                   # option file: ('F', read_fails, [inner tokens])
        return 'F%d:%s' % (t[1], ';'.join(tok_str(x) for x in t[2]))
    return 'w%d' % t[1]


def expand_toks(all_opts):
    """the token sequence in the order ParseOptionString sees it (option files spliced in place,
    a read failure raises after the readable tokens)"""
    out = []
    for _, t in all_opts:
        if not isinstance(t, str) and t[0] == 'F':
            out += list(t[2]) + (['b'] if t[1] else [])
        else:
            out.append(t)
    return out


def scenario_line(case, ending_fault, dims, ans, partial=(0, 0)):
    flags = ''.join(case.get('flags_tok', [])) or '-'
    opts = ','.join(tok_str(t) for _, t in case.get('all_opts', [])) or '-'
    op = case.get('outpath', 'ok')
    can_open = 0 if op in ('isdir', 'dangling', 'readonly') else 1
    can_flush = 0 if op == 'devfull' else can_open
    fl = ending_fault if isinstance(ending_fault, list) else ([ending_fault] if ending_fault else [])
    f = ','.join('%s:%s' % (st, rz) + (':%d' % c if rz == 'withCode' else '') for st, rz, c in fl) or 'none'
    return 'run %s %d %d %s %d %d %d %d %d %d %d %d %s %d %d %d' % (
        flags, 1 if case.get('stub', True) else 0, 1 if case.get('ampl') else 0, opts, 1 if case.get('objno_big') else 0,
        1 if case.get('just_export') else 0, dims[0], dims[1], partial[0], partial[1], can_open, can_flush, f, ans[0], 1 if ans[1] else 0, 1 if ans[2] else 0)


def py_model_ending(case, fault):
    """which part of the case ends the run, for the oracle (mirrors the *order of execution*, nothing else):
    returns 'info' | None | (stage, raise, code)"""
    def before(limit):
        return fault is not None and STAGES.index(fault[0]) < limit
    if before(2):
        return fault
    for f in case.get('flags_tok', []):
        if f == 'i':
            return 'info'
        if f == 'x':
            return ('init', 'optionError', None)
        if f == 'd':
            break
    if not case.get('stub', True):
        return 'info'
    if before(4):
        return fault
    for t in expand_toks(case.get('all_opts', [])):
        if t == 'b':
            return ('options', 'plain', None)
        if t == 'v':
            return ('options', 'optionError', None)
    if before(5):
        return fault
    if case.get('objno_big'):
        return ('options', 'optionError', None)
    if before(STAGES.index('solve')):
        return fault
    if case.get('just_export'):
        return 'exported'
    if fault is not None and fault[0] == 'suffixes' and fault[1] != 'foreign':
        return None
    return fault


# ------------------------------------------------------------------------------------------ case construction
class CaseGen:
    def __init__(self, seed, tmp):
        self.r = Rng(seed * 7919 + 17)
        self.g = c09gen.G(self.r)
        self.tmp = tmp
        self.n = 0

    def texts(self, m):
        self.n += 1
        return c09gen.nl_text(m, os.path.join(self.tmp, 'g%d' % self.n))

    def base(self, family, m, **kw):
        nl, col, row = self.texts(m)
        hd = c09gen.header_dims(nl)
        c = {'family': family, 'nl': nl, 'col': col, 'row': row, 'header': hd, 'nobjs': len(m.objs), 'stub': True, 'ampl': True,
             'options': [], 'env': {}, 'flags_argv': [], 'flags_tok': [], 'outpath': 'ok', 'natural': None, 'inject': None,
             'answer': (0, True, True), 'script': None}
        c.update(kw)
        return c

    # ---- decorations
    def add_mode(self, c):
        r = self.r
        c['ampl'] = r.chance(2, 3)
        fl = []
        if r.chance(1, 5):
            fl.append(('-s', 's'))
        if r.chance(1, 8):
            fl.append(('-e', 'e'))
        if r.chance(1, 12):
            fl.append(('--', 'd'))
        if r.chance(1, 40):
            fl.append((r.choice(['-x', '-q', '-sx', '-']), 'x'))
        if r.chance(1, 40):
            fl.append((r.choice(['-v', '-?', '-=acc', '-=', '-=zzznomatch', '-!', '-c', '-a']), 'i'))
            c['info'] = True
        r_fl = fl
        c['flags_argv'] = [a for a, _ in r_fl]
        c['flags_tok'] = [t for _, t in r_fl]
        if any(t == 'd' for t in c['flags_tok']):
            # everything after '--' is the stub; later flags in our list would be taken as the stub: cut
            i = c['flags_tok'].index('d')
            c['flags_argv'], c['flags_tok'] = c['flags_argv'][:i + 1], c['flags_tok'][:i + 1]
            c.pop('info', None)
            if 'i' in c['flags_tok']:
                c['info'] = True
        if 'i' in c['flags_tok'] and 'x' in c['flags_tok'] and c['flags_tok'].index('x') < c['flags_tok'].index('i'):
            c.pop('info', None)
        if 'x' in c['flags_tok']:
            i = c['flags_tok'].index('x')
            if 'i' not in c['flags_tok'][:i]:
                c.pop('info', None)
        if r.chance(1, 30):
            c['stub'] = False
            c['info'] = True
            c['ampl'] = False
        if r.chance(1, 10):
            c['stub_with_ext'] = True
        if r.chance(1, 8):
            c['stub_relative'] = True          # argument without any dot / directory part (cwd = case directory)
        if r.chance(1, 15):
            c['exe_alias'] = r.choice(['rs.exe', 'rs.app', 'rs'])

    def add_options(self, c, p_bad=(1, 4)):
        r = self.r
        opts = []
        for _ in range(r.choice([0, 0, 1, 1, 2, 3])):
            k = r.below(10)
            if k < 5:
                opts.append((r.choice(c09gen.OPT_OK), 'o'))
            elif k < 8:
                w = r.choice(c09gen.WANTSOL)
                opts.append((r.choice(['wantsol=%d', 'tech:wantsol=%d']) % w, ('w', w)))
            else:
                opts.append((r.choice(c09gen.OPT_OK), 'o'))
        if r.chance(*p_bad):
            k = r.below(10)
            pos = r.rint(0, len(opts))
            if k < 6:
                opts.insert(pos, (r.choice(c09gen.OPT_BAD), 'b'))
            elif k < 9:
                opts.insert(pos, (r.choice(c09gen.OPT_INVALID), 'v'))
            else:
                # objno beyond the number of objectives: raised after all options have been parsed
                nob = c.get('nobjs', 0)
                opts.insert(pos, (r.choice(['objno=%d', 'obj:no=%d']) % (nob + r.rint(1, 3)), 'o'))
                c['objno_big'] = True
        # an option file somewhere in the list
        if r.chance(1, 5):
            opts.insert(r.rint(0, len(opts)), self.optfile(c))
        # some options come from the environment (parsed before argv)
        envopts = []
        if opts and r.chance(1, 4):
            k = r.rint(1, len(opts))
            envopts, opts = opts[:k], opts[k:]
            var = r.choice(['mp_options', 'recsolver_options', '@EXE@_options'])
            c['env'][var] = ' '.join(t for t, _ in envopts)
            if var == '@EXE@_options' and r.chance(1, 2):
                # <exe>_options takes precedence: <solver>_options is then not read at all (not even a bad token in it)
                c['env']['recsolver_options'] = r.choice(['foo=1', 'wantsol=8', 'cvt:bigM=abc'])
        if not c.get('ampl') and r.chance(1, 12) and c.get('stub', True) and opts:
            # -AMPL not directly after the stub: it is then an (unknown) option
            opts.append(('-AMPL', 'b'))
        if not c.get('stub', True):
            opts, envopts = [], envopts     # without a stub the first assignment would be taken as the stub
        c['options'] = opts
        c['all_opts_env'] = envopts
        c['all_opts'] = envopts + opts
        # objno beyond the number of objectives (the last assignment wins): raised after all options are parsed
        last = None
        for t, k in c['all_opts']:
            m = re.fullmatch(r'(obj:no|objno)=(\d+)', t)
            if m and k == 'o':
                last = int(m.group(2))
        c['objno_big'] = bool(last is not None and last > c.get('nobjs', 0))

    def optfile(self, c, kind=None):
        """one `tech:optionfile=<path>` item: (text, ('F', read_fails, [inner tokens])); the file goes to c['optfiles']"""
        r = self.r
        kind = kind or r.choice(['valid', 'valid', 'unknown', 'invalid', 'empty', 'nonl', 'comments', 'missing', 'dir', 'procmem'])
        key = r.choice(['tech:optionfile', 'optionfile', 'option:file'])
        if kind == 'missing':
            return ('%s=@DIR@/no-such-file.opt' % key, ('F', 1, []))
        if kind == 'dir':
            return ('%s=@DIR@' % key, ('F', 1, []))
        if kind == 'procmem':
            return ('%s=/proc/self/mem' % key, ('F', 1, []))
        safe = [t for t in c09gen.OPT_OK if not t.startswith(('obj:no', 'objno', 'cvt:names'))]
        lines, toks = [], []
        if kind != 'empty':
            for _ in range(r.rint(0 if kind == 'comments' else 1, 4)):
                k = r.below(8)
                if kind == 'comments' or k == 0:
                    lines.append(r.choice(['# a comment', '   # foo=1 (commented out)', '', '   ', '#wantsol=1']))
                    continue
                if k <= 4:
                    t, tk = r.choice(safe), 'o'
                elif k == 5:
                    w = r.choice(c09gen.WANTSOL); t, tk = 'wantsol=%d' % w, ('w', w)
                else:
                    t2 = r.choice(safe); t, tk = r.choice(safe) + ' ' + t2, 'o'
                    toks.append('o')
                lines.append(r.choice(['', '  ', '\t']) + t)
                toks.append(tk)
            if kind == 'unknown':
                i = r.rint(0, len(lines))
                n_before = sum(1 for l in lines[:i] if l.strip() and not l.strip().startswith('#'))
                # tokens before line i: count them (a line may carry two)
                cnt = 0
                for l in lines[:i]:
                    if l.strip() and not l.strip().startswith('#'):
                        cnt += len(l.split())
                lines.insert(i, r.choice(c09gen.OPT_BAD[:6]))
                toks.insert(cnt, 'b')
            if kind == 'invalid':
                lines.append(r.choice(c09gen.OPT_INVALID[:2]))
                toks.append('v')
        text = '\n'.join(lines) + ('\n' if lines and kind != 'nonl' else '')
        name = 'opts%d.txt' % len(c.setdefault('optfiles', {}))
        c['optfiles'][name] = text
        return ('%s=@DIR@/%s' % (key, name), ('F', 0, toks))

    def add_outpath(self, c):
        r = self.r
        # only where the ending is known by construction: with a failing output path the diagnostic
        # (which the classifier would need) is not observable
        if c.get('natural') is not None and r.chance(1, 5):
            c['outpath'] = r.choice(['isdir', 'dangling', 'devfull'] if os.path.exists('/dev/full') else ['isdir', 'dangling'])

    def add_names(self, c):
        r = self.r
        k = r.below(12)
        if k < 5:
            return
        if k == 5:
            c['col'] = None
        elif k == 6:
            c['row'] = None
        elif k == 7:
            c['col'] = c['row'] = None
        elif k == 8:     # short
            c['col'] = '\n'.join((c['col'] or 'a\n').split('\n')[:1]) + '\n'
        elif k == 9:     # malformed: no final newline -> ReadError at names (if names are read)
            which = r.choice(['col', 'row'])
            # (standalone mode with wantsol&2/4 re-reads the names files inside HandleSolution: not modelled)
            if c[which] and c.get('ampl'):
                c[which] = c[which].rstrip('\n') + 'z'
                c['names_bad'] = which
        elif k == 10:    # empty first line / CRLF / long names
            c['col'] = '\n' + (c['col'] or '')
        else:
            c['col'] = (c['col'] or '').replace('\n', '\r\n')

    def add_fault(self, c, p=(1, 3)):
        r = self.r
        if not r.chance(*p):
            return
        if r.chance(1, 3):
            t = r.choice([1, 2, 3])
            code = r.choice([0, 1, 100, 150, 200, 201, 299, 300, 400, 499, 500, 501, 567, 999, 256, 512, -1, -200])
            c['script'] = 'code %d\nmsg scripted\nthrow %d\n' % (code, t)
            c['answer'] = (code, False, False)
            c['inject'] = ('solve', {1: 'stdExn', 2: 'withCode', 3: 'unsupported'}[t], code if t == 2 else None)
        else:
            site = r.choice([x for x in SITES if x != 'suffixes'])   # (reached only if the standard suffixes did not throw: corpus only)
            kind = r.choice(KINDS)
            code = r.choice([0, 1, 99, 100, 150, 200, 250, 299, 300, 499, 500, 512, 567, 999, 1000, 256, 768, -1, -7, 65536]) if kind == 'withCode' else None
            c['env']['RECSOLVER_FAULT'] = '%s:%s' % (site, kind) + (':%d' % code if code is not None else '')
            c['inject'] = (site, kind, code)
        c['synthetic'] = True

    def add_extras(self, c):
        """model export (tech:writemodel / writemodelonly) and alternative solutions (sol:stub, sol:count + scripted `altsol N`);
        only where nothing else is known to go wrong after the options"""
        r = self.r
        if c.get('natural') != 'none' or not c.get('stub', True):
            return
        k = r.below(10)
        opts = c['options']
        pos = r.rint(0, len(opts))
        if k == 0:
            opts.insert(pos, (r.choice(['tech:writemodel=@DIR@/export.lp', 'writeprob=@DIR@/export2.lp', 'tech:exportfile=@DIR@/export3.lp']), 'o'))
        elif k == 1:
            opts.insert(pos, (r.choice(['tech:writemodelonly=@DIR@/exportonly.lp', 'justwriteprob=@DIR@/exportonly.lp']), 'o'))
            c['just_export'] = True
        elif k == 2:
            opts.insert(pos, ('tech:writemodel=@DIR@/no/such/dir/export.lp', 'o'))
            c['natural'] = ('extras', 'plain', None)
        elif k in (3, 4) and c.get('script') is None and not c.get('inject'):
            n = r.choice([0, 1, 2, 3])
            code = r.choice([0, 0, 2, 100, 400, 567])
            c['script'] = 'code %d\nmsg scripted answer\naltsol %d\n' % (code, n)
            c['answer'] = (code, False, False)
            what = r.below(4)
            if what == 0:
                opts.insert(pos, ('sol:count=1', 'o'))
                c['altsol'] = 0                      # counted, but no stub: no files
            elif what == 1:
                opts.insert(pos, ('sol:stub=@DIR@/no/such/dir/alt', 'o'))
                c['altsol'] = 0
                if n > 0:
                    c['natural'] = ('solve', 'systemError', None)
            else:
                opts.insert(pos, (r.choice(['sol:stub=@DIR@/alt', 'solstub=@DIR@/alt']), 'o'))
                c['altsol'] = n
        c['all_opts'] = c.get('all_opts_env', []) + c['options']

    def add_answer(self, c):
        """arbitrary solve codes from the scripted solver (no vectors: sizes of the solver-side model are not known here)"""
        r = self.r
        if c.get('script') is None and r.chance(1, 2) and not (c.get('inject') and c['inject'][0] == 'suffixes'):
            code = r.choice([0, 0, 1, 2, 99, 100, 101, 150, 199, 200, 201, 299, 300, 349, 350, 399, 400, 449, 450, 499, 500, 501, 550, 600, 999,
                             1000, 5000, -1, -200, r.rint(0, 999)])
            c['script'] = 'code %d\nmsg scripted answer\n' % code
            c['answer'] = (code, False, False)

    def broken_header(self, c):
        r = self.r
        L = c['nl'].split('\n')
        k = r.below(6)
        if k == 0:
            L[1] = ' 2 x 1'
        elif k == 1:
            L = L[:r.rint(1, 9)]
        elif k == 2:
            L[0] = 'q' + L[0][1:]
        elif k == 3:
            L[r.rint(1, 9)] = ' -1 -1 -1'
        elif k == 4:
            L[1] = ' 1 99999999999 1 0 0 0'
        else:
            L[0] = 'g3 1 1 0'
            L[r.rint(2, 9)] = ' a b'
        c['nl'] = '\n'.join(L) + ('\n' if k != 1 else '')
        c['header'] = None
        c['natural'] = ('header', 'readError', None)

    def broken_body(self, c):
        """a garbage segment right after the header lines / at a random segment start"""
        r = self.r
        L = c['nl'].split('\n')
        starts = [i for i in range(10, len(L)) if L[i][:1] in 'CLOrbkJGdxS' and L[i]]
        i = r.choice(starts) if starts else 10
        L.insert(i, r.choice(['Q', 'Z9', 'y 1 2', '%%%', 'c0']))
        c['nl'] = '\n'.join(L)
        c['natural'] = ('body', 'readError', None)

    # ---- families
    def case(self):
        r = self.r
        fam = r.choice(['lp', 'lp', 'mix', 'mix', 'mix', 'infeasible', 'unsupported', 'bigm', 'badheader', 'badbody', 'missing', 'names', 'start'])
        if fam == 'start':
            # valid LP/MIP + incoming start values (x / d segments) x incoming basis (.sstatus) x basis option x which of the
            # WARMSTART / MIPSTART features the driver declares (RECSOLVER_FEATURES) x MIP or not: input the driver may use or
            # ignore, never a reason to fail
            m = self.g.model_lp()
            while not m.cons:
                m = self.g.model_lp()
            what, basis = self.g.add_start(m)
            feats = r.choice(['', '-WARMSTART', '-WARMSTART', '-MIPSTART', '-WARMSTART,-MIPSTART'])
            c = self.base('start:%s:%s:%s' % (what or '-', basis, feats or 'all'), m)
            c['natural'] = 'none'
            if feats:
                c['env']['RECSOLVER_FEATURES'] = feats
            if r.chance(1, 2):
                c['env']['RECSOLVER_ISMIP'] = r.choice(['0', '1'])
            c['start_opts'] = []
            if r.chance(1, 2):
                c['start_opts'].append(('%s=%d' % (r.choice(['alg:basis', 'basis']), r.below(4)), 'o'))
            if 'WARMSTART' not in feats and r.chance(1, 2):      # alg:start is registered only for drivers with WARMSTART
                c['start_opts'].append(('%s=%d' % (r.choice(['alg:start', 'warmstart']), r.below(3)), 'o'))
            if r.chance(1, 4):
                c['start_opts'].append(('debug=1', 'o'))
        elif fam == 'lp':
            c = self.base('lp', self.g.model_lp())
            c['natural'] = 'none'
        elif fam == 'mix':
            m = self.g.model_mix(bounded=r.chance(3, 4))
            c = self.base('mix', m)
            c['natural'] = None          # unknown: conversion may fail, inferred from the diagnostic class
            if r.chance(1, 3):
                acc = r.choice(['ALL', 'LinConRange,LinConLE,LinConEQ,LinConGE,QuadConLE,QuadConGE,QuadConEQ,QuadConRange',
                                'LinConRange,LinConLE,LinConEQ,LinConGE,IndicatorLinConLE,IndicatorLinConGE,IndicatorLinConEQ',
                                'LinConRange,LinConLE,LinConEQ,LinConGE,AbsConstraint,MaxConstraint,MinConstraint,OrConstraint,AndConstraint'])
                c['env']['RECSOLVER_ACCEPT'] = acc
        elif fam == 'infeasible':
            m, how = self.g.model_infeasible()
            c = self.base('infeasible:' + how, m)
            c['natural'] = None          # detection during conversion is not guaranteed -> inferred
        elif fam == 'unsupported':
            m, op = self.g.model_unsupported()
            c = self.base('unsupported:' + op, m)
            c['natural'] = ('convert', 'unsupported', None)
        elif fam == 'bigm':
            c = self.base('bigm', self.g.model_bigm())
            c['natural'] = None
            if r.chance(1, 3):
                # indicators 'accepted but not recommended': conversion is tried, a ConstraintConversionFailure becomes a warning
                c['env']['RECSOLVER_ACCEPT'] = 'LinConRange,LinConLE,LinConEQ,LinConGE,IndicatorLinConLE,IndicatorLinConGE,IndicatorLinConEQ'
                c['bigm_acc1'] = True
            else:
                c['env']['RECSOLVER_ACCEPT'] = 'LinConRange,LinConLE,LinConEQ,LinConGE'
        elif fam == 'badheader':
            c = self.base('badheader', self.g.model_lp())
            self.broken_header(c)
        elif fam == 'badbody':
            c = self.base('badbody', self.g.model_lp() if r.chance(1, 2) else self.g.model_mix())
            self.broken_body(c)
        elif fam == 'missing':
            c = self.base('missing', self.g.model_lp())
            c['nl'] = None
            c['header'] = None
            c['natural'] = ('openNL', 'systemError', None)
        else:
            c = self.base('names', self.g.model_lp())
            c['natural'] = 'none'
        self.add_mode(c)
        self.add_options(c)
        if c.get('start_opts') and c.get('stub', True):
            c['options'] = c['start_opts'] + c['options']
            c['all_opts'] = c.get('all_opts_env', []) + c['options']
        if c.get('bigm_acc1') and c.get('stub', True):
            c['options'] = [('acc:indle=1', 'o'), ('acc:indge=1', 'o'), ('acc:indeq=1', 'o')] + c['options']
            c['all_opts'] = c.get('all_opts_env', []) + c['options']
        self.add_names(c)
        self.add_outpath(c)
        if fam in ('lp', 'mix', 'names', 'infeasible', 'bigm', 'unsupported', 'start'):
            self.add_fault(c)
            self.add_answer(c)
        self.add_extras(c)
        self.add_graph_export(c)
        return c

    def add_graph_export(self, c, p=(1, 3)):
        """cvt:writegraph=<file>: the NL model and the reformulation graph are exported while flattening
        (ExportVars / ExportCon / ExportLogCon / ExportObj ... run before each item is converted)"""
        r = self.r
        if not c.get('stub', True) or not r.chance(*p):
            return
        key = r.choice(['cvt:writegraph', 'writegraph', 'exportgraph', 'tech:writegraph'])
        if c.get('natural') == 'none' and not c.get('just_export') and r.chance(1, 6):
            tok = ('%s=@DIR@/no/such/dir/graph.jsonl' % key, 'o')
            c['natural'] = ('convert', 'plain', None)          # "Failed to open the graph export file"
        else:
            tok = ('%s=@DIR@/graph.jsonl' % key, 'o')
        c['options'] = c['options'] + [tok]
        c['all_opts'] = c.get('all_opts_env', []) + c['options']
        c['graph'] = True

    def malformed(self):
        """mutations of a valid NL text; ending unknown (inferred); the oracle is what counts here"""
        r = self.r
        m = self.g.model_mix() if r.chance(2, 3) else self.g.model_lp()
        c = self.base('malformed', m)
        s = c['nl']
        k = r.below(9)
        L = s.split('\n')
        if k == 0:
            s = s[:r.rint(0, len(s))]
        elif k == 1 and len(L) > 11:
            del L[r.rint(10, len(L) - 1)]
            s = '\n'.join(L)
        elif k == 2 and len(L) > 11:
            i = r.rint(10, len(L) - 1)
            L.insert(i, L[i])
            s = '\n'.join(L)
        elif k == 3:
            i = r.rint(1, 9)
            toks = L[i].split()
            if toks:
                j = r.below(len(toks))
                toks[j] = r.choice(['0', '1', '2', '7', '100', '-1', '2147483647', '1000000'])
                L[i] = ' ' + ' '.join(toks)
            s = '\n'.join(L)
        elif k == 4 and len(L) > 11:
            i = r.rint(10, len(L) - 1)
            L[i] = re.sub(r'\d+', lambda mm: r.choice(['0', '99', '-3', '1e400', 'nan', '4294967296', mm.group(0)]), L[i], count=1)
            s = '\n'.join(L)
        elif k == 5:
            i = r.rint(0, max(0, len(s) - 1))
            s = s[:i] + r.choice(['\x00', '\xff', 'o', 'v', 'n', ' ', '\n', '9']) + s[i + 1:]
        elif k == 6 and len(L) > 11:
            i = r.rint(10, len(L) - 1)
            L[i] = r.choice(['o%d' % r.rint(0, 90), 'v%d' % r.rint(0, 40), 'n1e999', 'f0 1', 'f0 0', 'h3:abc', 'o54', '3'])
            s = '\n'.join(L)
        elif k == 7:
            s = s.replace('\n', '\r\n')
        else:
            s = s + r.choice(['S0 1 zork\n0 1\n', 'x1\n99 1\n', 'd1\n0 1\n', 'k0\n', 'b\n', '\n\n', 'V1 0 0\n'])
        c['nl'] = s
        c['header'] = c09gen.header_dims(s)
        c['natural'] = None
        c['ampl'] = r.chance(4, 5)
        c['all_opts'] = []
        if r.chance(1, 4):
            self.add_options(c, p_bad=(0, 1))
        self.add_graph_export(c, p=(1, 2))       # export on x malformed-but-readable NL
        return c


def corpus_cases(cg):
    """fixed cases run first: the counterexample theorems, a calibration of every option token used by the
    generator, every injection site x raise kind, output-path states, the command-line flags."""
    out = []
    g = c09gen.G(Rng(99))

    def lp():
        m = nlgen.Model()
        x = m.var(0, 10); y = m.var(0, 10, True)
        m.obj('min', {x: 1, y: 2}); m.con(1, None, {x: 1, y: 1})
        return m

    def mk(name, **kw):
        c = cg.base('corpus:' + name, lp())
        c['natural'] = 'none'
        c['all_opts'] = []
        c.update(kw)
        if 'options' in kw and 'all_opts' not in kw:
            c['all_opts'] = kw['options']
        out.append(c)
        return c
    mk('plain')
    mk('counterexample_optdims', options=[('foo=1', 'b')])
    c = mk('fixed_code1_body'); cg.broken_body(c)
    c = mk('fixed_code1_names'); c['col'] = 'x\ny'; c['names_bad'] = 'col'
    m = lp(); m.con(0, None, {}, ('rem', ('v', 0), ('n', 3)))
    c = cg.base('corpus:fixed_code1_unsupported', m); c['natural'] = ('convert', 'unsupported', None); c['all_opts'] = []; out.append(c)
    mk('fixed_writeerr', outpath='devfull')
    mk('counterexample_standalone', ampl=False, options=[('foo=1', 'b')])
    mk('counterexample_standalone_silent', ampl=False, options=[('wantsol=8', ('w', 8)), ('foo=1', 'b')])
    mk('counterexample_ctorcode', env={'RECSOLVER_FAULT': 'ctor:withCode:512'}, inject=('ctor', 'withCode', 512), synthetic=True)
    mk('counterexample_foreign', env={'RECSOLVER_FAULT': 'solve:foreign'}, inject=('solve', 'foreign', None), synthetic=True)
    m = lp(); m.lcon(('lt', ('n', 1), ('n', 0)))
    c = cg.base('corpus:infeasible', m); c['natural'] = ('convert', 'infeas', None); c['all_opts'] = []; out.append(c)
    c = cg.base('corpus:bigm', g.model_bigm()); c['natural'] = None; c['all_opts'] = []; out.append(c)
    # binary fixed to 1 and `not (b = 1)`: MP_INFEAS inside PropagateResult, re-raised by ConstraintKeeper with MP_RAISE
    m = lp(); b = m.var(1, 1, True); m.lcon(('not', ('eq', ('v', b), ('n', 1))))
    c = cg.base('corpus:fixed_infeas500', m); c['natural'] = ('convert', 'wrappedInfeas', None); c['all_opts'] = []; out.append(c)
    # inconsistent header: one more nonlinear variable declared than there are variables
    c = mk('counterexample_hdrdims')
    L = c['nl'].split('\n'); L[4] = ' 3 3 3'; c['nl'] = '\n'.join(L); c['natural'] = None
    # a disequality whose two sides cancel: x != x
    m = lp(); m.lcon(('ne', ('v', 0), ('v', 0)))
    c = cg.base('corpus:fixed_ne_same', m); c['natural'] = ('convert', 'infeas', None);   # fdf7d27: x != x is false -> infeasible
    c['all_opts'] = []; out.append(c)
    # header claiming 2^31-1 nonlinear variables (bounded here by the allocator limits of the sanitizer run time)
    c = mk('hdr_huge_count')
    L = c['nl'].split('\n'); L[4] = ' 2 2 2147483647'; c['nl'] = '\n'.join(L); c['natural'] = None
    # header claiming 2^31-1 variables for a 20-line file
    c = mk('hdr_huge_nvars')
    L = c['nl'].split('\n'); L[1] = ' 2147483647 1 1 0 0 0'; c['nl'] = '\n'.join(L); c['natural'] = None; c['header'] = c09gen.header_dims(c['nl'])
    # header declaring 100 logical constraints, none defined
    c = mk('undefined_lcons')
    L = c['nl'].split('\n'); L[1] = ' 2 1 1 0 0 100'; c['nl'] = '\n'.join(L); c['natural'] = ('convert', 'plain', None)   # 9f461e5: diagnosed
    # y != c with c outside y's domain inside a count (the lead's / C19's reproducer)
    m = nlgen.Model(); x = m.var(-4, 8); y = m.var(0, 2, True); m.obj('min', {x: 1})
    m.con(None, 3, {x: 1}, ('count', [('ne', ('v', y), ('n', 3)), ('le', ('v', x), ('n', 1))]))
    c = cg.base('corpus:fixed_ne_outside_domain', m); c['natural'] = 'none'
    c['all_opts'] = []; out.append(c)
    # first line of the .col file empty, standalone mode printing the solution
    c = mk('names_first_line_empty', ampl=False, flags_argv=['-s'], flags_tok=['s'], options=[('wantsol=3', ('w', 3))])
    c['col'] = '\n' + c['col']
    for op in ('isdir', 'dangling'):
        mk('outpath_' + op, outpath=op)
        mk('outpath_%s_err' % op, outpath=op, options=[('foo=1', 'b')])
    mk('noampl', ampl=False)
    mk('noampl_wantsol', ampl=False, options=[('wantsol=1', ('w', 1))])
    mk('noampl_s', ampl=False, flags_argv=['-s'], flags_tok=['s'])
    mk('bad_after_wantsol', ampl=False, options=[('wantsol=1', ('w', 1)), ('foo=1', 'b')])
    mk('bad_before_wantsol', ampl=False, options=[('foo=1', 'b'), ('wantsol=1', ('w', 1))])
    mk('objno_big', options=[('objno=5', 'o')], objno_big=True)
    mk('missing', nl=None, header=None, natural=('openNL', 'systemError', None))
    c = mk('badheader'); cg.broken_header(c)
    for f in ['-v', '-?', '-=acc', '-!', '-c', '-a']:
        mk('flag' + f, flags_argv=[f], flags_tok=['i'], info=True)
    mk('flag-x', flags_argv=['-x'], flags_tok=['x'])
    mk('flag--', flags_argv=['--'], flags_tok=['d'], ampl=False)
    mk('nostub', stub=False, ampl=False, info=True)
    mk('stub.nl', stub_with_ext=True)
    mk('AMPL-late', ampl=False, options=[('cvt:bigM=10', 'o'), ('-AMPL', 'b')])
    for kind in ['valid', 'unknown', 'invalid', 'empty', 'nonl', 'comments', 'missing', 'dir', 'procmem']:
        for rep in range(3 if kind in ('valid', 'unknown') else 1):
            c = mk('optfile:%s' % kind)
            item = cg.optfile(c, kind)
            c['options'] = [('cvt:bigM=7', 'o'), item, ('wantsol=1', ('w', 1))]
            c['all_opts'] = c['options']
        c = mk('optfile-standalone:%s' % kind, ampl=False)
        c['options'] = [cg.optfile(c, kind)]
        c['all_opts'] = c['options']
    # round 3: export, alternative solutions, exe-name option variable, relative stub, multi-objective
    mk('export', options=[('tech:writemodel=@DIR@/export.lp', 'o')])
    mk('counterexample_exportonly', options=[('tech:writemodelonly=@DIR@/exportonly.lp', 'o')], just_export=True)
    mk('exportonly_standalone', ampl=False, options=[('justwriteprob=@DIR@/exportonly.lp', 'o')], just_export=True)
    mk('exportonly_after_bad', options=[('foo=1', 'b'), ('tech:writemodelonly=@DIR@/exportonly.lp', 'o')], just_export=True)
    mk('exportonly_fault_before', options=[('tech:writemodelonly=@DIR@/exportonly.lp', 'o')], just_export=True,
       env={'RECSOLVER_FAULT': 'convert:plain'}, inject=('convert', 'plain', None), synthetic=True)
    mk('exportonly_fault_after', options=[('tech:writemodelonly=@DIR@/exportonly.lp', 'o')], just_export=True,
       env={'RECSOLVER_FAULT': 'solve:plain'}, inject=('solve', 'plain', None), synthetic=True)
    mk('export_unwritable', options=[('tech:writemodel=@DIR@/no/such/dir/export.lp', 'o')], natural=('extras', 'plain', None))
    for n in (0, 1, 3):
        mk('altsol%d' % n, options=[('sol:stub=@DIR@/alt', 'o')], script='code 0\nmsg s\naltsol %d\n' % n, answer=(0, False, False), altsol=n)
    mk('altsol_standalone', ampl=False, options=[('sol:stub=@DIR@/alt', 'o'), ('wantsol=1', ('w', 1))], script='code 400\nmsg s\naltsol 2\n',
       answer=(400, False, False), altsol=2)
    mk('altsol_round', options=[('sol:stub=@DIR@/alt', 'o'), ('mip:round=7', 'o')], script='code 0\nmsg s\naltsol 2\n', answer=(0, False, False), altsol=2)
    mk('iis_suffix_table', options=[('alg:iisfind=1', 'o')], script='code 200\nmsg s\niisvar 4 0\niiscon 4\n', answer=(200, False, False))
    mk('altsol_count_only', options=[('sol:count=1', 'o')], script='code 0\nmsg s\naltsol 2\n', answer=(0, False, False), altsol=0)
    mk('altsol_unwritable', options=[('sol:stub=@DIR@/no/such/dir/alt', 'o')], script='code 0\nmsg s\naltsol 2\n', answer=(0, False, False),
       altsol=0, natural=('solve', 'systemError', None))
    mk('altsol_then_throw', options=[('sol:stub=@DIR@/alt', 'o')], script='code 250\nmsg s\naltsol 2\nthrow 2\n', answer=(250, False, False),
       altsol=2, inject=('solve', 'withCode', 250), synthetic=True)
    m0 = nlgen.Model(); m0.var(0, 10); m0.var(0, 10, True); m0.con(1, None, {0: 1, 1: 1})
    c = cg.base('corpus:fixed_nsol_no_objective', m0); c['natural'] = 'none'; c['options'] = [('sol:count=1', 'o')]; c['all_opts'] = c['options']; out.append(c)
    mk('nsol_with_option_error', options=[('sol:stub=@DIR@/alt', 'o'), ('foo=1', 'b')])
    m1 = nlgen.Model(); m1.var(-1, 4, True); m1.con(3, None, {}, ('log10', ('v', 0))); m1.obj('min', {}, ('atanh', ('v', 0)))
    c = cg.base('corpus:fixed_plpoints_empty_integer_domain', m1); c['natural'] = ('convert', 'infeas', None);   # a382c6e: diagnosed as infeasible
    c['all_opts'] = []; out.append(c)
    m2 = nlgen.Model(); m2.var(0, 3); m2.obj('min', {0: 1}); m2.con(None, 5, {}, ('pow', ('+', ('n', 1), ('n', 1)), ('v', 0)))
    c = cg.base('corpus:fixed_pow_constant_expression_base', m2); c['natural'] = 'none';   # b539091: (1+1)^x is solved
    c['all_opts'] = []; out.append(c)
    for fn_no in (250, 5, 700, 1234):        # 3651d33: diagnosed with a formatted message and a failure code
        nat = ('body', 'plain', None)
        c = mk('fixed_undeclared_function_%d' % fn_no, expect_msg_re=r'function %d is not defined' % fn_no)
        L = c['nl'].split('\n'); L[5] = ' 0 2000 0 1'; L[2] = ' 1 0'; L[4] = ' 1 0 0'
        L[L.index('C0') + 1] = 'f%d 0' % fn_no
        c['nl'] = '\n'.join(L); c['natural'] = nat
    # graph export on: valid model; undefined logical constraints (2 declared, 1 defined: the reviewer's input); other readable-but-odd files
    mk('graph_export', options=[('cvt:writegraph=@DIR@/graph.jsonl', 'o')], graph=True)
    mk('graph_export_unwritable', options=[('writegraph=@DIR@/no/such/dir/graph.jsonl', 'o')], graph=True, natural=('convert', 'plain', None))
    m3 = lp(); m3.lcon(('le', ('v', 0), ('n', 5)))
    c = cg.base('corpus:fixed_exportlogcon_undefined', m3);   # 8093d9c: diagnosed (500, "... has no expression"), no crash
    c['expect_msg_re'] = r'has no expression'; c['all_opts'] = c['options'] = [('cvt:writegraph=@DIR@/graph.jsonl', 'o')]
    L = c['nl'].split('\n'); t = L[1].split(); t[5] = '2'; L[1] = ' ' + ' '.join(t); c['nl'] = '\n'.join(L)
    c['natural'] = ('convert', 'plain', None); c['graph'] = True; out.append(c)
    c = cg.base('corpus:undefined_lcons_no_export', m3); c['all_opts'] = []
    L = c['nl'].split('\n'); t = L[1].split(); t[5] = '2'; L[1] = ' ' + ' '.join(t); c['nl'] = '\n'.join(L)
    c['natural'] = ('convert', 'plain', None); out.append(c)
    c = mk('graph_export_undefined_defvars', options=[('cvt:writegraph=@DIR@/graph.jsonl', 'o')], graph=True)
    L = c['nl'].split('\n'); L[9] = ' 2 0 0 0 0'; c['nl'] = '\n'.join(L); c['natural'] = None
    mk('exe_options_var', env={'@EXE@_options': 'cvt:bigM=5', 'recsolver_options': 'foo=1'}, all_opts=[('cvt:bigM=5', 'o')])
    mk('exe_options_var_bad', env={'@EXE@_options': 'foo=1'}, all_opts=[('foo=1', 'b')])
    mk('exe_alias_exe', exe_alias='rs.exe', env={'@EXE@_options': 'foo=1'}, all_opts=[('foo=1', 'b')])
    mk('exe_alias_app', exe_alias='rs.app', env={'@EXE@_options': 'wantsol=1'}, all_opts=[('wantsol=1', ('w', 1))], ampl=False)
    mk('stub_relative', stub_relative=True)
    mk('stub_relative_ext', stub_relative=True, stub_with_ext=True)
    mk('stub_relative_bad', stub_relative=True, options=[('foo=1', 'b')])
    m = lp(); m.obj('max', {0: 1}); m.obj('min', {1: 3})
    m.suffixes.append({'name': 'objpriority', 'kind': 2, 'float': False, 'vals': {0: 1, 1: 2, 2: 3}})
    m.suffixes.append({'name': 'objweight', 'kind': 2, 'float': True, 'vals': {0: 1, 1: 2, 2: 1}})
    m.suffixes.append({'name': 'objabstol', 'kind': 2, 'float': True, 'vals': {0: 1}})
    m.suffixes.append({'name': 'objreltol', 'kind': 2, 'float': True, 'vals': {0: 1}})
    m.suffixes.append({'name': 'zork', 'kind': 0, 'float': False, 'vals': {0: 2}})
    for o in ([('obj:multi=1', 'o')], [('obj:multi=1', 'o'), ('tech:reporttimes=1', 'o'), ('tech:timing=1', 'o')], [('objno=2', 'o')], []):
        c = cg.base('corpus:multiobj', m); c['natural'] = 'none'; c['options'] = o; c['all_opts'] = o; out.append(c)
    for t in c09gen.OPT_OK:
        mk('opt-ok:' + t, options=[(t, 'o')])
    for t in c09gen.OPT_BAD:
        mk('opt-bad:' + t, options=[(t, 'b')])
    for t in c09gen.OPT_INVALID:
        mk('opt-invalid:' + t, options=[(t, 'v')])
    for w in c09gen.WANTSOL:
        mk('wantsol=%d' % w, ampl=False, options=[('wantsol=%d' % w, ('w', w))])
    for site in SITES:
        for kind in KINDS:
            codes = [512, -7, 0, 250] if kind == 'withCode' else [None]
            for code in codes:
                mk('inject:%s:%s' % (site, kind), env={'RECSOLVER_FAULT': '%s:%s' % (site, kind) + (':%d' % code if code is not None else '')},
                   inject=(site, kind, code), synthetic=True)
    # incoming start values / basis x declared features (seeded C09-6): a valid model with x and d segments must be solved whatever
    # subset of WARMSTART / MIPSTART the driver declares
    for what in ('x', 'd', 'xd'):
        for basis in ('none', 'both', 'var'):
            for feats in ('', '-WARMSTART', '-MIPSTART', '-WARMSTART,-MIPSTART'):
                for opt in (None, 'basis=0', 'basis=3'):
                    if opt and (what != 'xd' or basis == 'var'):
                        continue
                    m = lp(); cg.g.add_start(m, what, basis)
                    c = cg.base('corpus:start:%s:%s:%s:%s' % (what, basis, feats or 'all', opt or '-'), m)
                    c['natural'] = 'none'
                    c['options'] = c['all_opts'] = [(opt, 'o')] if opt else []
                    if feats:
                        c['env']['RECSOLVER_FEATURES'] = feats
                    out.append(c)
    # not exceptions (round 6): the stage kills the process / does not return.  Reached: crash / hang; not reached (a bad
    # option ends the run before): the run ends as if nothing had been injected (C09_pipeline_abort_hang)
    for site in SITES:
        mk('inject:%s:abort' % site, env={'RECSOLVER_FAULT': '%s:abort' % site}, inject=(site, 'abort', None), synthetic=True)
    mk('inject:solve:hang', env={'RECSOLVER_FAULT': 'solve:hang'}, inject=('solve', 'hang', None), synthetic=True, timeout=5)
    for k in ('abort', 'hang'):
        mk('inject:convert:%s-unreached' % k, env={'RECSOLVER_FAULT': 'convert:%s' % k}, inject=('convert', k, None), synthetic=True,
           timeout=20, options=[('foo=1', 'b')])
    for t, k in ((1, 'stdExn'), (2, 'withCode'), (3, 'unsupported')):
        mk('script-throw%d' % t, script='code 250\nmsg s\nthrow %d\n' % t, answer=(250, False, False),
           inject=('solve', k, 250 if t == 2 else None), synthetic=True)
    for code in (0, 1, 99, 100, 200, 299, 300, 400, 500, 567, 999, 1000, -1):
        mk('script-code%d' % code, script='code %d\nmsg s\n' % code, answer=(code, False, False))
    return out


# ------------------------------------------------------------------------------------------ main
def evaluate(case, r):
    """returns (obs, ending_fault(for model), sc(for oracle), inferred(bool))"""
    o = observe(case, r)
    # which non-option fault is first?  natural (by construction) vs injected vs names
    cands = []
    nat = case.get('natural')
    inferred = False
    if nat is None:
        inf = classify_message(case, r, o)
        inferred = True
        if inf is not None:
            cands.append(inf)
    elif nat != 'none':
        cands.append(nat)
    if case.get('names_bad'):
        mode = '1'                           # cvt:names: the last assignment wins; 0 and 3 do not read the files
        for t, _ in case.get('all_opts', []):
            if t.startswith('cvt:names='):
                mode = t.split('=', 1)[1]
        if mode in ('1', '2'):
            cands.append(('names', 'readError', None))
    if case.get('inject'):
        cands.append(case['inject'])
    fault = min(cands, key=lambda f: STAGES.index(f[0])) if cands else None
    # the injection site 'extras' (SetInterrupter) is passed before ExportModel: it precedes a failing tech:writemodel
    if fault and case.get('inject') and case['inject'][0] == 'extras' and fault != case['inject'] and fault[0] == 'extras':
        fault = case['inject']
    # an injected 'convert' fault fires when the model is pushed to the ModelAPI, i.e. after a natural conversion failure
    if fault and case.get('inject') and fault == case['inject'] and fault[0] == 'convert':
        others = [f for f in cands if f != fault and f[0] == 'convert']
        if others:
            fault = others[0]
    # the whole environment for the pipeline model: every stage that would raise (one entry per stage, ties within a stage
    # resolved above), latest first - the Lean fold has to find the first one in execution order itself
    behs = ([fault] if fault else []) + [f for f in cands if fault and f[0] != fault[0]]
    seen, uniq = set(), []
    for f in behs:
        if f[0] not in seen:
            seen.add(f[0]); uniq.append(f)
    case['_behs'] = sorted(uniq, key=lambda f: -STAGES.index(f[0]))
    return o, fault, inferred


# ------------------------------------------------------------------------------------------ model arms
ALL_ARMS = (['parseFlags.' + x for x in ('nil', 'wantsol', 'noecho', 'dashdash', 'info', 'invalid')] +
            ['parseOpts.' + x for x in ('nil', 'wantsol', 'ok', 'bad', 'invalidValue')] +
            ['expandOpts.' + x for x in ('tok', 'optfile-read', 'optfile-readFails')] +
            ['ending.' + x for x in ('fault-ctor/init', 'flags-stop', 'flags-throw', 'no-stub', 'ampl', 'no-ampl', 'fault-openNL/header',
                                     'opts-raise', 'fault-options-window', 'objnoTooBig', 'fault-populate..extras', 'justExport',
                                     'fault-solve/report', 'suffixes-swallowed', 'suffixes-foreign', 'finished')] +
            ['fail.insideRun', 'fail.ctor-mpError', 'fail.ctor-stdExn', 'fail.ctor-foreign'] +
            ['reportError.foreign', 'reportError.handler', 'reportError.no-handler'] +
            ['handleSolution.file-written', 'handleSolution.file-wanted-not-writable', 'handleSolution.no-file-wanted'] +
            ['errDims.dimsKnown', 'errDims.populate', 'errDims.zero'] +
            ['reportCode.mpError>=100', 'reportCode.mpError<100', 'reportCode.stdExn'] +
            ['conclude.finished-retry-after-write-error', 'conclude.exported', 'conclude.info'] +
            ['suppressMsg.true', 'suppressMsg.false'] +
            ['Raise.' + k for k in KINDS + ['wrappedInfeas']] + ['Stage.' + st for st in STAGES] + ['Beh.abort', 'Beh.hang'])
EXIT_CODE_OF = {'plain': -1, 'infeas': 200, 'wrappedInfeas': 200, 'solCheck': 150, 'unsupported': 1, 'optionError': -1, 'readError': 1, 'fmtError': 1}


def model_arms(c, fault, ending, wantsol_eff=None):
    """which arms of the Lean model functions this scenario exercises (recomputed from the scenario fed to the driver;
    used only for the coverage accounting of the correspondence stream)"""
    A = set()
    stopped = None
    for f in c.get('flags_tok', []):
        A.add('parseFlags.' + {'s': 'wantsol', 'e': 'noecho', 'd': 'dashdash', 'i': 'info', 'x': 'invalid'}[f])
        if f in 'dix':
            stopped = f
            break
    if stopped is None:
        A.add('parseFlags.nil')
    early = fault is not None and STAGES.index(fault[0]) < 2
    if early:
        A.add('ending.fault-ctor/init')
    elif stopped == 'i':
        A.add('ending.flags-stop')
    elif stopped == 'x':
        A.add('ending.flags-throw')
    elif not c.get('stub', True):
        A.add('ending.no-stub')
    else:
        A.add('ending.ampl' if c.get('ampl') else 'ending.no-ampl')
        if fault is not None and STAGES.index(fault[0]) < 4:
            A.add('ending.fault-openNL/header')
        else:
            for _, t in c.get('all_opts', []):
                if not isinstance(t, str) and t[0] == 'F':
                    A.add('expandOpts.optfile-readFails' if t[1] else 'expandOpts.optfile-read')
                else:
                    A.add('expandOpts.tok')
            raised = False
            for t in expand_toks(c.get('all_opts', [])):
                A.add('parseOpts.' + ({'o': 'ok', 'b': 'bad', 'v': 'invalidValue'}[t] if isinstance(t, str) else 'wantsol'))
                if t in ('b', 'v'):
                    raised = True
                    break
            if raised:
                A.add('ending.opts-raise')
            else:
                A.add('parseOpts.nil')
                if fault is not None and fault[0] == 'options':
                    A.add('ending.fault-options-window')
                elif c.get('objno_big'):
                    A.add('ending.objnoTooBig')
                elif fault is not None and STAGES.index(fault[0]) < STAGES.index('solve'):
                    A.add('ending.fault-populate..extras')
                elif c.get('just_export'):
                    A.add('ending.justExport'); A.add('conclude.exported')
                elif fault is not None and fault[0] == 'suffixes':
                    A.add('ending.suffixes-foreign' if fault[1] == 'foreign' else 'ending.suffixes-swallowed')
                elif fault is not None:
                    A.add('ending.fault-solve/report')
                else:
                    A.add('ending.finished')
    if ending == 'info':
        A.add('conclude.info')
    op = c.get('outpath', 'ok')
    writable = op == 'ok'
    if isinstance(ending, tuple):
        st, rz, code = ending
        A.add('Stage.' + st)
        if rz in ('abort', 'hang'):
            A.add('Beh.' + rz)
            return A, writable
        A.add('Raise.' + rz)
        kind = 'foreign' if rz == 'foreign' else ('stdExn' if rz in ('stdExn', 'systemError') else 'mpError')
        if st == 'ctor':
            A.add('fail.ctor-' + kind)
        else:
            A.add('fail.insideRun')
            if kind == 'foreign':
                A.add('reportError.foreign')
            elif st in NO_HANDLER:
                A.add('reportError.no-handler')
            else:
                A.add('reportError.handler')
                A.add('errDims.' + ('zero' if st == 'options' else 'populate' if st == 'populate' else 'dimsKnown'))
                if kind == 'stdExn':
                    A.add('reportCode.stdExn')
                else:
                    ec = code if rz == 'withCode' else EXIT_CODE_OF.get(rz, -1)
                    A.add('reportCode.mpError>=100' if ec is not None and ec >= 100 else 'reportCode.mpError<100')
    return A, writable


# ------------------------------------------------------------------------------------------ coverage mode
ANCHOR_FILES = ['include/mp/backend-app.h', 'include/mp/backend-std.h', 'include/mp/backend-mip.h', 'include/mp/backend-with-mm.h',
                'include/mp/model-mgr-with-pb.h', 'include/mp/solver-io.h', 'include/mp/solver-app-base.h', 'src/solver.cc',
                'include/mp/error.h', 'include/mp/flat/converter.h', 'include/mp/flat/problem_flattener.h',
                'include/mp/flat/redef/redef_base.h', 'include/mp/sol.h', 'include/mp/basic-expr-visitor.h']
# functions of the mechanisms named in the property's anchors (+ what they call on the way to the outcome)
MECH = re.compile(r'(BackendApp::(Run|Init)\b|RunBackendApp|::ReportError\(int|::HandleSolution|::HandleFeasibleSolution|MakeProperSolutionHandler|'
                  r'::ReadNLModel|::ReadNLFile|::ReadNames|::SetObjNames|SolverNLHandlerImpl.*::OnHeader|::ConvertItems|::ConvertModel\b|VisitUnsupported|'
                  r'SolverAppOptionParser::|BasicSolver::ParseOptions|BasicSolver::ParseOptionString|UseOptionFile|ProcessLines_AvoidComments|'
                  r'WriteSolFile|WriteSuffixes|::RunFromNLFile|::ReadNL\b|StdBackend.*::Report\b|::ReportResults|::ReportSolution2AMPL|::ReportSolution\b|'
                  r'::ReportIntermediateSolution|::ReportSuffixes|::Abort|BasicSolver::ToString|::AddWarning|::GetWarnings|::ConvertLogicalCon|'
                  r'mp::Error::|UnsupportedError|MakeUnsupportedError|OptionError|ConstraintConversionFailure|::InputExtras|::InputStdExtras|PrintSolution)')


def coverage_build(ck, covdir):
    """recsolver + libmp compiled with --coverage -O0 (no sanitizers); objects cached by preprocessed text"""
    from concurrent.futures import ThreadPoolExecutor
    os.makedirs(covdir, exist_ok=True)
    srcs = [os.path.join(recsolver.RDIR, f) for f in ['recmain.cc', 'recmodelmgr.cc', 'recmodelapi.cc', 'recbackend.cc']] + \
           [os.path.join(REPO, f) for f in ck.LIBMP_SRC]
    inc = ['-I' + os.path.join(REPO, 'include'), '-I' + os.path.join(REPO, 'src'), '-I' + os.path.join(VERIF, 'harness'), '-I' + recsolver.RDIR]
    defs = ['-DNDEBUG', '-DMP_DATE=20240320', '-DMP_SYSINFO="Linux x86_64"', '-DMP_USE_ATOMIC', '-DMP_USE_HASH', '-DMP_USE_UNIQUE_PTR', '-DAMPL_MP_VERIF']
    base = ['g++', '-std=c++17', '-w', '-O0', '-g', '--coverage'] + defs + inc

    def one(src):
        name = os.path.basename(src).replace('.', '_')
        obj = os.path.join(covdir, name + '.o')
        rc, out, err = sh(base + ['-E', '-P', src], timeout=900)
        if rc != 0:
            raise RuntimeError(err[-2000:])
        h = hashlib.sha256((' '.join(base) + out).encode()).hexdigest()
        stamp = obj + '.hash'
        if not (os.path.exists(obj) and os.path.exists(stamp) and open(stamp).read() == h):
            rc, out, err = sh(base + ['-c', src, '-o', obj], timeout=3000)
            if rc != 0:
                raise RuntimeError(err[-3000:])
            open(stamp, 'w').write(h)
        return obj
    with ThreadPoolExecutor(max_workers=8) as ex:
        objs = list(ex.map(one, srcs))
    exe = os.path.join(covdir, 'recsolver_cov')
    rc, out, err = sh(['g++', '--coverage'] + objs + ['-o', exe, '-ldl'], timeout=1800)
    if rc != 0:
        raise RuntimeError(err[-3000:])
    return exe, objs


def coverage_collect(covdir):
    """gcov-12 -b -c (json) on every .gcda; aggregated per anchored file"""
    import gzip, glob as _g
    lines = {}      # (file, line) -> count
    branches = {}   # (file, line, idx) -> count     (exception edges excluded)
    funcs = {}      # (file, start_line, end_line, name) -> count
    for gcda in sorted(_g.glob(os.path.join(covdir, '*.gcda'))):
        rc, out, err = sh(['gcov-12', '-b', '-c', '--json-format', '--stdout', '-m', gcda], cwd=covdir, timeout=1800)
        if rc != 0 or not out.strip():
            continue
        for doc in out.strip().split('\n'):
            try:
                j = json.loads(doc)
            except Exception:
                continue
            for f in j.get('files', []):
                fn = os.path.normpath(os.path.join(covdir, f['file'])) if not os.path.isabs(f['file']) else os.path.normpath(f['file'])
                if not fn.startswith(os.path.normpath(REPO) + os.sep):
                    continue
                rel = os.path.relpath(fn, REPO)
                if rel not in ANCHOR_FILES:
                    continue
                for fu in f.get('functions', []):
                    k = (rel, fu['start_line'], fu['end_line'], fu.get('demangled_name') or fu['name'])
                    funcs[k] = funcs.get(k, 0) + fu['execution_count']
                for l in f.get('lines', []):
                    k = (rel, l['line_number'])
                    lines[k] = lines.get(k, 0) + l['count']
                    bi = 0
                    for b in l.get('branches', []):
                        if b.get('throw'):
                            continue
                        kb = (rel, l['line_number'], bi)
                        branches[kb] = branches.get(kb, 0) + b['count']
                        bi += 1
    return lines, branches, funcs


def short_fn(name):
    t, prev = name, None
    while prev != t:
        prev = t
        t = re.sub(r'<[^<>]*>', '', t)
    return re.sub(r'\(.*$', '', t)[-70:]


def coverage_report(lines, branches, funcs, n_cases, label):
    rep = {'label': label, 'cases': n_cases, 'files': {}, 'mechanism': {}}
    tot_l = tot_lc = tot_b = tot_bc = 0
    for rel in ANCHOR_FILES:
        L = [(k, v) for k, v in lines.items() if k[0] == rel]
        B = [(k, v) for k, v in branches.items() if k[0] == rel]
        if not L:
            rep['files'][rel] = None
            continue
        lc, bc = sum(1 for _, v in L if v), sum(1 for _, v in B if v)
        rep['files'][rel] = {'lines': len(L), 'lines_hit': lc, 'line_cov': round(100.0 * lc / len(L), 1),
                             'branches': len(B), 'branches_hit': bc, 'branch_cov': round(100.0 * bc / max(1, len(B)), 1)}
        tot_l += len(L); tot_lc += lc; tot_b += len(B); tot_bc += bc
    rep['anchor_line_cov'] = round(100.0 * tot_lc / max(1, tot_l), 1)
    rep['anchor_branch_cov'] = round(100.0 * tot_bc / max(1, tot_b), 1)
    # mechanism functions: merged over instantiations by (file, start, end, short name)
    mech = {}
    for (rel, a, b, name), cnt in funcs.items():
        if not MECH.search(name):
            continue
        k = (rel, a, b, short_fn(name))
        mech[k] = mech.get(k, 0) + cnt
    ml = mlc = mb = mbc = 0
    unc_funcs, unc_lines, unc_br = [], {}, {}
    for (rel, a, b, sn), cnt in sorted(mech.items()):
        if cnt == 0:
            unc_funcs.append('%s:%d %s' % (rel, a, sn))
        for (f, ln), v in lines.items():
            if f == rel and a <= ln <= b:
                ml += 1; mlc += 1 if v else 0
                if cnt and not v:
                    unc_lines.setdefault('%s %s' % (rel, sn), set()).add(ln)
        for (f, ln, bi), v in branches.items():
            if f == rel and a <= ln <= b:
                mb += 1; mbc += 1 if v else 0
                if cnt and not v and lines.get((f, ln)):
                    unc_br.setdefault('%s %s' % (rel, sn), set()).add(ln)
    rep['mechanism'] = {'functions': len(mech), 'functions_hit': sum(1 for v in mech.values() if v),
                        'line_cov': round(100.0 * mlc / max(1, ml), 1), 'branch_cov': round(100.0 * mbc / max(1, mb), 1),
                        'uncovered_functions': unc_funcs,
                        'uncovered_lines': {k: sorted(v) for k, v in sorted(unc_lines.items())},
                        'lines_with_untaken_branch': {k: sorted(v) for k, v in sorted(unc_br.items())}}
    return rep


def coverage_mode(ck):
    """VERIF_COVERAGE=1 ./check C09 : quick-tier stream through a gcov build; writes design_notes/coverage/C09.json (+ raw report)"""
    covdir = os.path.join(BUILD, 'cov')
    exe, objs = coverage_build(ck, covdir)
    import glob as _g
    for f in _g.glob(os.path.join(covdir, '*.gcda')):
        os.remove(f)
    work = os.path.join(BUILD, 'c09.covwork')
    shutil.rmtree(work, ignore_errors=True)
    os.makedirs(work)
    cases = build_cases(ck, work, 'quick')
    with ThreadPoolExecutor(max_workers=6) as ex:
        results = list(ex.map(lambda c: run_case(c, os.path.join(work, 'c%d' % c['id']), exe), cases))
    lines, branches, funcs = coverage_collect(covdir)
    label = os.environ.get('VERIF_COVERAGE_LABEL', 'run')
    rep = coverage_report(lines, branches, funcs, len(cases), label)
    out = os.path.join(VERIF, 'design_notes', 'coverage')
    os.makedirs(out, exist_ok=True)
    json.dump(rep, open(os.path.join(out, 'C09.%s.json' % label), 'w'), indent=1)
    json.dump({'anchor_line_cov': rep['anchor_line_cov'], 'anchor_branch_cov': rep['anchor_branch_cov'],
               'mechanism_line_cov': rep['mechanism']['line_cov'], 'mechanism_branch_cov': rep['mechanism']['branch_cov'],
               'cases': len(cases), 'label': label, 'seed': ck.seed}, open(os.path.join(out, 'C09.json'), 'w'), indent=1)
    ck.log('coverage[%s]: anchors line %.1f%% branch %.1f%%; mechanism functions %d/%d, line %.1f%% branch %.1f%%' % (
        label, rep['anchor_line_cov'], rep['anchor_branch_cov'], rep['mechanism']['functions_hit'], rep['mechanism']['functions'],
        rep['mechanism']['line_cov'], rep['mechanism']['branch_cov']))
    for rel, v in rep['files'].items():
        ck.log('  %-45s %s' % (rel, 'not instantiated' if v is None else 'line %5.1f%% (%d/%d)  branch %5.1f%% (%d/%d)' % (
            v['line_cov'], v['lines_hit'], v['lines'], v['branch_cov'], v['branches_hit'], v['branches'])))
    shutil.rmtree(work, ignore_errors=True)
    ck.cov.update({'evaluations': len(cases), 'distinct_nontrivial': 0, 'rule': 'coverage mode: no verdicts', 'exhaustive': False})
    ck.sample('coverage mode')


def build_cases(ck, work, tier):
    cg = CaseGen(ck.seed, work)
    cases = corpus_cases(cg)
    n_corpus = len(cases)
    n_rand, n_mal = (700, 300) if tier == 'quick' else (9000, 4000)
    for _ in range(n_rand):
        cases.append(cg.case())
    for _ in range(n_mal):
        cases.append(cg.malformed())
    for i, c in enumerate(cases):
        c['id'] = i
        c.setdefault('all_opts', c.get('options', []))
    ck.log('%d cases (%d corpus, %d structured, %d malformed)' % (len(cases), n_corpus, n_rand, n_mal))
    return cases


def run(ck):
    ck.level = 'proof'
    if os.environ.get('VERIF_COVERAGE'):
        return coverage_mode(ck)
    ck.notes.append('PARTIAL: proof about the hand model of the outcome decision logic + sampled correspondence with the real driver; '
                    'termination / crash freedom of the C++ is observed only (ASan+UBSan, timeout) on the generated inputs')
    # translator tie: regenerate lean/MpVerif/Gen/C09Driver.lean from the current tree (clang typed AST)
    gen = os.path.join(LEAN, 'MpVerif', 'Gen', 'C09Driver.lean')
    rc, out, err = sh([sys.executable, os.path.join(VERIF, 'translators', 'gen_c09.py'), REPO, gen, os.path.join(BUILD, 'tr_c09')], timeout=600)
    ck.log((out.strip() or err.strip())[-300:])
    translator_ok = rc == 0
    if translator_ok:
        proof_ok, failing = ck.proof_stage('MpVerif.C09.Props', 'MpVerif/C09/Props.lean', 'C09_',
                                            ['MpVerif/C09/*.lean', 'MpVerif/Gen/C09Driver.lean'], expect_min=63)
    else:
        proof_ok, failing = False, ['translator gen_c09.py: ' + (out + err).strip()[-400:]]
        ck.cov.update({'obligations': 51, 'discharged': 0, 'checker_cmd': 'translators/gen_c09.py failed'})
    ck.log('proof stage: ok=%s failing=%s' % (proof_ok, failing[:8]))
    if ck.tier == 'thorough' and proof_ok:
        bad = ck.leanchecker(['MpVerif.C09.Props'])
        if bad:
            failing += ['leanchecker rejected %s' % m for m in bad]
            proof_ok = False
    exe = recsolver.build(ck, flags=SAN, name='recsolver_san')
    drv = ck.driver('drv_c09')
    ck.log('built %s' % os.path.basename(exe))
    work = os.path.join(BUILD, 'c09.work')
    shutil.rmtree(work, ignore_errors=True)
    os.makedirs(work)
    cases = build_cases(ck, work, ck.tier)

    def one(c):
        return run_case(c, os.path.join(work, 'c%d' % c['id']), exe)
    t0 = time.time()
    with ThreadPoolExecutor(max_workers=6) as ex:
        results = list(ex.map(one, cases))
    ck.log('ran %d processes in %.1fs (max single %.2fs)' % (len(cases), time.time() - t0, max(r['wall'] for r in results)))
    n_retried = sum(1 for r in results if r.get('retried_after_timeout') and r['rc'] != 'timeout')
    if n_retried:
        ck.notes.append('%d run(s) exceeded the %d s limit once and completed normally when repeated (machine stall, not a hang of the driver)' % (n_retried, TIMEOUT))

    lines, evals = [], []
    for c, r in zip(cases, results):
        o, fault, inferred = evaluate(c, r)
        hd = c.get('header')
        dims = (hd[0], hd[1]) if hd else (0, 0)
        ans = c.get('answer', (0, True, True))
        if c.get('script') is None and o['kind'] == 'sol' and o.get('complete'):
            # which vectors the (unscripted) solver stub returns after postsolve is part of the solver's answer, not of the driver logic
            ans = (ans[0], o['nprimals'] > 0, o['nduals'] > 0)
        partial = (o['ncons'], o['nvars']) if (fault and fault[0] == 'populate' and o['kind'] == 'sol' and o.get('complete')) else (0, 0)
        lines.append(scenario_line(c, c.get('_behs') or fault, dims, ans, partial))
        evals.append((o, fault, inferred))
    p = subprocess.run([drv], input='\n'.join(lines) + '\n', capture_output=True, text=True)
    model = p.stdout.split('\n')

    hist = {'family': {}, 'outcome': {}, 'ending': {}, 'deviation': {}, 'outpath': {}, 'mode': {}}
    rows = set()
    distinct = set()
    n_cmp = n_dis = n_inferred = n_latent = 0
    inferred_dis = []
    arms = {}

    def bump(h, k):
        hist[h][k] = hist[h].get(k, 0) + 1
    for idx, (c, r) in enumerate(zip(cases, results)):
        o, fault, inferred = evals[idx]
        hd = c.get('header')
        ml = model[idx] if idx < len(model) else ''
        obs_s = canon(o)
        mod_s = canon_model(ml)
        if 'shown=?' in obs_s:
            mod_s = re.sub(r'shown=\d', 'shown=?', mod_s)
        ending = py_model_ending(c, fault)
        fam = c['family'].split(':')[0] if not c['family'].startswith('corpus') else 'corpus'
        bump('family', fam)
        bump('outcome', obs_s.split(' ')[0] + ('' if o['kind'] != 'sol' or not o.get('complete') else ':%d' % (o['code'] // 100 * 100)))
        bump('ending', 'info' if ending == 'info' else ('none' if ending is None else '%s:%s' % (ending[0], ending[1])))
        bump('outpath', c.get('outpath', 'ok'))
        bump('mode', ('ampl' if c.get('ampl') else 'standalone'))
        if ending not in (None, 'info'):
            rows.add((ending[0], ending[1]))
        distinct.add((fam, obs_s, str(ending), c.get('outpath'), bool(c.get('ampl'))))
        A, _w = model_arms(c, fault, ending)
        ms = ml.split(' | ')[0]
        if isinstance(ending, tuple) or ending is None:
            if ms.startswith('sol '):
                A.add('handleSolution.file-written')
            elif ms.startswith('stdout '):
                A.add('handleSolution.no-file-wanted')
            elif ms.startswith('stderr ') and c.get('outpath', 'ok') != 'ok' and not (isinstance(ending, tuple) and ending[0] in NO_HANDLER):
                A.add('handleSolution.file-wanted-not-writable')
                if ending is None:
                    A.add('conclude.finished-retry-after-write-error')
            if 'echoed=1' in ms or 'shown=1' in ms:
                A.add('suppressMsg.false')
            if 'shown=0' in ms:
                A.add('suppressMsg.true')
        for a_ in A:
            arms[a_] = arms.get(a_, 0) + 1
        n_inferred += inferred
        replay = {'case': {k: v for k, v in c.items() if k not in ('id', '_behs')}, 'observed': obs_s, 'model': ml,
                  'scenario_line': lines[idx], 'cmdline': r.get('cmdline'), 'env': r.get('env'), 'stdout': r['out'][-600:], 'stderr': r['err'][-1500:],
                  'sol': (r['sol'] or '')[:600], 'how': './check C09 --replay <this file>'}
        # (a) correspondence model vs implementation
        n_cmp += 1
        corr_bad = (ml == 'bad-op' or obs_s != mod_s)
        # (b) the property itself on what the implementation did
        sc = {'ending': ending, 'dims': (hd[0], hd[1]) if hd else None, 'outpath': c.get('outpath', 'ok'),
              'answer': c.get('answer', (0, True, True)), 'hdr_inconsistent': c09gen.header_inconsistent(c['nl']) if c.get('nl') else False,
              'undefined_lcons': c09gen.undefined_logical_cons(c['nl']) if c.get('nl') else False,
              'wants_nsol': any(t.startswith(('sol:stub', 'solstub', 'sol:count')) for t, _ in c.get('all_opts', [])),
              'graph': bool(c.get('graph')), 'stack': r['err'][:6000] if o['kind'] == 'crash' else '',
              'cmdline': r.get('cmdline', ''), 'alts': r.get('alts') if c.get('altsol') is not None else None,
              'n_altsol_expected': (c['altsol'] if (c.get('altsol') is not None and ending is None) else None),
              'progress': 'report' if '"ev":"solve"' in r['log'] else ('convert' if '"ev":"begin"' in r['log'] else 'read-or-options'),
              'names_first_empty': any((c.get(e) or 'x').startswith(('\n', '\r')) for e in ('col', 'row'))}
        devs = oracle(c, sc, o)
        if c.get('expect_msg_re') and not (o['kind'] == 'sol' and o.get('complete') and re.search(c['expect_msg_re'], o.get('message', ''))):
            devs.append(('regression:message', 'the diagnostic does not match %r: %r' % (c['expect_msg_re'], (o.get('message') or r['err'] or r['out'])[:120])))
        latent = c.get('synthetic') and c.get('inject') and (
            (c['inject'][1] in ('foreign', 'abort', 'hang')) or (c['inject'][0] == 'ctor'))
        for sig, text in devs:
            bump('deviation', sig.split(':')[0] + (':latent-injection' if latent and sig.split(':')[0] in ('crash', 'ctorcode', 'hang') else ''))
            if latent and sig.split(':')[0] in ('crash', 'ctorcode', 'hang') and not corr_bad:
                n_latent += 1        # model row validated by injection; not an input of the property's domain
                continue
            ck.add_violation(sig, '%s  [family %s, argv tail %s]' % (text, c['family'], ' '.join(
                c.get('flags_argv', []) + (['<stub>'] if c.get('stub', True) else []) + (['-AMPL'] if c.get('ampl') else []) + [t for t, _ in c.get('options', [])])),
                replay, found_input=True)
        if corr_bad and any(sig.split(':')[0] in ('crash', 'hang', 'resource', 'anomaly') for sig, _ in devs):
            n_crash_unpredicted = True       # crashes of the real code are not rows of the decision table; reported above
        elif corr_bad:
            n_dis += 1
            if not devs and inferred:
                # the ending fed to the model was only guessed from the diagnostic's class and the driver's behaviour
                # satisfies the property: recorded; fatal only if it happens more than occasionally (see below)
                inferred_dis.append((lines[idx], mod_s, obs_s, replay))
            elif not devs:
                # the real code satisfies the property here but the model predicts something else: model drift
                ck.add_violation('model-differs:%s' % ('inferred' if inferred else 'constructed'),
                                 'model predicts "%s" but the driver did "%s" (scenario: %s)' % (mod_s, obs_s, lines[idx]),
                                 replay, found_input=False)
            else:
                # property violated *and* not as the model (which reproduces the known deviations) predicts
                ck.add_violation('unmodelled:' + devs[0][0], 'deviation not predicted by the model: model "%s", driver "%s": %s' % (mod_s, obs_s, devs[0][1]),
                                 replay, found_input=True)
        if idx % 97 == 0:
            ck.sample('%s => %s' % (lines[idx], obs_s))
    if len(inferred_dis) > max(3, n_inferred // 500):
        l, mo, ob, rp = inferred_dis[0]
        ck.add_violation('model-differs:inferred', '%d runs with an inferred ending disagree with the model although the property holds, e.g. '
                         'model "%s", driver "%s" (scenario: %s)' % (len(inferred_dis), mo, ob, l), rp, found_input=False)
    elif inferred_dis:
        ck.notes.append('%d run(s) with an ending inferred from the diagnostic class disagree with the model while satisfying the property '
                        '(classifier ambiguity), e.g. %s => model "%s", driver "%s"' % ((len(inferred_dis),) + tuple(inferred_dis[0][:3])))
    ck.cov.update({
        'evaluations': len(cases),
        'traces_validated_against_impl': n_cmp,
        'correspondence': {'runs_compared_model_vs_driver': n_cmp, 'disagreements': n_dis,
                           'endings_known_by_construction': n_cmp - n_inferred, 'endings_inferred_from_diagnostic_class': n_inferred,
                           'inferred_disagreements_property_holds': len(inferred_dis)},
        'distinct_nontrivial': len(distinct),
        'rule': 'distinct (model family, canonical outcome, ending (stage,raise), output-path state, -AMPL) tuples over all process runs',
        'table_rows_hit': {'stage_x_raise_pairs_observed': len(rows), 'of': len(STAGES) * len(KINDS)},
        'latent_rows_validated_by_injection_only': n_latent,
        'model_arms': {'taken': sum(1 for a_ in ALL_ARMS if arms.get(a_)), 'of': len(ALL_ARMS),
                       'never_taken': [a_ for a_ in ALL_ARMS if not arms.get(a_)], 'counts': {a_: arms.get(a_, 0) for a_ in ALL_ARMS}},
        'histogram': hist,
        'exhaustive': False,
        'sanitizers': 'ASan+UBSan (vptr check off: CRTP static_cast in FlatConverter ctor fires on every run), per-run timeout %ds' % TIMEOUT,
    })
    try:
        cj = json.load(open(os.path.join(VERIF, 'design_notes', 'coverage', 'C09.json')))
        ck.cov['anchor_line_cov'] = cj['anchor_line_cov']
        ck.cov['anchor_branch_cov'] = cj['anchor_branch_cov']
        ck.cov['anchor_coverage_note'] = ('gcov line/branch coverage of the anchored files by the quick-tier stream, measured in the last VERIF_COVERAGE=1 run '
                                          '(mechanism functions: line %.1f%%, branch %.1f%%); see design_notes/coverage/C09.md' %
                                          (cj['mechanism_line_cov'], cj['mechanism_branch_cov']))
    except Exception:
        pass
    ck.log('outcomes: %s' % json.dumps(hist['outcome'], sort_keys=True))
    ck.log('endings: %s' % json.dumps(hist['ending'], sort_keys=True))
    ck.log('model arms taken: %d/%d; never: %s' % (sum(1 for a_ in ALL_ARMS if arms.get(a_)), len(ALL_ARMS), [a_ for a_ in ALL_ARMS if not arms.get(a_)]))
    ck.log('deviations: %s   correspondence disagreements: %d   inferred endings: %d   rows hit: %d' %
           (json.dumps(hist['deviation'], sort_keys=True), n_dis, n_inferred, len(rows)))
    if not proof_ok:
        for fdecl in failing:
            ck.add_violation('obligation:%s' % fdecl, 'proof obligation no longer checks: %s' % fdecl,
                             {'theorem': fdecl, 'module': 'MpVerif.C09.Props',
                              'searched': '%d driver runs; see other violations for failing inputs' % len(cases)}, found_input=False)
    ck.assumptions += [
        'crash/hang freedom and memory safety are OBSERVED only (sanitizer build, timeout) on the generated inputs: the property is decided partially',
        'the model is a hand-extracted decision table (stage x raise kind x mode x output path); its agreement with the driver is sampled on every run',
        'exceptions reaching the catch clauses are std::exception-derived (no throw site of another type is known outside ConvertItems)',
        'the solver answers with well-sized vectors (wrong-sized solver vectors are C04\'s subject)',
        'text NL input; NL headers with at least one AMPL option (zero options: C05/A8)',
    ]
    ck.cov['trusted_base'] += ['harness/recsolver (fault injection via RECSOLVER_FAULT at 8 sites), checks/c09.py (strict .sol parser, classifier of diagnostics into (stage, raise))']
    shutil.rmtree(work, ignore_errors=True)


def replay(ck, path):
    ck.level = 'proof'
    rep = json.load(open(path))
    case = rep['replay']['case'] if 'replay' in rep else rep['case']
    for k in ('options', 'all_opts'):
        case[k] = [(t, tuple(x) if isinstance(x, list) else x) for t, x in case.get(k, [])]
    for k in ('natural', 'inject'):
        if isinstance(case.get(k), list):
            case[k] = tuple(case[k])
    case['answer'] = tuple(case.get('answer', (0, True, True)))
    exe = recsolver.build(ck, flags=SAN, name='recsolver_san')
    d = os.path.join(BUILD, 'c09.replay')
    shutil.rmtree(d, ignore_errors=True)
    r = run_case(case, d, exe)
    o, fault, inferred = evaluate(case, r)
    hd = case.get('header')
    ending = py_model_ending(case, fault)
    sc = {'ending': ending, 'dims': (hd[0], hd[1]) if hd else None, 'outpath': case.get('outpath', 'ok'), 'answer': case['answer']}
    devs = oracle(case, sc, o)
    stub, argv, env = materialise(case, os.path.join(BUILD, 'c09.replay2'), exe) if False else (None, None, None)
    print('observed: %s' % canon(o))
    print('stdout: %r\nstderr: %r\nsol: %r' % (r['out'][-400:], r['err'][-800:], (r['sol'] or '')[:400]))
    for sig, text in devs:
        print('DEVIATION %s: %s' % (sig, text))
        ck.add_violation(sig, text, {'case': case, 'observed': canon(o)}, found_input=True)
    print('files left in %s' % d)
    return ck.finish()

"""C03 — NL writer output is read back as the same model (text = binary)."""
import os, subprocess, json, re, sys, collections, shutil
from common import *

NZ_RE = re.compile(r'8000000000000000')
EXPECT_THEOREMS = 41


def nz(l):
    """forget the sign of zero (the property allows it)"""
    return NZ_RE.sub('0000000000000000', l)


def split_runs(path):
    """parse harness output into runs: dict(case, run, M(model lines so far), I, X)"""
    runs = []
    model_lines = []
    cur = None
    stats = []
    names = []
    codec = None
    for line in open(path, errors='replace'):
        line = line.rstrip('\n')
        if line.startswith('M '):
            body = line[2:]
            if body.startswith('case '):
                model_lines = [body]
                case = body.split()[1]
            elif body.startswith('run '):
                cur = {'case': case, 'run': body, 'model': list(model_lines), 'I': [], 'X': [], 'Icomment': []}
                runs.append(cur)
            else:
                model_lines.append(body)
        elif line.startswith('I # '):
            cur['Icomment'].append(line[4:])
        elif line.startswith('I '):
            cur['I'].append(line[2:])
        elif line.startswith('X '):
            cur['X'].append(line[2:])
        elif line.startswith('N '):
            names.append(line[2:])
        elif line.startswith('G '):
            codec = line[2:]
        elif line.startswith('T '):
            stats.append('boundary ' + line[2:])
        elif line.startswith('Z '):
            stats.append('inttext ' + line[2:])
        elif line.startswith('GB '):
            stats.append('codecbad ' + line[3:])
        elif line.startswith('# '):
            stats.append(line[2:])
    return runs, names, codec, stats


HEX16 = re.compile(r'[0-9a-f]{16}')


def dbl_fraction(bits):
    """exact value of a finite binary64 given by its bit pattern"""
    from fractions import Fraction
    neg, ex, man = bits >> 63, (bits >> 52) & 0x7ff, bits & ((1 << 52) - 1)
    v = Fraction(man, 1 << 1074) if ex == 0 else Fraction((1 << 52) + man) * Fraction(2) ** (ex - 1075)
    return -v if neg else v


def classify_codec_mismatch(xh, printed, yh):
    """exact (rational arithmetic): is this the known dtoa defect — the read-back double is the neighbour of x and the printed
    decimal lies at, or at most 1/64 ulp beyond, the rounding boundary (x + y)/2 on y's side?  Anything else is a different defect."""
    from fractions import Fraction
    try:
        xb, yb = int(xh, 16), int(yh, 16)
        if abs(xb - yb) != 1 or ((xb >> 52) & 0x7ff) == 0x7ff or ((yb >> 52) & 0x7ff) == 0x7ff or printed.endswith('+junk'):
            return 'codec:g_fmt-strtod-not-exact'
        x, y, t = dbl_fraction(xb), dbl_fraction(yb), Fraction(printed)
        mid, ulp = (x + y) / 2, abs(y - x)
        beyond = (t - mid) if y > x else (mid - t)       # >= 0: on y's side of the boundary
        if 0 <= beyond <= ulp / 64:
            # the known defect is at the UPPER boundary (|y| > |x|); the same thing at the lower boundary is a different defect
            return 'codec:boundary-tie-round-trip' if abs(y) > abs(x) else 'codec:lower-boundary-tie-round-trip'
    except Exception:
        pass
    return 'codec:g_fmt-strtod-not-exact'


def adjacent_doubles_only(a, b):
    """the two lines are identical except for doubles that differ by one unit in the last place"""
    if HEX16.sub('#', a) != HEX16.sub('#', b):
        return False
    ha, hb = HEX16.findall(a), HEX16.findall(b)
    d = [(x, y) for x, y in zip(ha, hb) if x != y]
    return bool(d) and all(abs(int(x, 16) - int(y, 16)) == 1 for x, y in d)


def classify(run, a, b):
    """signature of a difference between what the reader reported (a) and what was fed (b)"""
    if run['run'].split()[1] == '0' and a and b and adjacent_doubles_only(nz(a), nz(b)):
        return 'codec:boundary-tie-round-trip'
    ta = a.split()[0] if a else 'missing'
    tb = b.split()[0] if b else 'missing'
    fmt = 'text' if run['run'].split()[1] == '0' else 'binary'
    if ta == 'read-error' or ta == 'write-failed':
        if tb == 'sval' and b.split()[2] == '-2147483648' and fmt == 'text':
            return 'suffix:int-min-text'
        return '%s:%s' % (tb, ta)
    if ta == 'hdr' and tb == 'hdr':
        fa = dict(x.split('=', 1) for x in a.split()[1:])
        fb = dict(x.split('=', 1) for x in b.split()[1:])
        diff = [k for k in fb if fa.get(k) != fb[k]]
        if diff == ['vb']:
            return 'hdr:vbtol-one-digit'
        if diff == ['d']:
            da, db = fa['d'].split(','), fb['d'].split(',')
            idx = [i for i in range(len(db)) if da[i] != db[i]]
            # positions 19 = arith_kind, 20 = flags
            if set(idx) <= {19, 20} and db[19] == '0' and db[20] == '0' and fmt == 'text':
                return 'hdr:flags-default-when-arith-unknown'
            return 'hdr:field-%s' % '-'.join(map(str, idx))
        return 'hdr:' + '-'.join(sorted(diff))
    if ta == tb and ta in ('vb', 'cb'):
        pa, pb = a.split(), b.split()
        ok = True
        for x, y in zip(pa[2:], pb[2:]):
            if x != y and not ((y == 'ffefffffffffffff' and x == 'fff0000000000000') or (y == '7fefffffffffffff' and x == '7ff0000000000000')):
                ok = False
        if ok:
            return 'bounds:dblmax-read-as-infinity'
        return '%s:wrong-number' % ta
    if ta == tb:
        return '%s:differs' % ta
    return 'order:%s-instead-of-%s' % (ta, tb)


def first_diff(A, B):
    for i in range(max(len(A), len(B))):
        a = A[i] if i < len(A) else ''
        b = B[i] if i < len(B) else ''
        if a != b:
            return i, a, b
    return None


def reorder_bounds_first(X):
    """READ_BOUNDS_FIRST: the reader delivers the variable bounds right after the header"""
    vb = [l for l in X if l.startswith('vb ')]
    rest = [l for l in X if not l.startswith('vb ')]
    return rest[:1] + vb + rest[1:]


NLW2_SRC = ['nl-writer2/src/dtoa.cc', 'nl-writer2/src/nl-utils.cc', 'nl-writer2/src/nl-writer2.cc']


def generate_tables(ck):
    """what the CMake build does: compile the tree's src/gen-expr-info.cc and let it write expr-info.cc and nl-opcodes.h"""
    gdir = os.path.join(BUILD, 'gen', 'c03gen')
    os.makedirs(os.path.join(gdir, 'mp'), exist_ok=True)
    exe = ck.cxx('gen_expr_info', [os.path.join(REPO, 'src', f) for f in ('gen-expr-info.cc', 'format.cc', 'posix.cc')],
                 flags=['-O0', '-w', '-I' + os.path.join(REPO, 'src')])
    ei, oh = os.path.join(gdir, 'expr-info.cc'), os.path.join(gdir, 'mp', 'nl-opcodes.h')
    tmp_ei, tmp_oh = ei + '.new', oh + '.new'
    rc, out, err = sh([exe, tmp_ei, tmp_oh], timeout=120)
    if rc != 0:
        raise RuntimeError('gen-expr-info failed: ' + (out + err)[-500:])
    for t, f in ((tmp_ei, ei), (tmp_oh, oh)):
        if not os.path.exists(f) or open(f).read() != open(t).read():
            os.replace(t, f)
        else:
            os.remove(t)
    return gdir, ei, oh


def build_harness(ck, gdir, ei):
    fl = ('-O1', '-g')
    mp_src = [os.path.join(REPO, s) for s in ck.LIBMP_SRC if not s.endswith('expr-info.cc')] + [ei]
    objs = ck.objects(mp_src, flags=fl, tag='mp') + ck.objects([os.path.join(REPO, s) for s in NLW2_SRC], flags=fl, tag='nlw2')
    h = ck.objects([os.path.join(VERIF, 'harness', 'h_nlw2.cc')], flags=fl, extra_inc=[os.path.join(BUILD, 'gen'), gdir], tag='c03')
    return ck.link('h_nlw2', h + objs, flags=[])


PROBES = ('probe-intmin', 'probe-call0', 'probe-tie', 'probe-prec', 'probe-needobj', 'probe-nvars0')
ANCHOR_FILES = ['nl-writer2/include/mp/nl-writer2.h', 'nl-writer2/include/mp/nl-writer2.hpp', 'nl-writer2/src/nl-writer2.cc',
                'nl-writer2/src/dtoa.cc', 'nl-writer2/include/mp/nl-feeder.h', 'nl-writer2/include/mp/nl-opcodes.h',
                'nl-writer2/include/mp/nl-header.h', 'include/mp/nl-reader.h', 'src/nl-reader.cc', 'src/expr-info.cc',
                'src/gen-expr-info.cc', 'include/mp/common.h']
# functions named in anchors.mechanism (demangled-name substrings)
MECH_FUNCS = ['g_fmt', 'dtoa_r_dmgay', 'TextFormatter::apr', 'TextFormatter::nput', 'BinaryFormatter::apr', 'BinaryFormatter::nput',
              'WriteNLHeader', 'ReadHeader', 'ReadDouble', 'GenNLOpcodesFile', 'GenExprInfoFile', 'ExprInfoFileGenerator']


def coverage_run(ck):
    """VERIF_COVERAGE=1: gcov line/branch coverage of the anchored files under the quick-tier input stream.
    Writes design_notes/coverage/C03.md and design_notes/coverage/C03.json; not part of the normal tiers."""
    import common, glob as _glob, gzip
    cov_build = os.path.join(VERIF, 'build', 'cov_c03')
    shutil.rmtree(cov_build, ignore_errors=True)
    os.makedirs(cov_build)
    saved_build = common.BUILD
    common.BUILD = cov_build
    try:
        fl = ('-O0', '-g', '--coverage')
        gdir = os.path.join(cov_build, 'gen', 'c03gen')
        os.makedirs(os.path.join(gdir, 'mp'), exist_ok=True)
        os.makedirs(os.path.join(cov_build, 'bin'), exist_ok=True)
        # the table generator itself, with coverage
        gexe = os.path.join(cov_build, 'bin', 'gen_expr_info')
        gobj = os.path.join(cov_build, 'gen_expr_info_o')
        os.makedirs(gobj, exist_ok=True)
        rc, out, err = sh(['g++', '-std=c++17', '-O0', '-w', '--coverage', '-I' + os.path.join(REPO, 'include'), '-I' + os.path.join(REPO, 'src'),
                           os.path.join(REPO, 'src', 'gen-expr-info.cc'), os.path.join(REPO, 'src', 'format.cc'),
                           os.path.join(REPO, 'src', 'posix.cc'), '-o', gexe], cwd=gobj, timeout=600)
        if rc != 0:
            raise RuntimeError('coverage build of gen-expr-info failed: ' + err[-800:])
        ei, oh = os.path.join(gdir, 'expr-info.cc'), os.path.join(gdir, 'mp', 'nl-opcodes.h')
        sh([gexe, ei, oh], cwd=gobj, timeout=120)
        inc = os.path.join(cov_build, 'gen', 'c03_opcodes.inc')
        gen_lean = os.path.join(cov_build, 'OpcodesW.lean')
        sh([sys.executable, os.path.join(VERIF, 'translators', 'gen_opcodes_c03.py'), REPO, gen_lean, inc, oh, ei], timeout=300)
        mp_src = [os.path.join(REPO, s) for s in ck.LIBMP_SRC if not s.endswith('expr-info.cc')] + [ei]
        objs_mp = ck.objects(mp_src, flags=fl, tag='covmp')
        objs_w = ck.objects([os.path.join(REPO, s) for s in NLW2_SRC], flags=fl, tag='covnlw2')
        objs_h = ck.objects([os.path.join(VERIF, 'harness', 'h_nlw2.cc')], flags=fl, extra_inc=[os.path.join(cov_build, 'gen'), gdir], tag='covc03')
        exe = ck.link('h_nlw2_cov', objs_h + objs_mp + objs_w, flags=['--coverage'])
        scratch = os.path.join(cov_build, 'scratch')
        os.makedirs(scratch, exist_ok=True)
        with open(os.path.join(cov_build, 'impl.out'), 'w') as f:
            subprocess.run([exe, 'quick', str(ck.seed), scratch], stdout=f, stderr=subprocess.DEVNULL, timeout=3000)
        for pr in PROBES:
            subprocess.run([exe, 'quick', str(ck.seed), scratch, pr], stdout=subprocess.DEVNULL, stderr=subprocess.DEVNULL, timeout=600)
        # gcov (JSON) on the TUs that contain / instantiate the anchored code
        want = [o for o in objs_h + objs_w + objs_mp if any(k in os.path.basename(o) for k in ('h_nlw2', 'nl-writer2', 'dtoa', 'nl-reader', 'expr-info'))]
        files = {}       # path -> {'lines': {ln: count}, 'branches': {(ln, i): count}, 'funcs': {name: (start, end, count)}}

        def absorb(js):
            for fobj in js.get('files', []):
                path = os.path.realpath(os.path.join(js.get('current_working_directory', '.'), fobj['file']))
                rel = None
                for a in ANCHOR_FILES:
                    if path == os.path.realpath(os.path.join(REPO, a)) or (a.endswith('nl-header.h') and path == os.path.realpath(os.path.join(REPO, 'include/mp/nl-header.h'))) or (a.endswith('expr-info.cc') and not a.endswith('gen-expr-info.cc') and path == os.path.realpath(ei)) \
                            or (a.endswith('nl-opcodes.h') and path == os.path.realpath(oh)):
                        rel = a
                if rel is None:
                    continue
                d = files.setdefault(rel, {'lines': {}, 'branches': {}, 'funcs': {}})
                for ln in fobj.get('lines', []):
                    n = ln['line_number']
                    d['lines'][n] = d['lines'].get(n, 0) + ln.get('count', 0)
                    for i, b in enumerate(ln.get('branches', [])):
                        d['branches'][(n, i)] = d['branches'].get((n, i), 0) + b.get('count', 0)
                for fn in fobj.get('functions', []):
                    nm = fn.get('demangled_name') or fn.get('name')
                    key = (nm, fn.get('start_line'))
                    old = d['funcs'].get(key, (fn.get('start_line'), fn.get('end_line'), 0))
                    d['funcs'][key] = (fn.get('start_line'), fn.get('end_line'), old[2] + fn.get('execution_count', 0))
        for o in want:
            rc, out, err = sh(['gcov-12', '-b', '-c', '-j', '-t', '-m', o + '.gcda'], cwd=os.path.dirname(o), timeout=900)
            for doc in out.split('\n'):
                doc = doc.strip()
                if doc.startswith('{'):
                    try:
                        absorb(json.loads(doc))
                    except Exception:
                        pass
        rc, out, err = sh('gcov-12 -b -c -j -t -m gen_expr_info-gen-expr-info.gcda', cwd=os.path.join(cov_build, 'bin'), timeout=300)
        for doc in out.split('\n'):
            if doc.strip().startswith('{'):
                try:
                    absorb(json.loads(doc))
                except Exception:
                    pass
        # report
        rep = {'seed': ck.seed, 'tier_stream': 'quick', 'files': {}}
        md = ['# C03 — gcov coverage of the anchored files under the quick-tier stream (VERIF_COVERAGE=1, seed %d)' % ck.seed, '',
              '| file | lines | line cov | branches | branch cov |', '|---|---|---|---|---|']
        tl = tc = bl = bc = 0
        for a in ANCHOR_FILES:
            d = files.get(a)
            if not d:
                md.append('| %s | - | no executable lines / not compiled into the harness | - | - |' % a)
                rep['files'][a] = None
                continue
            nl, cl = len(d['lines']), sum(1 for v in d['lines'].values() if v > 0)
            nb, cb = len(d['branches']), sum(1 for v in d['branches'].values() if v > 0)
            tl += nl; tc += cl; bl += nb; bc += cb
            rep['files'][a] = {'lines': nl, 'lines_hit': cl, 'branches': nb, 'branches_hit': cb}
            md.append('| %s | %d | %.1f%% | %d | %s |' % (a, nl, 100.0 * cl / max(nl, 1), nb, ('%.1f%%' % (100.0 * cb / nb)) if nb else '-'))
        rep['anchor_line_cov'] = round(100.0 * tc / max(tl, 1), 1)
        rep['anchor_branch_cov'] = round(100.0 * bc / max(bl, 1), 1)
        md += ['', '**all anchored files: line %.1f%% (%d/%d), branch %.1f%% (%d/%d)**' % (rep['anchor_line_cov'], tc, tl, rep['anchor_branch_cov'], bc, bl), '']
        # mechanisms
        md += ['## functions named in anchors.mechanism', '', '| function | file | executed | uncovered lines | uncovered branches (line:idx) |', '|---|---|---|---|---|']
        rep['mechanism'] = {}
        for a, d in files.items():
            for (nm, st), (s0, e0, cnt) in sorted(d['funcs'].items(), key=lambda kv: (kv[1][0] or 0)):
                if not any(m in nm for m in MECH_FUNCS):
                    continue
                ul = sorted(n for n, v in d['lines'].items() if s0 <= n <= e0 and v == 0)
                ub = sorted('%d:%d' % k for k, v in d['branches'].items() if s0 <= k[0] <= e0 and v == 0)
                nbr = sum(1 for k in d['branches'] if s0 <= k[0] <= e0)
                nln = sum(1 for n in d['lines'] if s0 <= n <= e0)
                rep['mechanism']['%s @%s:%s' % (nm[:80], a, s0)] = {'executed': cnt, 'lines': nln, 'uncovered_lines': ul, 'branches': nbr, 'uncovered_branches': len(ub)}
                md.append('| `%s` | %s:%s | %d | %d of %d: %s | %d of %d: %s |' % (nm[:90].replace('|', '\\|'), os.path.basename(a), s0, cnt, len(ul), nln,
                                                                        ' '.join(map(str, ul[:60])) + (' …' if len(ul) > 60 else ''), len(ub), nbr, ' '.join(ub[:40]) + (' …' if len(ub) > 40 else '')))
        md += ['', '## functions never executed (anchored files)', '']
        rep['never_executed'] = {}
        for a, d in files.items():
            never = sorted({nm for (nm, st), (s0, e0, cnt) in d['funcs'].items() if cnt == 0 and
                            not any(c2 > 0 for (n2, s2), (_, _, c2) in d['funcs'].items() if n2 == nm)})
            rep['never_executed'][a] = never
            md.append('* **%s** (%d): %s' % (a, len(never), '; '.join('`%s`' % n[:100] for n in never[:200])))
        os.makedirs(os.path.join(VERIF, 'design_notes', 'coverage'), exist_ok=True)
        open(os.path.join(VERIF, 'design_notes', 'coverage', 'C03.measured.md'), 'w').write('\n'.join(md) + '\n')
        json.dump(rep, open(os.path.join(VERIF, 'design_notes', 'coverage', 'C03.json'), 'w'), indent=1)
        ck.log('coverage: anchored files line %.1f%% branch %.1f%% -> design_notes/coverage/C03.measured.md' % (rep['anchor_line_cov'], rep['anchor_branch_cov']))
        ck.cov.update({'evaluations': 0, 'distinct_nontrivial': 0, 'rule': 'coverage measurement run', 'obligations': 0, 'discharged': 0,
                       'checker_cmd': 'VERIF_COVERAGE=1 ./check C03'})
        ck.sample('coverage run')
    finally:
        common.BUILD = saved_build


def run(ck):
    if os.environ.get('VERIF_COVERAGE') == '1':
        return coverage_run(ck)
    gen = os.path.join(LEAN, 'MpVerif', 'Gen', 'OpcodesW.lean')
    inc = os.path.join(BUILD, 'gen', 'c03_opcodes.inc')
    stale = []
    try:
        gdir, ei, oh = generate_tables(ck)
        for tracked, g, what in ((os.path.join(REPO, 'src', 'expr-info.cc'), ei, 'src/expr-info.cc (reader table)'),
                                 (os.path.join(REPO, 'nl-writer2', 'include', 'mp', 'nl-opcodes.h'), oh, 'nl-opcodes.h (writer table)')):
            if os.path.exists(tracked) and open(tracked).read() != open(g).read():
                stale.append((what, tracked))
        rc, out, err = sh([sys.executable, os.path.join(VERIF, 'translators', 'gen_opcodes_c03.py'), REPO, gen, inc, oh, ei], timeout=300)
    except RuntimeError as e:
        rc, out, err = 2, '', str(e)
        gdir = ei = None
    ck.log((out.strip() or err.strip())[-400:])
    translator_ok = rc == 0
    if translator_ok:
        rc, out, err = sh([sys.executable, os.path.join(VERIF, 'translators', 'gen_writer_c03.py'), REPO,
                           os.path.join(LEAN, 'MpVerif', 'Gen', 'C03Writer.lean'), os.path.join(BUILD, 'tr_c03')], timeout=300)
        ck.log((out.strip() or err.strip())[-400:])
        translator_ok = rc == 0
    proof_ok, failing = False, []
    if translator_ok:
        proof_ok, failing = ck.proof_stage('MpVerif.C03.Props', 'MpVerif/C03/Props.lean', 'C03_',
                                            ['MpVerif/C03/*.lean', 'MpVerif/Gen/OpcodesW.lean', 'MpVerif/Gen/C03Writer.lean'], expect_min=EXPECT_THEOREMS)
        ck.log('proof stage: ok=%s failing=%s' % (proof_ok, failing[:8]))
        if ck.tier == 'thorough' and proof_ok:
            bad = ck.leanchecker(['MpVerif.C03.Props'])
            if bad:
                failing += ['leanchecker rejected %s' % m for m in bad]
                proof_ok = False
    else:
        failing = ['translator: ' + (out + err).strip()[-400:]]
        ck.cov.update({'obligations': EXPECT_THEOREMS, 'discharged': 0, 'checker_cmd': 'translators/gen_opcodes_c03.py / gen_writer_c03.py failed'})

    # ------------------------------------------------------------ implementation run
    try:
        if ei is None:
            raise RuntimeError('table generator (src/gen-expr-info.cc) does not build/run')
        exe = build_harness(ck, gdir, ei)
    except RuntimeError as e:
        ck.add_violation('harness:does-not-build', 'the harness no longer compiles/links against the tree (writer opcode constant without '
                         'reader expression kind, or an interface change): %s' % str(e)[-1500:], {'error': str(e)[-3000:]}, found_input=False)
        return
    scratch = os.path.join(BUILD, 'c03.scratch.%d' % os.getpid())
    os.makedirs(scratch, exist_ok=True)
    outp = os.path.join(BUILD, 'c03.impl.out')
    try:
        with open(outp, 'w') as f:
            p = subprocess.run([exe, ck.tier, str(ck.seed), scratch], stdout=f, stderr=subprocess.PIPE, text=True, timeout=3000)
        main_rc, main_err = p.returncode, p.stderr[-2000:]
        probes = {}
        for pr in PROBES:
            po = os.path.join(BUILD, 'c03.%s.out' % pr)
            with open(po, 'w') as f:
                q = subprocess.run([exe, ck.tier, str(ck.seed), scratch, pr], stdout=f, stderr=subprocess.PIPE, text=True, timeout=600)
            probes[pr] = (q.returncode, q.stderr[-1500:], po)
    finally:
        shutil.rmtree(scratch, ignore_errors=True)
    runs, names, codec, stats = split_runs(outp)
    if main_rc != 0:
        last = runs[-1] if runs else None
        ck.add_violation('harness:aborted', 'writer/reader aborted (rc=%d) while processing a generated model: %s' % (main_rc, main_err[-600:]),
                         {'stderr': main_err, 'last_run': last and last['run'], 'model': last and last['model'],
                          'cmd': '%s %s %d <dir>' % (exe, ck.tier, ck.seed)})

    for what, tracked in stale:
        ck.add_violation('tables:copy-in-tree-differs-from-generator', 'the copy of %s in the tree differs from what the tree\'s own '
                         'src/gen-expr-info.cc generates (writer and reader would use different opcode tables outside a CMake build)' % what,
                         {'file': tracked, 'how': 'build src/gen-expr-info.cc, run it, diff'}, found_input=False)
    # cross-check of the translator against the compiled tables ("# op NAME code=.. kind=..")
    compiled = {}
    for s in stats:
        m = re.match(r'op (\w+) code=(-?\d+) kind=(\d+)', s)
        if m:
            compiled[m.group(1)] = (int(m.group(2)), int(m.group(3)))
    gen_txt = open(gen).read() if os.path.exists(gen) else ''
    kv = {m.group(1): int(m.group(2)) for m in re.finditer(r'def kv_(\w+) : Nat := (\d+)', gen_txt)}
    generated = {m.group(1): (int(m.group(2)), kv.get(m.group(3), -1)) for m in re.finditer(r'\("(\w+)", (\d+), kv_(\w+), ', gen_txt)}
    if translator_ok and compiled != generated:
        d = [k for k in set(compiled) | set(generated) if compiled.get(k) != generated.get(k)]
        ck.add_violation('translator:table-differs', 'generated opcode table differs from the compiled one for %s' % d[:5],
                         {'compiled': {k: compiled.get(k) for k in d}, 'generated': {k: generated.get(k) for k in d}}, found_input=False)

    # ------------------------------------------------------------ model run
    model = None
    if translator_ok:
        try:
            drv = ck.driver('drv_c03')
            ops = os.path.join(BUILD, 'c03.ops.txt')
            with open(ops, 'w') as f:
                for line in open(outp, errors='replace'):
                    if line.startswith('M '):
                        f.write(line[2:])
            mo = os.path.join(BUILD, 'c03.model.out')
            with open(ops) as fi, open(mo, 'w') as fo:
                subprocess.run([drv], stdin=fi, stdout=fo, check=True, timeout=3000)
            model = []
            cur = None
            model_arms = {}
            gints = []
            for line in open(mo, errors='replace'):
                line = line.rstrip('\n')
                if line.startswith('#gint '):
                    gints.append(line[6:])
                    continue
                if line.startswith('#stat '):
                    k_, v_ = line[6:].rsplit(' ', 1)
                    model_arms[k_] = int(v_)
                    continue
                if line.startswith('== '):
                    cur = {'head': line, 'L': [], 'agree': None}
                    model.append(cur)
                elif line.startswith('spec-agree'):
                    cur['agree'] = line.split()[1]
                elif cur is not None:
                    cur['L'].append(line)
        except Exception as e:
            failing.append('model driver: %r' % (e,))
            proof_ok = False
            model = None

    # ------------------------------------------------------------ compare
    n_runs = len(runs)
    oracle_bad = collections.OrderedDict()     # sig -> list of (run, idx, got, fed)
    corr_bad = collections.OrderedDict()
    selfcheck_bad = []
    tb_pairs = {}                                # (case, comments, bf, cs, rf) -> {fmt: I}
    hist = collections.Counter()
    n_lines = 0
    n_quirk = 0
    n_not_wf = 0
    for k, r in enumerate(runs):
        a = r['run'].split()
        fmt, c, bf, cs, rf = a[1], a[2], a[3], a[4], a[5]
        hist['fmt=%s' % fmt] += 1; hist['comments=%s' % c] += 1; hist['bounds_first=%s' % bf] += 1
        hist['colsizes=%s' % cs] += 1; hist['reader_flags=%s' % rf] += 1
        I = r['I']; X = r['X']
        n_lines += len(I)
        for l in I:
            hist['ev:' + l.split()[0]] += 1
        if k % 397 == 0:
            ck.sample({'run(fmt comments bounds_first colsizes reader_flags vb)': r['run'], 'model_lines': r['model'][:8], 'reader_events': I[:8]})
        Xc = reorder_bounds_first(X) if rf == '1' else X
        d = first_diff([nz(l) for l in I], [nz(l) for l in Xc])
        if d:
            i, got, fed = d
            sig = classify(r, got, fed)
            oracle_bad.setdefault(sig, []).append((r, i, got, fed))
        # text vs binary: identical apart from the format fields of the header and the sign of zero
        key = (r['case'], c, bf, cs, rf)
        canon = [nz(l) for l in I]
        if canon and canon[0].startswith('hdr '):
            h = canon[0].split()
            dd = h[5].split(',')
            dd[19] = '-'
            canon[0] = ' '.join(['hdr', 'fmt=-'] + h[2:5] + [','.join(dd)] + h[6:])
        tb_pairs.setdefault(key, {})[fmt] = (canon, r)
        # correspondence with the Lean model
        if model is not None and k < len(model):
            mrun = model[k]
            if 'wf=false' in mrun['head']:
                n_not_wf += 1
            if 'quirkfree=false' in mrun['head']:
                n_quirk += 1
            dm = first_diff(I, mrun['L'])
            if dm and d and classify(r, d[1], d[2]) == 'codec:boundary-tie-round-trip' and adjacent_doubles_only(nz(dm[1]), nz(dm[2])):
                dm = None     # the model runs with the exact-codec hypothesis; this run falsifies the hypothesis, reported by the oracle
            if dm:
                corr_bad.setdefault('line:' + (dm[1].split() or ['?'])[0], []).append((r, dm, mrun['head']))
            if mrun['agree'] == 'false' and 'wf=true' in mrun['head']:
                selfcheck_bad.append((r, mrun['head']))
    tb_bad = []
    n_tb = 0
    for key, d in tb_pairs.items():
        if '0' in d and '1' in d:
            n_tb += 1
            if d['0'][0] != d['1'][0]:
                dd = first_diff(d['0'][0], d['1'][0])
                # a run that already failed the oracle in one format is reported there
                tb_bad.append((d['0'][1], d['1'][1], dd))
    names_bad = [n for n in names if 'DIFFERENT' in n]

    # coverage
    opused = {m.group(1): int(m.group(2)) for s in stats for m in [re.match(r'opused (\w+) (\d+)', s)] if m}
    dblclass = {m.group(1): int(m.group(2)) for s in stats for m in [re.match(r'dblclass (\d+) (\d+)', s)] if m}
    tot = next((s for s in stats if s.startswith('models=')), '')
    mm = re.match(r'models=(\d+) runs=(\d+) expr_nodes=(\d+)', tot)
    n_models = int(mm.group(1)) if mm else 0
    ck.cov['evaluations'] = n_runs
    ck.cov['traces_validated_against_impl'] = n_runs if model is not None else 0
    ck.cov['distinct_nontrivial'] = n_runs
    ck.cov['rule'] = ('one evaluation = one generated feeder model written by the real mp::WriteNLFile with one (format, comments, '
                      'bounds order, column-size mode) choice and read back by the real mp::ReadNLFile; every run is a distinct '
                      '(model, options, reader flag) triple')
    ck.cov['models'] = n_models
    ck.cov['events_compared'] = n_lines
    ck.cov['text_binary_pairs_compared'] = n_tb
    ck.cov['exhaustive'] = False
    ck.cov['generator_histogram'] = dict(hist)
    ck.cov['opcodes_fed'] = opused
    ck.cov['opcodes_never_fed'] = sorted(k for k, v in opused.items() if v == 0)
    ck.cov['double_classes'] = dblclass
    ck.cov['runs_touching_known_quirks'] = n_quirk
    ck.cov['runs_outside_feeder_contract'] = n_not_wf
    ck.cov['names_files_checked'] = len(names)
    ck.cov['number_codec_TEST_not_proof'] = codec
    if model is not None:
        expected_arms = ['tok:ch:%s' % c for c in 'CLOVFGJSrKkxdnslovfhg'] + ['tok:ch:b(fmt)', 'tok:ch:b(seg)'] + \
            ['tok:bound-type:%d' % i for i in range(6)] + ['tok:short', 'tok:long', 'tok:dbl', 'tok:int', 'tok:name', 'tok:hollerith', 'tok:vbtol',
             'tok:comment', 'tok:eol', 'he:null'] + \
            ['he:' + t for t in ('n', 'v', 'ce', 's', 'b', 'u', 'bin', 'if', 'ifs', 'not', 'bl', 'rel', 'lc', 'impl', 'pl', 'call', 'va', 'sum', 'cnt', 'nof', 'nofs', 'il', 'pw')] + \
            ['ev:' + t for t in ('header', 'func', 'isuf', 'dsuf', 'svalI', 'svalD', 'vb', 'cb', 'compl', 'x0', 'd0', 'cbeg', 'cterm', 'cend', 'acon', 'lcon',
                                 'obj', 'csz', 'cadd', 'jbeg', 'jterm', 'gbeg', 'gterm', 'end')] + \
            ['hdr:nlc=0', 'hdr:nlc>0', 'hdr:ncc=0', 'hdr:ncc>0', 'hdr:nopts<2', 'hdr:nopts>=2', 'hdr:flags1:arith1', 'hdr:flags0:arith0', 'hdr:flags1:arith0',
             'opt:binary=true', 'opt:binary=false', 'opt:comments=true', 'opt:comments=false', 'opt:boundsFirst=true', 'opt:boundsFirst=false',
             'opt:colSizes=0', 'opt:colSizes=1', 'opt:colSizes=2', 'reader:flags=0', 'reader:flags=1', 'model:wf=true', 'model:wf=false']
        ck.cov['model_arms_exercised'] = model_arms
        ck.cov['model_arms_never_taken'] = [a for a in expected_arms if model_arms.get(a, 0) == 0]
    try:
        cj = json.load(open(os.path.join(VERIF, 'design_notes', 'coverage', 'C03.json')))
        ck.cov['anchor_line_cov'] = cj['anchor_line_cov']
        ck.cov['anchor_branch_cov'] = cj['anchor_branch_cov']
        ck.cov['anchor_cov_note'] = 'gcov of the 12 anchored files under the quick-tier stream, measured by the last VERIF_COVERAGE=1 run (design_notes/coverage/C03.md); not recomputed here'
    except Exception:
        pass
    ck.cov['correspondence'] = {'runs_compared_model_vs_impl': n_runs if model is not None else 0,
                                'disagreements': sum(len(v) for v in corr_bad.values())}
    ck.log('runs=%d models=%d events=%d text/binary pairs=%d quirk-runs=%d codec[%s]' % (n_runs, n_models, n_lines, n_tb, n_quirk, codec))
    if opused and ck.cov['opcodes_never_fed']:
        ck.notes.append('opcodes never fed in this run: %s' % ck.cov['opcodes_never_fed'])

    # ------------------------------------------------------------ verdicts
    def replay_obj(r, extra=None):
        o = {'model_lines': r['model'], 'run(fmt comments bounds_first colsizes reader_flags vb)': r['run'],
             'how': 'feed the model lines + the run line to build/bin/h_nlw2 (harness/h_nlw2.cc regenerates the same model from '
                    'VERIF_SEED=%d tier=%s), or rebuild the model by hand from the lines: they are the feeder calls' % (ck.seed, ck.tier)}
        if extra:
            o.update(extra)
        return o
    for sig, lst in oracle_bad.items():
        r, i, got, fed = lst[0]
        ck.add_violation(sig, 'model fed to WriteNLFile and read back by ReadNLFile differs at event %d: fed "%s", reader reported "%s" '
                         '(%d such runs; %s)' % (i, fed[:200], got[:200], len(lst), '; '.join(r['Icomment'])[:200]),
                         replay_obj(r, {'event_index': i, 'fed': fed, 'reported': got, 'runs_affected': len(lst)}))
    for r0, r1, dd in tb_bad:
        sig0 = [s for s, l in oracle_bad.items() if any(x[0] is r0 or x[0] is r1 for x in l)]
        if sig0:
            continue   # already reported through the oracle for one of the two formats
        ck.add_violation('text-vs-binary:differs', 'the same model written as text and as binary is reported differently: %s' % (dd,),
                         replay_obj(r0, {'first_difference(index, text, binary)': dd}))
    for n in names_bad:
        ck.add_violation('names:differ', 'names file written by the writer is read back differently: %s' % n, {'line': n})
    # integer-valued doubles in text: the real g_fmt text vs the Lean model gfmtInt (the tie of C03_int_text_roundtrip)
    zl = [s_[len('inttext '):] for s_ in stats if s_.startswith('inttext ')]
    if model is not None:
        ck.cov['int_text_compared'] = len(zl)
        if len(zl) != len(gints):
            ck.add_violation('inttext:driver-count', 'driver answered %d of %d gint ops' % (len(gints), len(zl)), {}, found_input=False)
        for a_, b_ in zip(zl, gints):
            if a_ != b_:
                ck.add_violation('inttext:model-differs', 'g_fmt prints "%s" for this integer, the Lean model gfmtInt predicts "%s"' % (a_, b_),
                                 {'impl(v text)': a_, 'model(v text)': b_}, found_input=False)
                break
    # constructed boundary cases of the number codec
    bline = next((s for s in stats if s.startswith('boundary ')), None)
    ck.cov['number_codec_boundary_TEST_not_proof'] = bline
    # every reported codec mismatch (random and constructed stream) is classified exactly
    by_sig = collections.OrderedDict()
    for s_ in stats:
        if s_.startswith('codecbad '):
            f = s_.split()
            if len(f) >= 5:
                by_sig.setdefault(classify_codec_mismatch(f[2], f[3], f[4]), []).append((f[1], f[2], f[3], f[4]))
    n_reported = sum(len(v) for v in by_sig.values())
    n_bad_total = 0
    for ln in (codec, bline and bline[len('boundary '):]):
        mm_ = re.search(r'bad=(\d+)', ln or '')
        n_bad_total += int(mm_.group(1)) if mm_ else 0
    nonadj = re.search(r'nonadjacent=(\d+)', bline or '')
    ck.cov['codec_mismatches'] = {'total': n_bad_total, 'classified_exactly': n_reported, 'by_signature': {k: len(v) for k, v in by_sig.items()}}
    for sig, lst in by_sig.items():
        stream, xh, printed, yh = lst[0]
        ck.add_violation(sig, ('g_fmt prints a decimal on/just beyond the rounding boundary of x and strtod reads back the neighbouring double'
                               if sig == 'codec:boundary-tie-round-trip' else 'g_fmt -> strtod does not return the same double')
                         + ': x=%s printed "%s" read back %s (%d such cases, first from the %s stream; %d mismatches in %s)' %
                         (xh, printed, yh, len(lst), stream, n_bad_total, (codec or '') + ' | ' + (bline or '')),
                         {'double_bits': xh, 'printed': printed, 'read_back_bits': yh, 'stream': stream, 'more': lst[1:6],
                          'fixed_example': '4611686018999999488 (43d0000000088857) -> "4.611686019e+18" -> 4611686019000000512 (43d0000000088858)',
                          'how': 'DAVID_GAY_GFMT::g_fmt(buf, x, 0) then strtod(buf); or h_nlw2 quick 1 <dir> probe-tie (whole file through WriteNLFile/ReadNLFile)'})
    if n_reported < n_bad_total and nonadj and int(nonadj.group(1)) > 0:
        ck.add_violation('codec:g_fmt-strtod-not-exact', '%s codec mismatches beyond the %d classified ones are not one-ulp neighbours' %
                         (nonadj.group(1), n_reported), {'boundary_line': bline}, found_input=False)
    rcp, errp, po = probes['probe-tie']
    pruns, _, _, _ = split_runs(po)
    for r in pruns:
        d = first_diff([nz(l) for l in r['I']], [nz(l) for l in r['X']])
        if d:
            ck.add_violation(classify(r, d[1], d[2]), 'the double 4611686018999999488 written by WriteNLFile (text) is read back as '
                             '4611686019000000512: fed "%s", reader reported "%s"' % (d[2], d[1]), replay_obj(r, {'probe': 'probe-tie'}))
    if rcp != 0:
        ck.add_violation('codec:probe-tie-abort', 'probe-tie aborted: %s' % errp[-400:], {'stderr': errp})
    # oracle-only families (own processes): OutputPrecision p, handler with NeedObj filter, model without variables
    for pr, what in (('probe-prec', 'OutputPrecision()=p: reader must report the correctly rounded p-digit value (libc reference)'),
                     ('probe-needobj', 'handler that needs one objective only: skipped objectives must vanish, everything else unchanged')):
        rcp, errp, po = probes[pr]
        pruns, _, _, _ = split_runs(po)
        ck.cov[pr.replace('-', '_') + '_runs'] = len(pruns)
        nb = 0
        for r in pruns:
            X = reorder_bounds_first(r['X']) if r['run'].split()[5] == '1' else r['X']
            d = first_diff([nz(l) for l in r['I']], [nz(l) for l in X])
            if d:
                nb += 1
                ck.add_violation('%s:%s' % (pr[6:], classify(r, d[1], d[2])), '%s: fed "%s", reader reported "%s" (%s)' %
                                 (what, d[2][:160], d[1][:160], '; '.join(r['Icomment'])[:160]), replay_obj(r, {'probe': pr}))
        if rcp != 0 or not pruns:
            ck.add_violation('%s:aborted' % pr[6:], '%s aborted or produced nothing: %s' % (pr, errp[-300:]), {'stderr': errp})
    rcp, errp, po = probes['probe-nvars0']
    txt = open(po, errors='replace').read()
    if '# nvars0 result=2 file=absent' not in txt:
        ck.add_violation('nvars0:unexpected', 'a model without variables must make WriteNLFile remove the file and report NLW2_WriteNL_CantOpen; got: %s' %
                         (re.findall(r'# nvars0.*', txt) or [errp[-200:]])[0], {'probe': 'probe-nvars0'})
    # probes (each in its own process)
    rcp, errp, po = probes['probe-intmin']
    pruns, _, _, _ = split_runs(po)
    for r in pruns:
        d = first_diff([nz(l) for l in r['I']], [nz(l) for l in r['X']])
        if d:
            sig = classify(r, d[1], d[2])
            ck.add_violation(sig, 'regression of f881e91: an int suffix value INT_MIN cannot be read back: fed "%s", reader reported "%s" (%s)' %
                             (d[2], d[1], '; '.join(r['Icomment'])[:200]), replay_obj(r, {'probe': 'probe-intmin'}))
    if rcp != 0:
        ck.add_violation('suffix:int-min-abort', 'probe-intmin aborted: %s' % errp[-400:], {'stderr': errp})
    rcp, errp, po = probes['probe-call0']
    if rcp != 0:
        if 'nargs_>0' in errp:
            pr, _, _, _ = split_runs(po)
            ck.add_violation('call:zero-args-assert', 'FuncPut(index, 0 arguments) aborts the writer: %s' % errp.strip()[-300:],
                             {'probe': 'probe-call0', 'stderr': errp, 'model_lines': pr[0]['model'] if pr else None,
                              'how': 'h_nlw2 quick 1 <dir> probe-call0'})
        else:
            ck.add_violation('call:zero-args-abort', 'probe-call0 aborted: %s' % errp[-400:], {'stderr': errp})
    else:
        pr, _, _, _ = split_runs(po)
        for r in pr:
            d = first_diff([nz(l) for l in r['I']], [nz(l) for l in r['X']])
            if d:
                ck.add_violation('call:zero-args-differs', 'call without arguments read back differently: %s' % (d,), replay_obj(r))
    # correspondence
    for sig, lst in corr_bad.items():
        r, dm, head = lst[0]
        already = any(any(x[0] is r for x in l) for l in oracle_bad.values())
        ck.add_violation('model-differs:' + sig, 'the Lean model of writer+reader predicts "%s" but the real code reported "%s" at event %d '
                         '(%d runs)%s' % (dm[2][:160], dm[1][:160], dm[0], len(lst),
                                          '' if already else ' — the real code still returns what was fed, so the model has drifted from the code'),
                         replay_obj(r, {'driver_head': head, 'first_difference(index, impl, model)': dm, 'correspondence': 'drv_c03 vs h_nlw2'}),
                         found_input=False)
    for r, head in selfcheck_bad[:1]:
        ck.add_violation('model-selfcheck', 'readTokens (writeNL m o) ≠ events m o for a well-formed model: contradicts C03_roundtrip',
                         replay_obj(r, {'driver_head': head}), found_input=False)
    if not proof_ok:
        for fdecl in failing:
            if ck.violations and any(v['found_input'] for v in ck.violations):
                # a failing input has been found by the run above; still name the broken obligation
                pass
            ck.add_violation('obligation:%s' % fdecl.split(' ')[0][:60], 'proof obligation no longer checks: %s' % fdecl,
                             {'theorem': fdecl, 'module': 'MpVerif.C03.Props',
                              'searched': '%d write/read runs of the real code; oracle differences: %s' % (n_runs, list(oracle_bad)[:6])},
                             found_input=False)
    ck.level = 'proof'
    ck.assumptions += [
        'number codec (TESTED, not proved, and KNOWN TO FAIL at rounding-boundary cases, open finding codec:boundary-tie-round-trip): '
        'strtod(g_fmt(x)) == x bit for bit except -0 -> +0; random stream %s; constructed boundary stream %s' % (codec or 'n/a', bline or 'n/a'),
        'token-level model: one token = one %-item of an apr() format = one Read* call; the byte-level text lexer '
        '(decimal integers, names, Hollerith strings, comments) is validated by the correspondence only',
        'feeder contract = wellFormed (ModelSpec.lean): header counts = sizes of what is fed, indices in range, NL expression grammar, '
        'no SNL2006 random-variable extensions (the reader has no support for them), binary format with the native arith kind',
        'OutputPrecision() = 0 (full precision); other values round by design and are outside the property',
    ]
    ck.cov['trusted_base'] += ['translators/gen_opcodes_c03.py (regex extraction of three tables; cross-checked on every run against the '
                               'values the compiled harness prints)',
                               'hand model of NLWriter2::WriteNL / NLReader::Read over tokens (MpVerif/C03/Model*.lean), tied by the '
                               'correspondence on every run']

"""Build and run the recording driver (harness/recsolver) against the current repo tree."""
import os, json, subprocess, tempfile, shutil
from fractions import Fraction as F
from common import *

RDIR = os.path.join(VERIF, 'harness', 'recsolver')


def build(ck, flags=('-O1', '-g'), name='recsolver'):
    """returns path of the recsolver executable built from $MP_REPO working tree (cached by content)"""
    srcs = [os.path.join(RDIR, f) for f in ['recmain.cc', 'recmodelmgr.cc', 'recmodelapi.cc', 'recbackend.cc']]
    objs = ck.objects(srcs, flags=flags, extra_inc=[RDIR], tag='rec')
    san = [f for f in flags if f.startswith('-fsanitize')]
    return ck.link(name, objs + ck.libmp_objects(flags=flags), flags=san)


def num(s):
    """decode recjson number string -> Fraction | float('inf') | float('-inf') | None(nan)"""
    if s == 'inf':
        return float('inf')
    if s == '-inf':
        return float('-inf')
    if s == 'nan':
        return None
    if '*2^' in s:
        m, e = s.split('*2^')
        e = int(e)
        return F(int(m)) * (F(2) ** e)
    return F(int(s))


def write_script(path, code=0, msg='scripted', x=None, pi=None, piq=None, obj=None, varstt=None, constt=None,
                 iisvar=None, iiscon=None, throw=0, iiscong=None, extra=None):
    L = ['code %d' % code, 'msg %s' % msg]

    def fl(v):
        return ' '.join(repr(float(t)) if not isinstance(t, str) else t for t in v)
    if x is not None:
        L.append('x ' + fl(x))
    if pi is not None:
        L.append('pi ' + fl(pi))
    if piq is not None:
        L.append('piq ' + fl(piq))
    if obj is not None:
        L.append('obj ' + fl(obj))
    for k, v in (('varstt', varstt), ('constt', constt), ('iisvar', iisvar), ('iiscon', iiscon)):
        if v is not None:
            L.append(k + ' ' + ' '.join(str(int(t)) for t in v))
    for g, v in (iiscong or {}).items():
        L.append('iiscong %d ' % int(g) + ' '.join(str(int(t)) for t in v))
    for k, v in (extra or {}).items():        # sens_<field>, ray, dray: double vectors
        L.append(k + ' ' + fl(v))
    if throw:
        L.append('throw %d' % throw)
    open(path, 'w').write('\n'.join(L) + '\n')


def run(exe, stub, options=(), accept=None, script=None, graph=False, env=None, timeout=60, ampl_flag=True, quadobj=None):
    """run recsolver on <stub>.nl; returns dict(rc, out, err, log=[events], sol=text|None, graph=[records]|None)"""
    logf = stub + '.reclog'
    for f in (logf, stub + '.sol', stub + '.graph'):
        if os.path.exists(f):
            os.remove(f)
    e = dict(os.environ)
    e['RECSOLVER_LOG'] = logf
    if accept is not None:
        e['RECSOLVER_ACCEPT'] = accept if isinstance(accept, str) else ','.join(accept)
    if quadobj is not None:
        e['RECSOLVER_QUADOBJ'] = str(quadobj)
    if script:
        e['RECSOLVER_SCRIPT'] = script
    e.setdefault('ASAN_OPTIONS', 'detect_leaks=0')
    if env:
        e.update(env)
    args = [exe, stub] + (['-AMPL'] if ampl_flag else []) + list(options)
    if graph:
        args.append('cvt:writegraph=' + stub + '.graph')
    try:
        p = subprocess.run(args, capture_output=True, text=True, timeout=timeout, env=e, errors='replace')
        rc, out, err = p.returncode, p.stdout, p.stderr
    except subprocess.TimeoutExpired as t:
        rc, out, err = 'timeout', (t.stdout or b'').decode(errors='replace') if isinstance(t.stdout, bytes) else (t.stdout or ''), 'TIMEOUT'
    log = []
    if os.path.exists(logf):
        for l in open(logf, errors='replace'):
            l = l.strip()
            if l:
                try:
                    log.append(json.loads(l))
                except Exception:
                    log.append({'ev': 'unparsable', 'line': l})
    sol = open(stub + '.sol', errors='replace').read() if os.path.exists(stub + '.sol') else None
    g = None
    if graph and os.path.exists(stub + '.graph'):
        g = [l.rstrip('\n') for l in open(stub + '.graph', errors='replace')]
    return {'rc': rc, 'out': out, 'err': err, 'log': log, 'sol': sol, 'graph': g}


def parse_sol(text):
    """minimal reader of the text .sol written by mp::WriteSolFile (independent of the library's reader).
    returns dict(message, options, ncons, nduals, nvars, nprimals, dual[], primal[], objno, code, suffixes[])"""
    lines = text.split('\n')
    i = 0
    msg = []
    while i < len(lines) and lines[i].strip() != 'Options':
        msg.append(lines[i])
        i += 1
    if i >= len(lines):
        return None
    i += 1
    nopt = int(lines[i]); i += 1
    opts = []
    for _ in range(nopt):
        opts.append(lines[i]); i += 1
    ncons = int(lines[i]); nduals = int(lines[i + 1]); nvars = int(lines[i + 2]); nprimals = int(lines[i + 3]); i += 4
    dual = [lines[i + k] for k in range(nduals)]; i += nduals
    primal = [lines[i + k] for k in range(nprimals)]; i += nprimals
    objno = code = None
    suffixes = []
    while i < len(lines):
        l = lines[i].strip()
        if l.startswith('objno'):
            p = l.split()
            objno, code = int(p[1]), int(p[2])
            i += 1
        elif l.startswith('suffix'):
            p = l.split()
            kind, n, namelen, tablen, tablines = int(p[1]), int(p[2]), int(p[3]), int(p[4]), int(p[5])
            name = lines[i + 1]
            i += 2
            i += tablines
            vals = {}
            for _ in range(n):
                a = lines[i].split(); i += 1
                vals[int(a[0])] = a[1]
            suffixes.append({'kind': kind, 'name': name, 'vals': vals})
        else:
            i += 1
    return {'message': '\n'.join(msg), 'options': opts, 'ncons': ncons, 'nduals': nduals, 'nvars': nvars,
            'nprimals': nprimals, 'dual': dual, 'primal': primal, 'objno': objno, 'code': code, 'suffixes': suffixes}

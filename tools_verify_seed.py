#!/usr/bin/env python3
"""Confirm a seeded change myself: tools_verify_seed.py <seed-id> <repo-worktree-with-_build>
 clean tree: build, demo must pass (exit 0); patched tree: build, demo must fail (exit != 0),
 per-case gtest results must equal the baseline stable_pass set. Writes seeded/<id>/verified.json"""
import json, os, subprocess, sys, time
V = os.path.dirname(os.path.abspath(__file__))
sid, wt = sys.argv[1], sys.argv[2]
d = os.path.join(V, 'seeded', sid)
def sh(cmd, **kw):
    return subprocess.run(cmd, shell=True, capture_output=True, text=True, **kw)
res = {'seed': sid, 'worktree': wt, 'repo_head': sh('git -C %s rev-parse --short HEAD' % wt).stdout.strip()}
sh('git -C %s checkout -- .' % wt)
b = sh('cmake --build %s/_build -j8' % wt); res['clean_build_ok'] = b.returncode == 0
r = sh('bash %s/run_demo.sh %s' % (d, wt), cwd=d, timeout=1800); res['demo_clean_exit'] = r.returncode
a = sh('git -C %s apply %s/patch.diff' % (wt, d)); res['applies'] = a.returncode == 0
b = sh('cmake --build %s/_build -j8' % wt); res['patched_build_ok'] = b.returncode == 0
r = sh('bash %s/run_demo.sh %s' % (d, wt), cwd=d, timeout=1800); res['demo_patched_exit'] = r.returncode
res['demo_patched_tail'] = (r.stdout + r.stderr)[-400:]
t = sh('python3 %s/tools_baseline.py %s/_build' % (V, wt), timeout=3000)
res['baseline'] = t.stdout.strip().split('\n')[:6]
res['baseline_ok'] = all('MISSING' not in l or 'cmake-test' in l for l in t.stdout.split('\n'))
sh('git -C %s checkout -- .' % wt)
res['confirmed'] = bool(res['clean_build_ok'] and res['patched_build_ok'] and res['applies'] and res['demo_clean_exit'] == 0 and res['demo_patched_exit'] != 0 and res['baseline_ok'])
json.dump(res, open(os.path.join(d, 'verified.json'), 'w'), indent=1)
print(sid, 'CONFIRMED' if res['confirmed'] else 'NOT-CONFIRMED', {k: res[k] for k in ('demo_clean_exit', 'demo_patched_exit', 'baseline_ok', 'applies')})

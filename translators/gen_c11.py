#!/usr/bin/env python3
"""Regenerate lean/MpVerif/Gen/C11Tok.lean from the repository's source (clang-14 typed AST of src/solver.cc and
include/mp/solver-opt.h), for property C11:

  byte conditions (Lean `Int` functions over the `char` values read; 0 = false):
    SkipSpaces / SkipNonSpaces / SkipToEnd / SkipToMatchingQuote   loop conditions + the loop shape
    quoted(const char*)                                            return expression
    BasicSolver::ParseOptionString                                 every byte condition of its `while`/`if`s
                                                                   (name scan, `=` test, `?` query tests)
    OptionHelper<int>::Parse                                       strtol base and the long -> int conversion
  statement skeletons (List String; statements by normalised source text, structure from the AST):
    ParseOptionString, ParseOptions, FindOption, wc_match, wc_split, UseOptionFile, ProcessLines_AvoidComments,
    OptionHelper<int|double|std::string>::Parse, OptionNameLess::operator(), SolverOption::SolverOption,
    TypedSolverOption::Parse, OptionHelper<LongLong>::Parse, StoredOption<bool>::Parse
  tables:
    the OptionHelper<T> specialisations that exist (value kinds the parser handles)

usage: gen_c11.py <repo> <out.lean> [<workdir>]
Anything not understood raises TranslateError (exit code 3): the tie is broken, loudly.
Writes the file only when its content changes.
"""
import sys, os, re, json
sys.path.insert(0, os.path.dirname(__file__))
from tr_cint import TranslateError, clang_dump, parse_concat_json
import subprocess

DEFS = ['-DNDEBUG', '-DMP_DATE=20240320', '-DMP_SYSINFO="x"']


_CACHE = {}


def prefetch(tasks, repo):
    """run the clang dumps concurrently (each costs about a second of parsing)"""
    from concurrent.futures import ThreadPoolExecutor
    with ThreadPoolExecutor(max_workers=8) as ex:
        for (path, filt), docs in zip(tasks, ex.map(lambda t: _dump(t[0], t[1], repo), tasks)):
            _CACHE[(path, filt)] = docs


def dump(path, filt, repo):
    if (path, filt) in _CACHE:
        return _CACHE[(path, filt)]
    return _dump(path, filt, repo)


def _dump(path, filt, repo):
    cmd = ['clang++-14', '-std=gnu++17', '-fsyntax-only', '-w'] + DEFS + ['-I', os.path.join(repo, 'include'), '-I', os.path.join(repo, 'src'),
           '-Xclang', '-ast-dump=json', '-Xclang', '-ast-dump-filter=' + filt, path]
    p = subprocess.run(cmd, capture_output=True, text=True)
    if p.returncode != 0:
        raise TranslateError('clang failed on %s: %s' % (path, p.stderr[:1500]))
    return parse_concat_json(p.stdout)


def kids(n):
    return [c for c in n.get('inner', []) if isinstance(c, dict) and 'kind' in c and not str(c['kind']).endswith('Comment')]


def strip(n):
    """drop parentheses, lvalue-to-rvalue and other value-preserving wrappers"""
    while True:
        k = n.get('kind')
        if k in ('ParenExpr', 'ExprWithCleanups', 'MaterializeTemporaryExpr', 'CXXBindTemporaryExpr', 'ConstantExpr'):
            n = kids(n)[0]
        elif k == 'ImplicitCastExpr' and n.get('castKind') in ('LValueToRValue', 'NoOp', 'FunctionToPointerDecay'):
            n = kids(n)[0]
        else:
            return n


def qt(n):
    t = n.get('type', {})
    return t.get('desugaredQualType', t.get('qualType', ''))


# ------------------------------------------------------------------------------ byte conditions

class ByteExpr:
    """C expression over bytes read through the scanning pointer `s` (`*s`, `s[k]`), `char` locals and literals
    -> Lean term of type Int (C `int` semantics, `char` signed).  Collects the variables used."""

    def __init__(self, ptr, char_locals):
        self.ptr = ptr
        self.locals = char_locals
        self.vars = []

    def var(self, v):
        if v not in self.vars:
            self.vars.append(v)
        return v

    def tr(self, n):
        n = strip(n)
        k = n.get('kind')
        if k == 'ImplicitCastExpr':
            ck = n.get('castKind')
            x = self.tr(kids(n)[0])
            if ck == 'IntegralToBoolean':
                return '(tobool %s)' % x
            if ck == 'IntegralCast':
                src, dst = qt(kids(n)[0]).replace('const ', ''), qt(n).replace('const ', '')
                if dst in ('int', 'long', 'long long') and src in ('char', 'bool', 'int', 'signed char'):
                    return x           # value preserving
                if dst == 'bool':
                    return '(tobool %s)' % x
                raise TranslateError('byte condition: integral cast %s -> %s' % (src, dst))
            raise TranslateError('byte condition: cast kind %s' % ck)
        if k == 'UnaryOperator':
            op = n.get('opcode')
            if op == '*':
                a = strip(kids(n)[0])
                if a.get('kind') == 'DeclRefExpr' and a['referencedDecl']['name'] == self.ptr:
                    return self.var('c0')
                raise TranslateError('byte condition: dereference of something other than the scanning pointer')
            if op == '!':
                return '(cnot %s)' % self.tr(kids(n)[0])
            raise TranslateError('byte condition: unary %s' % op)
        if k == 'ArraySubscriptExpr':
            a, i = strip(kids(n)[0]), strip(kids(n)[1])
            if a.get('kind') == 'DeclRefExpr' and a['referencedDecl']['name'] == self.ptr and i.get('kind') == 'IntegerLiteral':
                return self.var('c%d' % int(i['value']))
            raise TranslateError('byte condition: subscript')
        if k == 'DeclRefExpr':
            nm = n['referencedDecl']['name']
            if nm in self.locals:
                return self.var(nm)
            raise TranslateError('byte condition: reference to %s' % nm)
        if k == 'CharacterLiteral':
            return '(%d : Int)' % int(n['value'])
        if k == 'IntegerLiteral':
            return '(%d : Int)' % int(n['value'])
        if k == 'CXXBoolLiteralExpr':
            return '(%d : Int)' % (1 if n['value'] else 0)
        if k == 'BinaryOperator':
            op = n.get('opcode')
            a, b = self.tr(kids(n)[0]), self.tr(kids(n)[1])
            m = {'==': 'ceq', '!=': 'cne', '<': 'clt', '>': 'cgt', '<=': 'cle', '>=': 'cge', '&&': 'band', '||': 'bor'}
            if op in m:
                return '(%s %s %s)' % (m[op], a, b)
            raise TranslateError('byte condition: binary %s' % op)
        if k == 'CallExpr':
            callee = strip(kids(n)[0])
            nm = callee.get('referencedDecl', {}).get('name')
            if nm == 'isspace' and len(kids(n)) == 2:
                return '(cIsspace %s)' % self.tr(kids(n)[1])
            raise TranslateError('byte condition: call of %s' % nm)
        raise TranslateError('byte condition: node %s' % k)


def byte_def(name, expr_node, ptr, char_locals, doc):
    be = ByteExpr(ptr, char_locals)
    t = be.tr(expr_node)
    params = ' '.join('(%s : Int)' % v for v in be.vars)
    return '/-- %s -/\ndef %s %s: Int :=\n  %s\n' % (doc, name, params + ' ' if params else '', t), be.vars


def is_inc(n, ptr):
    n = strip(n)
    return n.get('kind') == 'UnaryOperator' and n.get('opcode') == '++' and strip(kids(n)[0]).get('referencedDecl', {}).get('name') == ptr


# ------------------------------------------------------------------------------ source-text skeletons

class Src:
    def __init__(self):
        self.cache = {}

    def text(self, path):
        if path not in self.cache:
            self.cache[path] = open(path, 'rb').read()
        return self.cache[path]


def off(loc):
    if 'offset' in loc:
        return loc['offset'], loc.get('tokLen', 1)
    if 'expansionLoc' in loc:
        return loc['expansionLoc']['offset'], loc['expansionLoc'].get('tokLen', 1)
    if 'spellingLoc' in loc:
        return loc['spellingLoc']['offset'], loc['spellingLoc'].get('tokLen', 1)
    raise TranslateError('location without offset: %r' % (loc,))


LIT = re.compile(r'"(?:\\.|[^"\\])*"|\'(?:\\.|[^\'\\])*\'')


def norm(b):
    """comments and layout removed; string and character literals verbatim"""
    s = b.decode('latin1')
    out = []
    pos = 0
    # comments first, but not inside literals: walk literal by literal
    for m in LIT.finditer(s):
        out.append(('code', s[pos:m.start()]))
        out.append(('lit', m.group(0)))
        pos = m.end()
    out.append(('code', s[pos:]))
    res = ''
    for kind, t in out:
        if kind == 'lit':
            res += t
        else:
            t = re.sub(r'/\*.*?\*/', ' ', t, flags=re.S)
            t = re.sub(r'//[^\n]*', ' ', t)
            t = re.sub(r'\s+', ' ', t)
            t = re.sub(r'\s*([(){}\[\];,<>=!&|+\-*/?:.])\s*', r'\1', t)     # spacing is not semantics
            res += t
    return res.strip()


class Skel:
    """statement skeleton: structure (compound / if / for / while / do / try / switch / return / continue / break) from the AST, every
    leaf statement and every condition as normalised source text"""

    def __init__(self, data):
        self.data = data

    def slice(self, n):
        r = n['range']
        b, _ = off(r['begin'])
        e, tl = off(r['end'])
        end = e + tl
        if 'expansionLoc' in r['end'] or 'expansionLoc' in r['begin']:
            # a macro invocation: the AST range covers the macro name only; take its argument list too
            j = end
            while j < len(self.data) and self.data[j:j + 1] in (b' ', b'\n', b'\t'):
                j += 1
            if self.data[j:j + 1] == b'(':
                depth = 0
                lit = None
                while j < len(self.data):
                    ch = self.data[j:j + 1]
                    if lit:
                        if ch == b'\\':
                            j += 1
                        elif ch == lit:
                            lit = None
                    elif ch in (b'"', b"'"):
                        lit = ch
                    elif ch == b'(':
                        depth += 1
                    elif ch == b')':
                        depth -= 1
                        if depth == 0:
                            end = j + 1
                            break
                    j += 1
        return norm(self.data[b:end])

    def stmts(self, n, pre=''):
        k = n.get('kind')
        c = kids(n)
        if k == 'CompoundStmt':
            out = []
            for x in c:
                out += self.stmts(x, pre)
            return out
        if k == 'NullStmt':
            return []
        if k == 'IfStmt':
            xs = list(c)
            head = ''
            if n.get('hasVar') or n.get('hasInit'):
                head = self.slice(xs[0]) + ' ; '
                xs = xs[1:]
            out = [pre + 'if ' + head + self.slice(xs[0])] + self.stmts(xs[1], pre + '  ')
            if len(xs) > 2:
                out += [pre + 'else'] + self.stmts(xs[2], pre + '  ')
            return out + [pre + 'endif']
        if k == 'WhileStmt':
            return [pre + 'while ' + self.slice(c[0])] + self.stmts(c[-1], pre + '  ') + [pre + 'endwhile']
        if k == 'DoStmt':
            return [pre + 'do'] + self.stmts(c[0], pre + '  ') + [pre + 'while ' + self.slice(c[1])]
        if k == 'ForStmt':
            r = n['range']
            b, _ = off(r['begin'])
            body = c[-1]
            bb, _ = off(body['range']['begin'])
            return [pre + norm(self.data[b:bb])] + self.stmts(body, pre + '  ') + [pre + 'endfor']
        if k == 'CXXForRangeStmt':
            r = n['range']
            b, _ = off(r['begin'])
            body = c[-1]
            bb, _ = off(body['range']['begin'])
            return [pre + norm(self.data[b:bb])] + self.stmts(body, pre + '  ') + [pre + 'endfor']
        if k == 'CXXTryStmt':
            out = [pre + 'try'] + self.stmts(c[0], pre + '  ')
            for h in c[1:]:
                hc = kids(h)
                out += [pre + 'catch ' + (self.slice(hc[0]) if len(hc) > 1 else '...')] + self.stmts(hc[-1], pre + '  ')
            return out + [pre + 'endtry']
        if k in ('ReturnStmt', 'ContinueStmt', 'BreakStmt', 'DeclStmt', 'SwitchStmt', 'CaseStmt', 'DefaultStmt', 'GotoStmt', 'LabelStmt'):
            return [pre + self.slice(n)]
        # expression statement
        if 'range' in n:
            return [pre + self.slice(n)]
        raise TranslateError('skeleton: node %s without a range' % k)


def body_of(d):
    b = [c for c in kids(d) if c.get('kind') == 'CompoundStmt']
    if not b:
        raise TranslateError('%s has no body' % d.get('name'))
    return b[0]


def find_all(n, pred, out):
    if isinstance(n, dict):
        if pred(n):
            out.append(n)
        for c in n.get('inner', []):
            find_all(c, pred, out)
    return out



# ------------------------------------------------------------------------------ std::string expressions (wc_match)

class StrExpr:
    """expressions of `SolverOption::wc_match` over `key`, the loop variable's `.first`/`.second`, `wc_head()`/`wc_tail()`,
    `size()`, `rfind`, `substr`, size_t `-`, `==`, `>`, `&&`  ->  Lean terms over MpVerif.C11.StdStr"""

    def __init__(self, key, loopvar):
        self.key, self.loopvar = key, loopvar

    def tr(self, n):
        n = strip(n)
        k = n.get('kind')
        if k == 'ImplicitCastExpr' and n.get('castKind') in ('IntegralCast',):
            return self.tr(kids(n)[0])
        if k == 'DeclRefExpr':
            if n['referencedDecl']['name'] == self.key:
                return 'key', 'str'
            raise TranslateError('wc_match: reference to %s' % n['referencedDecl']['name'])
        if k == 'MemberExpr':
            base = strip(kids(n)[0])
            if base.get('kind') == 'DeclRefExpr' and base['referencedDecl']['name'] == self.loopvar and n.get('name') in ('first', 'second'):
                return ('head' if n['name'] == 'first' else 'tail'), 'str'
            raise TranslateError('wc_match: member %s' % n.get('name'))
        if k == 'IntegerLiteral':
            return '(%d : Nat)' % int(n['value']), 'nat'
        if k == 'CXXDefaultArgExpr':
            return 'npos', 'nat'        # the only defaulted argument used here: rfind's pos = npos
        if k == 'CXXMemberCallExpr':
            callee = strip(kids(n)[0])
            if callee.get('kind') != 'MemberExpr':
                raise TranslateError('wc_match: call through %s' % callee.get('kind'))
            nm = callee.get('name')
            obj = strip(kids(callee)[0])
            args = kids(n)[1:]
            if obj.get('kind') == 'CXXThisExpr' or (obj.get('kind') == 'ImplicitCastExpr' and strip(kids(obj)[0]).get('kind') == 'CXXThisExpr'):
                if nm == 'wc_head' and not args:
                    return 'head0', 'str'
                if nm == 'wc_tail' and not args:
                    return 'tail0', 'str'
                raise TranslateError('wc_match: call of this->%s' % nm)
            o, ot = self.tr(obj)
            if ot != 'str':
                raise TranslateError('wc_match: method %s on a non-string' % nm)
            if nm in ('size', 'length') and not args:
                return '(%s).length' % o, 'nat'
            if nm == 'rfind' and len(args) == 2:
                a, at = self.tr(args[0]); b, bt = self.tr(args[1])
                if at == 'str' and bt == 'nat':
                    return '(rfind %s %s %s)' % (o, a, b), 'nat'
            if nm == 'substr' and len(args) == 2:
                a, at = self.tr(args[0]); b, bt = self.tr(args[1])
                if at == 'nat' and bt == 'nat':
                    return '(substr %s %s %s)' % (o, a, b), 'str'
            raise TranslateError('wc_match: std::string::%s with %d arguments' % (nm, len(args)))
        if k == 'BinaryOperator':
            op = n.get('opcode')
            a, at = self.tr(kids(n)[0]); b, bt = self.tr(kids(n)[1])
            if op == '&&' and at == bt == 'bool':
                return '(%s && %s)' % (a, b), 'bool'
            if at == bt == 'nat':
                if op == '==':
                    return '(%s == %s)' % (a, b), 'bool'
                if op == '>':
                    return '(decide (%s > %s))' % (a, b), 'bool'
                if op == '-':
                    return '(usub %s %s)' % (a, b), 'nat'
            raise TranslateError('wc_match: operator %s on %s,%s' % (op, at, bt))
        raise TranslateError('wc_match: node %s' % k)


def translate_wc_match(d):
    """`for (const auto& wcht : wc_headtails_) if (COND) { wc_key_last_ = key; wc_body_last_ = BODY; return true; } return false;`"""
    key = [c for c in kids(d) if c.get('kind') == 'ParmVarDecl'][0]['name']
    body = kids(body_of(d))
    if len(body) != 2 or body[0].get('kind') != 'CXXForRangeStmt' or body[1].get('kind') != 'ReturnStmt':
        raise TranslateError('wc_match: expected `for (... : wc_headtails_) ...; return false;`')
    r = strip(kids(body[1])[0])
    if r.get('kind') != 'CXXBoolLiteralExpr' or r.get('value'):
        raise TranslateError('wc_match: final return is not `false`')
    fr = body[0]
    loopvars = [v for v in find_all(fr, lambda n: n.get('kind') == 'VarDecl' and not str(n.get('name', '')).startswith('__'), [])]
    rng = find_all(fr, lambda n: n.get('kind') == 'MemberExpr' and n.get('name') == 'wc_headtails_', [])
    if len(loopvars) != 1 or not rng:
        raise TranslateError('wc_match: loop is not over wc_headtails_ with one loop variable')
    lv = loopvars[0]['name']
    fb = kids(fr)[-1]
    stmts = kids(fb) if fb.get('kind') == 'CompoundStmt' else [fb]
    if len(stmts) != 1 or stmts[0].get('kind') != 'IfStmt' or len(kids(stmts[0])) != 2:
        raise TranslateError('wc_match: loop body is not a single `if` without else')
    cond, then = kids(stmts[0])
    ts = kids(then)
    if len(ts) != 3 or strip(ts[2]).get('kind') != 'ReturnStmt':
        raise TranslateError('wc_match: expected three statements in the `if`')
    rt = strip(kids(strip(ts[2]))[0])
    if rt.get('kind') != 'CXXBoolLiteralExpr' or not rt.get('value'):
        raise TranslateError('wc_match: the `if` does not `return true`')

    def assign(st, member):
        st = strip(st)
        if st.get('kind') != 'CXXOperatorCallExpr':
            raise TranslateError('wc_match: expected an assignment')
        parts = kids(st)
        lhs = strip(parts[1])
        if lhs.get('kind') != 'MemberExpr' or lhs.get('name') != member:
            raise TranslateError('wc_match: expected assignment to %s' % member)
        return parts[2]
    sx = StrExpr(key, lv)
    k1, t1 = sx.tr(assign(ts[0], 'wc_key_last_'))
    if k1 != 'key':
        raise TranslateError('wc_match: wc_key_last_ is not assigned the key')
    c, ct = sx.tr(cond)
    b, bt = sx.tr(assign(ts[1], 'wc_body_last_'))
    if ct != 'bool' or bt != 'str':
        raise TranslateError('wc_match: condition/body types')
    return ('/-- `wc_match`: the test applied to each (head, tail) pattern; head0/tail0 = `wc_head()`/`wc_tail()` (the primary pattern) -/\n'
            'def wc_match_cond (key head tail head0 tail0 : List UInt8) : Bool :=\n  %s\n\n'
            '/-- `wc_match`: what is stored in `wc_body_last_` when the test succeeds -/\n'
            'def wc_match_body (key head tail head0 tail0 : List UInt8) : List UInt8 :=\n  %s\n' % (c, b))



def translate_wc_split(d):
    """`auto wc_pos = name.find_first_of('*'); return { name.substr(0, wc_pos), name.substr(wc_pos+1, npos) };` (asserts are
    compiled out): the (head, tail) pair as functions of the name"""
    name = [c for c in kids(d) if c.get('kind') == 'ParmVarDecl'][0]['name']
    body = [strip(x) for x in kids(body_of(d))]
    body = [x for x in body if not (x.get('kind') in ('CXXStaticCastExpr', 'CStyleCastExpr') and x.get('castKind') == 'ToVoid')]
    if len(body) != 2 or body[0].get('kind') != 'DeclStmt' or body[1].get('kind') != 'ReturnStmt':
        raise TranslateError('wc_split: expected one declaration and one return (besides asserts)')
    vds = kids(body[0])
    if len(vds) != 1:
        raise TranslateError('wc_split: expected one local')
    local = vds[0]['name']

    def tr(n):
        n = strip(n)
        k = n.get('kind')
        if k == 'ImplicitCastExpr' and n.get('castKind') == 'IntegralCast':
            return tr(kids(n)[0])
        if k == 'IntegerLiteral':
            return '(%d : Nat)' % int(n['value']), 'nat'
        if k == 'CharacterLiteral':
            return '(%d : UInt8)' % int(n['value']), 'char'
        if k == 'CXXDefaultArgExpr':
            return '(0 : Nat)', 'nat'         # find_first_of's pos = 0
        if k == 'DeclRefExpr':
            nm = n['referencedDecl']['name']
            if nm == name:
                return 'name', 'str'
            if nm == local:
                return 'pos', 'nat'
            if nm == 'npos':
                return 'npos', 'nat'
            raise TranslateError('wc_split: reference to %s' % nm)
        if k == 'BinaryOperator' and n.get('opcode') == '+':
            a, at = tr(kids(n)[0]); b, bt = tr(kids(n)[1])
            if at == bt == 'nat':
                return '(uadd %s %s)' % (a, b), 'nat'
        if k == 'CXXMemberCallExpr':
            callee = strip(kids(n)[0])
            nm = callee.get('name')
            o, ot = tr(kids(callee)[0])
            args = kids(n)[1:]
            if ot == 'str' and nm == 'find_first_of' and len(args) == 2:
                c, ct = tr(args[0]); p0, pt = tr(args[1])
                if ct == 'char' and p0 == '(0 : Nat)':
                    return '(findFirstOf %s %s)' % (o, c), 'nat'
            if ot == 'str' and nm == 'substr' and len(args) == 2:
                a, at = tr(args[0]); b, bt = tr(args[1])
                if at == bt == 'nat':
                    return '(substr %s %s %s)' % (o, a, b), 'str'
            raise TranslateError('wc_split: std::string::%s' % nm)
        raise TranslateError('wc_split: node %s' % k)
    init = [c for c in kids(vds[0])][-1]
    pos, pt = tr(init)
    if pt != 'nat':
        raise TranslateError('wc_split: the local is not a position')
    ctor = find_all(body[1], lambda n: n.get('kind') in ('CXXConstructExpr', 'InitListExpr') and 'WCHeadTail' in qt(n) or 'pair' in qt(n) and n.get('kind') in ('CXXConstructExpr', 'InitListExpr'), [])
    subs = find_all(body[1], lambda n: n.get('kind') == 'CXXMemberCallExpr' and strip(kids(n)[0]).get('name') == 'substr', [])
    if len(subs) != 2:
        raise TranslateError('wc_split: expected a pair of two substr calls in the return')
    h, ht = tr(subs[0]); t, tt = tr(subs[1])
    return ('/-- `wc_split`: position of the first `*` -/\ndef wc_split_pos (name : List UInt8) : Nat :=\n  %s\n\n'
            '/-- `wc_split`: the head (first member of the returned pair) -/\ndef wc_split_head (name : List UInt8) : List UInt8 :=\n  let pos := wc_split_pos name\n  %s\n\n'
            '/-- `wc_split`: the tail (second member) -/\ndef wc_split_tail (name : List UInt8) : List UInt8 :=\n  let pos := wc_split_pos name\n  %s\n' % (pos, h, t))


def lean_str(s):
    return '"' + s.replace('\\', '\\\\').replace('"', '\\"') + '"'


def fn_decls(docs, name, with_body=True):
    out = []
    for d in docs:
        find_all(d, lambda n: n.get('kind') in ('FunctionDecl', 'CXXMethodDecl', 'CXXConstructorDecl') and n.get('name') == name and
                 (not with_body or any(c.get('kind') == 'CompoundStmt' for c in kids(n))), out)
    return out


def one(lst, what):
    # the same function may be dumped several times (filter matches nested names); bodies must agree
    if not lst:
        raise TranslateError('%s not found in the source' % what)
    return lst[0]


def main(repo, out, work):
    os.makedirs(work, exist_ok=True)
    solver_cc = os.path.join(repo, 'src', 'solver.cc')
    opt_h = os.path.join(repo, 'include', 'mp', 'solver-opt.h')
    src = Src()
    data_cc = src.text(solver_cc)
    sk_cc = Skel(data_cc)
    o = ['/- GENERATED by translators/gen_c11.py from src/solver.cc and include/mp/solver-opt.h (clang-14 typed AST).',
         '   Do not edit: regenerated on every check run.  Byte conditions are `Int`-valued (C `int`; 0 = false) functions of the',
         '   `char` values read: c0 = `*s`, c1 = `s[1]`, other parameters are `char` locals.  Skeletons list the statements of a',
         '   function in order (structure from the AST, text normalised from the source). -/',
         'import MpVerif.C11.CLib',
         'import MpVerif.C11.StdStr',
         'namespace MpVerif.Gen.C11Tok',
         'open MpVerif.CSem MpVerif.C11.CLib MpVerif.C11.StdStr',
         '']
    n_conds = 0
    skels = []
    tu = os.path.join(work, 'c11_inst.cc')
    open(tu, 'w').write('#include "mp/solver-opt.h"\n')
    prefetch([(solver_cc, f) for f in ('SkipSpaces', 'SkipNonSpaces', 'SkipToEnd', 'SkipToMatchingQuote', 'quoted',
                                       'mp::BasicSolver::ParseOptionString', 'mp::internal::OptionHelper', 'mp::BasicSolver::ParseOptions',
                                       'mp::SolverOptionManager::FindOption', 'mp::SolverOption::wc_match', 'mp::SolverOption::wc_split',
                                       'mp::BasicSolver::UseOptionFile', 'ProcessLines_AvoidComments', 'mp::SolverOption::SolverOption',
                                       'mp::SolverOptionManager::AddOption', 'OptionNameLess')] +
             [(tu, f) for f in ('mp::TypedSolverOption', 'mp::internal::OptionHelper', 'mp::SolverOptionManager::StoredOption',
                                'mp::SolverOption::echo_with_value')], repo)

    def in_file(d, path):
        # declarations from the main file carry no `includedFrom`
        loc = d.get('loc', {})
        return 'includedFrom' not in loc and 'includedFrom' not in loc.get('expansionLoc', {}) if loc else True

    # ---- the four scanners and quoted()
    for fn in ('SkipSpaces', 'SkipNonSpaces', 'SkipToEnd', 'SkipToMatchingQuote', 'quoted'):
        docs = dump(solver_cc, fn, repo)
        d = one([x for x in fn_decls(docs, fn) if x.get('kind') == 'FunctionDecl'], fn)
        params = [c for c in kids(d) if c.get('kind') == 'ParmVarDecl']
        if len(params) != 1 or qt(params[0]) != 'const char *':
            raise TranslateError('%s: expected one parameter const char*' % fn)
        ptr = params[0]['name']
        body = [strip(s) for s in kids(body_of(d))]
        body = [s for s in body if not (s.get('kind') in ('CXXStaticCastExpr', 'CStyleCastExpr') and s.get('castKind') == 'ToVoid')]   # assert under NDEBUG
        shape = []
        locals_ = []
        for s in body:
            k = s.get('kind')
            if k == 'DeclStmt':
                for v in kids(s):
                    init = strip(kids(v)[-1])
                    if qt(v).replace('const ', '') != 'char' or init.get('kind') != 'ArraySubscriptExpr':
                        raise TranslateError('%s: unexpected declaration %s' % (fn, v.get('name')))
                    idx = strip(kids(init)[1])
                    shape.append('%s=%s[%s]' % (v['name'], ptr, idx.get('value')))
                    locals_.append(v['name'])
            elif is_inc(s, ptr):
                shape.append('++' + ptr)
            elif k == 'WhileStmt':
                cond, bdy = kids(s)[0], kids(s)[-1]
                if not is_inc(bdy, ptr):
                    raise TranslateError('%s: loop body is not ++%s' % (fn, ptr))
                text, vs = byte_def(fn + '_cond', cond, ptr, locals_, '`%s`: the loop runs while this is non-zero' % fn)
                o.append(text)
                n_conds += 1
                shape.append('while(cond(%s))++%s' % (','.join(vs), ptr))
            elif k == 'ReturnStmt':
                r = strip(kids(s)[0])
                if r.get('kind') == 'DeclRefExpr' and r['referencedDecl']['name'] == ptr:
                    shape.append('return ' + ptr)
                elif fn == 'quoted':
                    text, vs = byte_def(fn + '_ret', kids(s)[0], ptr, locals_, '`quoted(s)`')
                    o.append(text)
                    n_conds += 1
                    shape.append('return cond(%s)' % ','.join(vs))
                else:
                    raise TranslateError('%s: unexpected return expression' % fn)
            else:
                raise TranslateError('%s: unexpected statement %s' % (fn, k))
        o.append('def %s_shape : String := %s\n' % (fn, lean_str(';'.join(shape).replace(ptr, 's') if ptr != 's' else ';'.join(shape))))

    # ---- ParseOptionString: every byte condition, in source order, and the skeleton
    docs = dump(solver_cc, 'mp::BasicSolver::ParseOptionString', repo)
    d = one([x for x in fn_decls(docs, 'ParseOptionString')], 'BasicSolver::ParseOptionString')
    ptr = [c for c in kids(d) if c.get('kind') == 'ParmVarDecl'][0]['name']
    char_locals = [v['name'] for v in find_all(d, lambda n: n.get('kind') == 'VarDecl' and qt(n).replace('const ', '') == 'char', [])]
    conds = []
    for st in find_all(body_of(d), lambda n: n.get('kind') in ('WhileStmt', 'IfStmt'), []):
        cond = kids(st)[0]
        try:
            be = ByteExpr(ptr, char_locals)
            be.tr(cond)
        except TranslateError as e:
            # a condition that does not look at the text (`if (!opt)`, `if (equal_sign)`, flag tests) is not a byte
            # condition: it is in the skeleton.  One that does read `*s`, `s[k]` or a `char` local must translate.
            def reads_text(n):
                n0 = strip(n) if isinstance(n, dict) and 'kind' in n else n
                if isinstance(n0, dict):
                    k = n0.get('kind')
                    if k == 'DeclRefExpr' and n0.get('referencedDecl', {}).get('name') in char_locals:
                        return True
                    if k in ('UnaryOperator', 'ArraySubscriptExpr') and (n0.get('opcode') == '*' or k == 'ArraySubscriptExpr'):
                        a = strip(kids(n0)[0])
                        if a.get('kind') == 'DeclRefExpr' and a.get('referencedDecl', {}).get('name') == ptr:
                            return True
                    return any(reads_text(c) for c in kids(n0))
                return False
            if reads_text(cond):
                raise TranslateError('ParseOptionString: condition `%s` reads the option text but cannot be translated: %s' % (sk_cc.slice(cond), e))
            continue
        if not be.vars:
            continue
        conds.append((st, cond))
    if not conds:
        raise TranslateError('ParseOptionString: no byte conditions found')
    for i, (st, cond) in enumerate(conds):
        text, vs = byte_def('ParseOptionString_cond%d' % i, cond, ptr, char_locals,
                            '`ParseOptionString`, %s condition `%s`' % ('while' if st['kind'] == 'WhileStmt' else 'if', sk_cc.slice(cond).replace('-/', '- /')))
        o.append(text)
        n_conds += 1
    o.append('def ParseOptionString_nconds : Nat := %d\n' % len(conds))
    skels.append(('ParseOptionString', sk_cc.stmts(body_of(d))))

    # ---- OptionHelper<int>::Parse: strtol base and the conversion of its result
    docs = dump(solver_cc, 'mp::internal::OptionHelper', repo)
    parses = [x for x in fn_decls(docs, 'Parse')]

    def helper_of(x):
        # parent class of an out-of-line definition: look at the first parameter list / qualType of `this` is absent for static;
        # use the source text in front of the name
        b, _ = off(x['range']['begin'])
        e, _ = off(body_of(x)['range']['begin'])
        return norm(data_cc[b:e])
    by_sig = {}
    for x in parses:
        if in_file(x, solver_cc):
            by_sig[helper_of(x)] = x
    ip = [v for k, v in by_sig.items() if 'OptionHelper<int>::Parse' in k]
    dp = [v for k, v in by_sig.items() if 'OptionHelper<double>::Parse' in k]
    sp = [v for k, v in by_sig.items() if 'OptionHelper<std::string>::Parse' in k]
    if len(ip) != 1 or len(dp) != 1 or len(sp) != 1:
        raise TranslateError('OptionHelper<int|double|std::string>::Parse: expected one definition each in solver.cc, found %r' % sorted(by_sig))
    ipd = ip[0]
    calls = find_all(body_of(ipd), lambda n: n.get('kind') == 'CallExpr' and strip(kids(n)[0]).get('referencedDecl', {}).get('name') in ('strtol', 'strtoll', 'strtoul', 'atoi', 'atol'), [])
    if len(calls) != 1 or strip(kids(calls[0])[0])['referencedDecl']['name'] != 'strtol':
        raise TranslateError('OptionHelper<int>::Parse: expected exactly one call of strtol')
    args = kids(calls[0])[1:]
    base = strip(args[2])
    if base.get('kind') != 'IntegerLiteral':
        raise TranslateError('OptionHelper<int>::Parse: strtol base is not a literal')
    rets = find_all(body_of(ipd), lambda n: n.get('kind') == 'ReturnStmt', [])
    if len(rets) != 1:
        raise TranslateError('OptionHelper<int>::Parse: expected one return')
    r = kids(rets[0])[0]
    conv = 'v'
    node = r
    chain = []
    while node.get('kind') == 'ImplicitCastExpr':
        chain.append((node.get('castKind'), qt(node)))
        node = kids(node)[0]
    node = strip(node)
    if node.get('kind') != 'DeclRefExpr':
        raise TranslateError('OptionHelper<int>::Parse: return expression is not a variable')
    var = node['referencedDecl']['name']
    vdecl = [v for v in find_all(body_of(ipd), lambda n: n.get('kind') == 'VarDecl' and n.get('name') == var, [])]
    if not vdecl or strip(kids(vdecl[0])[-1]) is not strip(calls[0]) and find_all(vdecl[0], lambda n: n is calls[0], []) == []:
        raise TranslateError('OptionHelper<int>::Parse: returned variable is not the strtol result')
    CT = {'long': 'tL', 'int': 'tI', 'long long': 'tLL'}
    conv = '(conv %s v)' % CT[qt(vdecl[0])]                # the strtol result stored in the variable
    for ck, ty in reversed(chain):
        if ck in ('LValueToRValue', 'NoOp'):
            continue
        if ck == 'IntegralCast' and ty in CT:
            conv = '(conv %s %s)' % (CT[ty], conv)
        else:
            raise TranslateError('OptionHelper<int>::Parse: cast %s to %s in the return' % (ck, ty))
    fty = ipd['type']['qualType'].split('(')[0].strip()
    if fty not in CT:
        raise TranslateError('OptionHelper<int>::Parse: return type %s' % fty)
    o.append('/-- `OptionHelper<int>::Parse`: `strtol(s, &end, base)` -/\ndef intParse_base : Int := %d\n' % int(base['value']))
    o.append('/-- what `OptionHelper<int>::Parse` returns for the `long` value `v` delivered by `strtol` (declared return type `%s`) -/\ndef intParse_conv (v : Int) : Int :=\n  %s\n' % (fty, conv))
    skels.append(('OptionHelper_int_Parse', sk_cc.stmts(body_of(ipd))))
    skels.append(('OptionHelper_double_Parse', sk_cc.stmts(body_of(dp[0]))))
    skels.append(('OptionHelper_string_Parse', sk_cc.stmts(body_of(sp[0]))))

    # ---- skeletons of the other functions of the mechanism (solver.cc)
    for filt, name, key in [('mp::BasicSolver::ParseOptions', 'ParseOptions', 'ParseOptions'),
                            ('mp::SolverOptionManager::FindOption', 'FindOption', 'FindOption'),
                            ('mp::SolverOption::wc_match', 'wc_match', 'wc_match'),
                            ('mp::SolverOption::wc_split', 'wc_split', 'wc_split'),
                            ('mp::BasicSolver::UseOptionFile', 'UseOptionFile', 'UseOptionFile'),
                            ('ProcessLines_AvoidComments', 'ProcessLines_AvoidComments', 'ProcessLines_AvoidComments'),
                            ('mp::SolverOption::SolverOption', 'SolverOption', 'SolverOption_ctor'),
                            ('mp::SolverOptionManager::AddOption', 'AddOption', 'AddOption')]:
        docs = dump(solver_cc, filt, repo)
        ds = [x for x in fn_decls(docs, name) if in_file(x, solver_cc)]
        if name == 'AddOption':
            ds = [x for x in ds if 'OptionPtr' in x['type']['qualType'] or 'unique_ptr' in x['type']['qualType']]
        d = one(ds, filt)
        if name == 'wc_match':
            o.append(translate_wc_match(d))
        if name == 'wc_split':
            o.append(translate_wc_split(d))
        sk = sk_cc.stmts(body_of(d))
        if name == 'FindOption':
            # the lambda of the synonym comparison is an expression inside an `if`: its text is part of that line
            pass
        skels.append((key, sk))
    docs = dump(solver_cc, 'OptionNameLess', repo)
    d = one([x for x in fn_decls(docs, 'operator()') if in_file(x, solver_cc)], 'OptionNameLess::operator()')
    skels.append(('OptionNameLess', sk_cc.stmts(body_of(d))))

    # ---- header: TypedSolverOption::Parse (template pattern), OptionHelper<LongLong>::Parse, StoredOption<bool>::Parse, echo_with_value
    data_h = src.text(opt_h)
    sk_h = Skel(data_h)
    docs = dump(tu, 'mp::TypedSolverOption', repo)
    tp = [x for x in fn_decls(docs, 'Parse')]
    d = one(tp, 'TypedSolverOption::Parse')
    skels.append(('TypedSolverOption_Parse', sk_h.stmts(body_of(d))))
    docs = dump(tu, 'mp::internal::OptionHelper', repo)
    specs = []
    for dd in docs:
        for n in find_all(dd, lambda n: n.get('kind') == 'ClassTemplateSpecializationDecl' and n.get('name') == 'OptionHelper', []):
            targs = [c['type']['qualType'] for c in n.get('inner', []) if isinstance(c, dict) and c.get('kind') == 'TemplateArgument' and 'type' in c]
            if targs and any(c.get('kind') in ('CXXMethodDecl', 'TypedefDecl') for c in kids(n)):
                if targs[0] not in specs:
                    specs.append(targs[0])
    if not specs:
        raise TranslateError('no OptionHelper<T> specialisations found')
    llp = []
    for dd in docs:
        for n in find_all(dd, lambda n: n.get('kind') == 'ClassTemplateSpecializationDecl' and n.get('name') == 'OptionHelper', []):
            targs = [c['type']['qualType'] for c in n.get('inner', []) if isinstance(c, dict) and c.get('kind') == 'TemplateArgument' and 'type' in c]
            if targs and 'long long' in targs[0]:
                llp += [m for m in kids(n) if m.get('kind') == 'CXXMethodDecl' and m.get('name') == 'Parse' and any(c.get('kind') == 'CompoundStmt' for c in kids(m))]
    if llp:
        skels.append(('OptionHelper_LongLong_Parse', sk_h.stmts(body_of(llp[0]))))
    else:
        skels.append(('OptionHelper_LongLong_Parse', ['(defined out of line)']))
    docs = dump(tu, 'mp::SolverOptionManager::StoredOption', repo)
    bp = []
    for dd in docs:
        for n in find_all(dd, lambda n: n.get('kind') == 'ClassTemplateSpecializationDecl' and n.get('name') == 'StoredOption', []):
            bp += [m for m in kids(n) if m.get('kind') == 'CXXMethodDecl' and m.get('name') in ('Parse', 'is_flag') and any(c.get('kind') == 'CompoundStmt' for c in kids(m))]
    if len(bp) < 2:
        raise TranslateError('StoredOption<bool>::Parse / is_flag not found')
    for m in bp:
        skels.append(('StoredOption_bool_' + m['name'], sk_h.stmts(body_of(m))))
    docs = dump(tu, 'mp::SolverOption::echo_with_value', repo)
    d = one(fn_decls(docs, 'echo_with_value'), 'SolverOption::echo_with_value')
    skels.append(('echo_with_value', sk_h.stmts(body_of(d))))

    o.append('/-- the `OptionHelper<T>` specialisations: the value kinds the typed parser handles -/')
    o.append('def optionHelperTypes : List String := [%s]\n' % ', '.join(lean_str(s.replace('fmt::LongLong', 'long long')) for s in specs))
    for name, steps in skels:
        o.append('def skel_%s : List String := [\n  %s]\n' % (name, ',\n  '.join(lean_str(s) for s in steps)))
    o.append('end MpVerif.Gen.C11Tok')
    text = '\n'.join(o) + '\n'
    old = open(out).read() if os.path.exists(out) else None
    if old != text:
        open(out, 'w').write(text)
    print('generated %d byte conditions, %d skeletons, %d value kinds -> %s%s' % (n_conds, len(skels), len(specs), out, '' if old != text else ' (unchanged)'))


if __name__ == '__main__':
    try:
        main(sys.argv[1], sys.argv[2], sys.argv[3] if len(sys.argv) > 3 else '/tmp/agents/C11/build/tr')
    except TranslateError as e:
        print('TRANSLATE-ERROR: %s' % e)
        sys.exit(3)

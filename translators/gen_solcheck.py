#!/usr/bin/env python3
"""Regenerate lean/MpVerif/Gen/SolCheck.lean from the tree's source (clang-14 typed AST of the *instantiated* functions):

  include/mp/flat/constr_base.h       Violation::Check;  ComputeViolation(CustomFunctionalConstraint<..>, x);
                                      ConditionalConstraint<Con>::ComputeViolation
  include/mp/flat/constr_algebraic.h  AlgebraicConstraint<Body,RhsOrRange>::ComputeViolation; AlgConRange::is_valid;
                                      AlgConRhs<k>::is_valid / lb / ub for k = -2..2
  include/mp/flat/constr_keeper.h     ViolSummary::CountViol, ViolSummary::CheckViol;
                                      the class/slot selection inside ConstraintKeeper<..>::ComputeViolations
  include/mp/flat/sol_check.h         the sol:chk:mode bit masks / shift used by CheckSolution and DoCheckSol,
                                      the solve-result code raised by sol:chk:fail
  + structure: which constraint types have a ComputeValue overload (constr_eval.h) / their own ComputeViolation

Each function body is executed symbolically (if / switch / return / local variables / assignments inside conditions /
short-circuit && ||) into one Lean term over `MpVerif.C07.GenSem.D` (doubles as an abstract ordered field extended by
+-infinity; NaN-free), `Bool`, `Nat`.  Calls that are not part of the decision logic (x[i], ComputeValue(c,x), lb(), ...)
become parameters of the generated definition, named in SPECS below.  Anything the translator does not know raises
TranslateError (the check then reports a violation: the tie no longer covers the code).

usage: gen_solcheck.py <repo> <out.lean> [<workdir>]      writes the file only when its content changes.
"""
import sys, os, json, re, subprocess
sys.path.insert(0, os.path.dirname(__file__))
from tr_cint import clang_dump, TranslateError

TU = r'''
#define NDEBUG 1
#define MP_DATE 20240320
#include "mp/flat/constr_std.h"
#include "mp/flat/constr_keeper.h"
#include "mp/flat/constr_eval.h"
#include "mp/utils-math.h"
namespace c07tu {
double u7(double v, int d) { return mp::round_to_digits(v, d); }
bool u8(const mp::VarInfoStatic& x, int i) { return x.is_at_lb(i) && x.is_at_ub(i) && x.is_nonzero(i) && x.is_positive(i) && x.bounds_viol(i) > 0; }
using VI = mp::VarInfoStatic;
double e1(const mp::AbsConstraint& c, const VI& x) { return mp::ComputeValue(c, x); }
double e2(const mp::NotConstraint& c, const VI& x) { return mp::ComputeValue(c, x); }
double e3(const mp::DivConstraint& c, const VI& x) { return mp::ComputeValue(c, x); }
double e4(const mp::IfThenConstraint& c, const VI& x) { return mp::ComputeValue(c, x); }
double e5(const mp::ImplicationConstraint& c, const VI& x) { return mp::ComputeValue(c, x); }
double e6(const mp::MaxConstraint& c, const VI& x) { return mp::ComputeValue(c, x); }
double e7(const mp::MinConstraint& c, const VI& x) { return mp::ComputeValue(c, x); }
double e8(const mp::AndConstraint& c, const VI& x) { return mp::ComputeValue(c, x); }
double e9(const mp::OrConstraint& c, const VI& x) { return mp::ComputeValue(c, x); }
double e10(const mp::CountConstraint& c, const VI& x) { return mp::ComputeValue(c, x); }
double e11(const mp::NumberofConstConstraint& c, const VI& x) { return mp::ComputeValue(c, x); }
mp::Violation u11(const mp::SOS1Constraint& c, const VI& x) { return c.ComputeViolation(x); }
mp::Violation u9(const mp::ComplementarityLinear& c, const VI& x) { return c.ComputeViolation(x); }
mp::Violation u10(const mp::IndicatorConstraintLinLE& c, const VI& x) { return c.ComputeViolation(x); }
mp::Violation u1(const mp::LinConRange& c, const VI& x) { return c.ComputeViolation(x, false); }
mp::Violation u3(const mp::AbsConstraint& c, const VI& x) { return c.ComputeViolation(x); }
mp::Violation u4(mp::CondLinConLE& c, const VI& x) { return c.ComputeViolation(x); }
bool u5(double v) { return mp::AlgConRhs<-2>(1).is_valid(v) && mp::AlgConRhs<-1>(1).is_valid(v) && mp::AlgConRhs<0>(1).is_valid(v)
  && mp::AlgConRhs<1>(1).is_valid(v) && mp::AlgConRhs<2>(1).is_valid(v) && mp::AlgConRange(0,1).is_valid(v); }
double u6() { double s = 0; s += mp::AlgConRhs<-2>(1).lb() + mp::AlgConRhs<-2>(1).ub(); s += mp::AlgConRhs<-1>(1).lb() + mp::AlgConRhs<-1>(1).ub();
  s += mp::AlgConRhs<0>(1).lb() + mp::AlgConRhs<0>(1).ub(); s += mp::AlgConRhs<1>(1).lb() + mp::AlgConRhs<1>(1).ub();
  s += mp::AlgConRhs<2>(1).lb() + mp::AlgConRhs<2>(1).ub(); return s; }
}
'''


# ------------------------------------------------------------------------------------------------ AST helpers
def parse_docs(text):
    dec = json.JSONDecoder()
    docs, i = [], 0
    while True:
        j = text.find('{', i)
        if j < 0:
            return docs
        # only top-level objects start at the beginning of a line
        if j > 0 and text[j - 1] != '\n':
            i = j + 1
            continue
        d, k = dec.raw_decode(text, j)
        docs.append(d)
        i = k


def walk(n, path=()):
    yield n, path
    for c in n.get('inner', []):
        yield from walk(c, path + (n,))


def body_of(fn):
    for c in fn.get('inner', []):
        if c.get('kind') == 'CompoundStmt':
            return c
    return None


def strip(e):
    """drop wrappers that do not change the value"""
    while e.get('kind') in ('ImplicitCastExpr', 'ParenExpr', 'ExprWithCleanups', 'MaterializeTemporaryExpr', 'CXXFunctionalCastExpr',
                            'ConstantExpr', 'CXXBindTemporaryExpr', 'SubstNonTypeTemplateParmExpr') and len([c for c in e.get('inner', []) if c.get('kind') != 'NonTypeTemplateParmDecl']) == 1:
        if e['kind'] == 'SubstNonTypeTemplateParmExpr':
            e = [c for c in e['inner'] if c.get('kind') != 'NonTypeTemplateParmDecl'][0]
            continue
        ck = e.get('castKind')
        if e['kind'] in ('ImplicitCastExpr', 'CXXFunctionalCastExpr') and ck in ('IntegralToFloating', 'IntegralToBoolean', 'FloatingToIntegral', 'FloatingToBoolean'):
            return e
        e = e['inner'][0]
    return e


def qtype(e):
    return e.get('type', {}).get('qualType', '')


def ltype(qt):
    qt = qt.replace('const ', '').strip()
    if qt in ('double', 'float', 'long double'):
        return 'D'
    if qt == 'bool':
        return 'Bool'
    if qt in ('int', 'unsigned int', 'long', 'unsigned long', 'size_t', 'std::size_t') or 'CtxVal' in qt:
        return 'Nat'
    if 'char *' in qt:
        return 'Nm'
    return None


class Sym:
    """symbolic executor of one function body -> Lean term"""

    def __init__(self, spec):
        self.spec = spec
        self.n = 0
        self.used = []          # opaque parameters actually met, in order of first use

    def fresh(self, base):
        self.n += 1
        return '%s_%d' % (re.sub(r'\W', '', base) or 'v', self.n)

    def opaque(self, key, e):
        m = self.spec.get('opaque', {})
        if key not in m:
            raise TranslateError('%s: call/expression `%s` is not in the list of abstracted operands' % (self.spec['lean'], key))
        nm = m[key]
        if nm not in self.used:
            self.used.append(nm)
        return nm

    # ---- expressions: returns (lean term, env, [let lines])
    def ev(self, e, env):
        e = strip(e)
        k = e.get('kind')
        if k == 'FloatingLiteral':
            v = e['value']
            from fractions import Fraction
            q = Fraction(float(v))
            if q.denominator == 1:
                return '(D.ofInt %d)' % q.numerator, env, []
            return '(D.fin ((%d : Rat) / %d))' % (q.numerator, q.denominator), env, []
        if k == 'IntegerLiteral':
            return str(int(e['value'])), env, []
        if k == 'CXXBoolLiteralExpr':
            return ('true' if e['value'] else 'false'), env, []
        if k == 'DeclRefExpr':
            nm = e['referencedDecl']['name']
            if e['referencedDecl'].get('kind') == 'EnumConstantDecl':
                raise TranslateError('enum constant outside a case label: ' + nm)
            if nm in env:
                return env[nm], env, []
            raise TranslateError('%s: unknown variable %s' % (self.spec['lean'], nm))
        if k == 'MemberExpr' and strip(e['inner'][0]).get('kind') == 'DeclRefExpr':
            key = '%s.%s' % (strip(e['inner'][0])['referencedDecl']['name'], e['name'])
            if key in env:
                return env[key], env, []
            raise TranslateError('%s: member access %s' % (self.spec['lean'], key))
        if k == 'MemberExpr' and strip(e['inner'][0]).get('kind') == 'CXXThisExpr':
            nm = e['name']
            if nm in env:
                return env[nm], env, []
            raise TranslateError('%s: unknown member %s' % (self.spec['lean'], nm))
        if k == 'CStyleCastExpr' and e.get('castKind') == 'NoOp' and self.spec.get('int_as_int') \
                and e['inner'][0].get('kind') == 'ImplicitCastExpr' and e['inner'][0].get('castKind') == 'IntegralToFloating':
            return self.ev(e['inner'][0], env)        # (double)<int expression>
        if k in ('ImplicitCastExpr', 'CXXFunctionalCastExpr'):
            t, env, L = self.ev(e['inner'][0], env)
            ck = e.get('castKind')
            src = ltype(qtype(strip(e['inner'][0])))
            if ck == 'IntegralToFloating' and self.spec.get('int_as_int') and src == 'Nat':
                return '(D.ofInt %s)' % t, env, L
            if ck == 'IntegralToFloating':
                ptypes = {(p[2] if len(p) > 2 else p[0]): p[1] for p in self.spec.get('params', [])}
                if ptypes.get(t) == 'Int':
                    return '(D.ofInt %s)' % t, env, L
                return ('(D.ofBool %s)' % t if src == 'Bool' else '(D.ofNat %s)' % t), env, L
            if ck == 'IntegralToBoolean':
                return '(%s != 0)' % t, env, L
            raise TranslateError('cast ' + str(ck))
        if k == 'UnaryOperator':
            op = e['opcode']
            if op in ('++', '--') and not e.get('isPostfix'):
                tgt = strip(e['inner'][0])
                nm = tgt.get('name') or tgt['referencedDecl']['name']
                t, env, L = self.ev(tgt, env)
                v = self.fresh(nm)
                env = dict(env); env[nm] = v
                if ltype(qtype(tgt)) == 'D':
                    if op != '++':
                        raise TranslateError('-- on a double')
                    return v, env, L + ['let %s := D.add %s (D.ofInt 1)' % (v, t)]
                return v, env, L + ['let %s := %s %s 1' % (v, t, '+' if op == '++' else '-')]
            t, env, L = self.ev(e['inner'][0], env)
            ty = ltype(qtype(e))
            if op == '-' and ty == 'Nat' and is_int(t):
                return str(-int(t)), env, L
            if op == '!':
                return '(!%s)' % self.as_bool(t, strip(e['inner'][0])), env, L
            if op == '-' and ty == 'D':
                return '(D.neg %s)' % t, env, L
            raise TranslateError('unary ' + op)
        if k == 'CallExpr':
            callee = strip(e['inner'][0])
            nm = callee.get('referencedDecl', {}).get('name')
            if nm is None and callee.get('kind') == 'CXXDependentScopeMemberExpr':
                nm = callee.get('member')          # uninstantiated template pattern: member call on a dependent object
            args = e['inner'][1:]
            if nm in ('fabs', 'abs') and len(args) == 1:
                t, env, L = self.ev(args[0], env)
                return '(D.abs %s)' % t, env, L
            if nm in ('max', 'min') and len(args) == 2:
                a, env, L1 = self.ev(args[0], env)
                b, env, L2 = self.ev(args[1], env)
                if ltype(qtype(e)) == 'Nat':
                    if not self.spec.get('int_as_int'):
                        raise TranslateError('integer max/min')
                    return '(%s (%s : Int) %s)' % (nm, a, b), env, L1 + L2
                return '(D.%s %s %s)' % (nm + "'", a, b), env, L1 + L2
            if nm in ('__builtin_inff', '__builtin_inf', '__builtin_huge_val', '__builtin_huge_valf'):
                return 'D.pinf', env, []
            if nm == 'pow' and len(args) == 2 and strip(args[0]).get('kind') == 'FloatingLiteral' and float(strip(args[0])['value']) == 10.0:
                t, env, L = self.ev(args[1], env)
                return '(D.pow10 %s)' % t, env, L
            if nm == 'round' and len(args) == 1:
                t, env, L = self.ev(args[0], env)
                return '(D.round %s)' % t, env, L
            if nm == 'ceil' and len(args) == 1:
                # only the composition ceil(log10(fabs(v))) has a meaning here: the decimal exponent of |v|
                a1 = strip(args[0])
                n1 = strip(a1['inner'][0]).get('referencedDecl', {}).get('name') if a1.get('kind') == 'CallExpr' else None
                a2 = strip(a1['inner'][1]) if n1 == 'log10' else None
                n2 = strip(a2['inner'][0]).get('referencedDecl', {}).get('name') if a2 is not None and a2.get('kind') == 'CallExpr' else None
                if n1 != 'log10' or n2 not in ('fabs', 'abs'):
                    raise TranslateError('%s: ceil(..) is not applied to log10(fabs(..))' % self.spec['lean'])
                t, env, L = self.ev(a2['inner'][1], env)
                return '(D.ceilLog10Abs %s)' % t, env, L
            if nm in self.spec.get('calls', {}):
                # call of another translated function: arguments translated in order
                ts, L = [], []
                for a in args:
                    if ltype(qtype(strip(a))) is None:
                        continue                 # opaque object argument (e.g. x, *this)
                    t, env, l = self.ev(a, env)
                    ts.append(t); L += l
                return '(%s %s)' % (self.spec['calls'][nm], ' '.join(ts)), env, L
            return self.opaque(nm, e), env, []
        if k == 'CXXMemberCallExpr':
            me = strip(e['inner'][0])
            nm = me.get('name')
            if nm in self.spec.get('mcalls', {}):
                lean, pre = self.spec['mcalls'][nm]
                ts, L = list(pre), []
                for a in e['inner'][1:]:
                    if ltype(qtype(strip(a))) is None:
                        continue
                    t, env, l = self.ev(a, env)
                    ts.append(t); L += l
                ts = [env.get(t[1:], t) if t.startswith('$') else t for t in ts]
                return '(%s %s)' % (lean, ' '.join(ts)), env, L
            return self.opaque(nm, e), env, []
        if k == 'CXXOperatorCallExpr':
            callee = strip(e['inner'][0])
            nm = callee.get('referencedDecl', {}).get('name')
            if nm == 'operator[]':
                idx = strip(e['inner'][2])
                base = strip(e['inner'][1])
                if base.get('kind') == 'UnaryOperator' and base.get('opcode') == '*' and strip(base['inner'][0]).get('kind') == 'CXXThisExpr':
                    bname = 'this'
                else:
                    bname = base.get('name') or base.get('referencedDecl', {}).get('name') or '?'
                # the abstracted operand is named by the indexed object AND the index: (*this)[i], lb_[i], ub_[i], x_[i] differ
                iname = idx.get('referencedDecl', {}).get('name') or idx.get('name')
                if iname is None and idx.get('kind') == 'CXXOperatorCallExpr' and len(idx.get('inner', [])) == 3 \
                        and strip(idx['inner'][0]).get('referencedDecl', {}).get('name') == 'operator[]':
                    # x[con.GetArguments()[k]]: the k-th argument variable's value
                    src = strip(idx['inner'][1])
                    getter = strip(src['inner'][0]).get('name') if src.get('kind') == 'CXXMemberCallExpr' else None
                    pos = strip(idx['inner'][2])
                    if getter == 'GetArguments' and pos.get('kind') == 'IntegerLiteral':
                        iname = 'arg%d' % int(pos['value'])
                    elif getter == 'GetArguments' and pos.get('kind') == 'ConditionalOperator':
                        a, b = strip(pos['inner'][1]), strip(pos['inner'][2])
                        if a.get('kind') != 'IntegerLiteral' or b.get('kind') != 'IntegerLiteral':
                            raise TranslateError('%s: argument position chosen by ?: between non-literals' % self.spec['lean'])
                        c, env, L0 = self.ev(pos['inner'][0], env)
                        ta = self.opaque('%s[arg%d]' % (bname, int(a['value'])), e)
                        tb = self.opaque('%s[arg%d]' % (bname, int(b['value'])), e)
                        return '(if %s then %s else %s)' % (self.as_bool(c, strip(pos['inner'][0])), ta, tb), env, L0
                key = '%s[%s]' % (bname, iname or '?')
                return self.opaque(key, e), env, []
            raise TranslateError('operator call ' + str(nm))
        if k == 'BinaryOperator':
            op = e['opcode']
            if op == '=':
                tgt = strip(e['inner'][0])
                nm = tgt.get('name') or tgt['referencedDecl']['name']
                t, env, L = self.ev(e['inner'][1], env)
                v = self.fresh(nm)
                env = dict(env); env[nm] = v
                return v, env, L + ['let %s := %s' % (v, t)]
            if op in ('&&', '||'):
                # inside a value position: only without side effects
                a, env, L1 = self.ev(e['inner'][0], env)
                b, env2, L2 = self.ev(e['inner'][1], env)
                if L2 or env2 is not env and env2 != env:
                    raise TranslateError('side effect in the right operand of %s used as a value' % op)
                return '(%s %s %s)' % (a, op, b), env, L1
            a, env, L1 = self.ev(e['inner'][0], env)
            b, env, L2 = self.ev(e['inner'][1], env)
            ta = ltype(qtype(strip(e['inner'][0])))
            tb = ltype(qtype(strip(e['inner'][1])))
            t = 'D' if 'D' in (ta, tb) else ta
            L = L1 + L2
            if t == 'D':
                f = {'+': 'D.add', '-': 'D.sub', '*': 'D.mul', '/': 'D.div', '<': 'D.lt', '>': 'D.gt', '<=': 'D.le', '>=': 'D.ge',
                     '==': 'D.eq', '!=': 'D.ne'}.get(op)
                if f is None:
                    raise TranslateError('double operator ' + op)
                return '(%s %s %s)' % (f, a, b), env, L
            if t == 'Nat' and is_int(a) and is_int(b) and op in ('<', '>', '<=', '>=', '==', '!='):
                r = {'<': int(a) < int(b), '>': int(a) > int(b), '<=': int(a) <= int(b), '>=': int(a) >= int(b),
                     '==': int(a) == int(b), '!=': int(a) != int(b)}[op]
                return ('true' if r else 'false'), env, L
            if t == 'Nat':
                f = {'+': '+', '*': '*', '&': '&&&', '|': '|||', '<': '<', '>': '>', '<=': '≤', '>=': '≥', '==': '==', '!=': '!='}.get(op)
                if op == '-' and self.spec.get('int_as_int'):
                    f = "-"
                if f is None:
                    raise TranslateError('integer operator ' + op)
                if op in ('<', '>', '<=', '>='):
                    return '(decide (%s %s %s))' % (a, f, b), env, L
                return '(%s %s %s)' % (a, f, b), env, L
            if t == 'Bool':
                f = {'==': '==', '!=': '!=', '<=': None, '>=': None}.get(op, 0)
                if op == '<=':
                    return '(!%s || %s)' % (a, b), env, L       # bool <= bool
                if op == '>=':
                    return '(%s || !%s)' % (a, b), env, L
                if f:
                    return '(%s %s %s)' % (a, f, b), env, L
            raise TranslateError('binary %s on %s' % (op, t))
        if k == 'CompoundAssignOperator':
            op = e['opcode']
            tgt = strip(e['inner'][0])
            nm = tgt.get('name') or tgt['referencedDecl']['name']
            a, env, L1 = self.ev(tgt, env)
            b, env, L2 = self.ev(e['inner'][1], env)
            f = {'|=': '|||', '&=': '&&&', '+=': '+'}.get(op)
            if f is None or ltype(qtype(tgt)) != 'Nat':
                raise TranslateError('compound assignment ' + op)
            v = self.fresh(nm)
            env = dict(env); env[nm] = v
            return v, env, L1 + L2 + ['let %s := %s %s %s' % (v, a, f, b)]
        if k == 'ConditionalOperator':
            c, env, L0 = self.ev(e['inner'][0], env)
            a, env1, L1 = self.ev(e['inner'][1], env)
            b, env2, L2 = self.ev(e['inner'][2], env)
            if L1 or L2:
                raise TranslateError('side effect inside ?:')
            if c in ('true', 'false'):
                return (a if c == 'true' else b), env, L0
            return '(if %s then %s else %s)' % (self.as_bool(c, strip(e['inner'][0])), a, b), env, L0
        if k in ('InitListExpr', 'CXXConstructExpr', 'CXXTemporaryObjectExpr'):
            ts, L = [], []
            for a in e.get('inner', []):
                t, env, l = self.ev(a, env)
                ts.append(t); L += l
            if len(ts) == 1:
                return ts[0], env, L
            return '(' + ', '.join(ts) + ')', env, L
        return self.bad(e)

    def bad(self, e):
        raise TranslateError('%s: cannot translate %s %s' % (self.spec['lean'], e.get('kind'), json.dumps(e.get('range', {}).get('begin', {}))[:80]))

    def as_bool(self, t, e):
        ty = ltype(qtype(e))
        ptypes = {(p[2] if len(p) > 2 else p[0]): p[1] for p in self.spec.get('params', [])}
        if ty is None and t in ptypes:
            ty = ptypes[t]
        if ty == 'Nat':
            return '(%s != 0)' % t
        return t

    # ---- conditions with short-circuit side effects, continuation style
    def cond(self, e, env, kt, kf):
        e = strip(e)
        if e.get('kind') == 'BinaryOperator' and e['opcode'] == '&&':
            return self.cond(e['inner'][0], env, lambda en: self.cond(e['inner'][1], en, kt, kf), kf)
        if e.get('kind') == 'BinaryOperator' and e['opcode'] == '||':
            return self.cond(e['inner'][0], env, kt, lambda en: self.cond(e['inner'][1], en, kt, kf))
        if e.get('kind') == 'UnaryOperator' and e['opcode'] == '!' and ltype(qtype(strip(e['inner'][0]))) == 'Bool':
            return self.cond(e['inner'][0], env, kf, kt)
        t, env2, L = self.ev(e, env)
        t = self.as_bool(t, e)
        return self.lets(L) + 'if %s then\n%s\nelse\n%s' % (t, ind(kt(env2)), ind(kf(env2)))

    @staticmethod
    def lets(L):
        return ''.join(l + '\n' for l in L)

    # ---- statements
    def block(self, stmts, env, rest_k):
        """stmts: list of statement nodes; rest_k(env): term for falling off the end"""
        if not stmts:
            return rest_k(env)
        s, tail = stmts[0], stmts[1:]
        k = s.get('kind')
        cont = lambda en: self.block(tail, en, rest_k)
        if k == 'CompoundStmt':
            return self.block(s.get('inner', []), env, cont)
        if k == 'NullStmt':
            return cont(env)
        if k in ('CStyleCastExpr', 'CXXStaticCastExpr', 'ParenExpr') and qtype(s) == 'void':
            return cont(env)          # assert(...) under NDEBUG: ((void)0)
        if k == 'DeclStmt':
            L = []
            env = dict(env)
            for d in s.get('inner', []):
                if d.get('kind') != 'VarDecl':
                    raise TranslateError('declaration ' + str(d.get('kind')))
                init = [c for c in d.get('inner', []) if c.get('kind') not in ('FullComment',)]
                if not init:
                    raise TranslateError('uninitialised local ' + d['name'])
                ty = ltype(qtype(d))
                if d['name'] in self.spec.get('skip_locals', ()):
                    continue
                if d['name'] in self.spec.get('record_locals', {}):
                    # a local struct filled by an abstracted call: its fields are parameters
                    callee = [m.get('name') for m, _ in walk(init[0]) if m.get('kind') == 'MemberExpr']
                    want = self.spec['record_locals'][d['name']]
                    if want['callee'] not in callee:
                        raise TranslateError('%s: local %s is no longer initialised by %s' % (self.spec['lean'], d['name'], want['callee']))
                    for fld, par in want['fields'].items():
                        env['%s.%s' % (d['name'], fld)] = par
                    continue
                if ty is None:
                    raise TranslateError('%s: local %s of type %s' % (self.spec['lean'], d['name'], qtype(d)))
                t, env, l = self.ev(init[0], env)
                v = self.fresh(d['name'])
                if ty == 'Nat' and self.spec.get('int_as_int'):
                    t = '(%s : Int)' % t
                L += l + ['let %s := %s' % (v, t)]
                env = dict(env); env[d['name']] = v
            return self.lets(L) + cont(env)
        if k == 'ReturnStmt':
            if not s.get('inner'):
                return rest_k(env)
            t, env, L = self.ev(s['inner'][0], env)
            if ltype(qtype(strip(s['inner'][0]))) == 'Bool' and self.spec.get('ret') == 'D':
                t = '(D.ofBool %s)' % t
            return self.lets(L) + (self.ret_wrap(t) if getattr(self, 'ret_wrap', None) else t)
        if k == 'CXXForRangeStmt':
            return self.range_for(s, env, cont)
        if k == 'ForStmt':
            return self.index_for(s, env, cont)
        if k == 'IfStmt':
            parts = s['inner']
            c, th = parts[0], parts[1]
            el = parts[2] if len(parts) > 2 else None
            return self.cond(c, env, lambda en: self.block([th], en, cont),
                             lambda en: (self.block([el], en, cont) if el is not None else cont(en)))
        if k == 'SwitchStmt':
            sel, env, L = self.ev(s['inner'][0], env)
            body = s['inner'][1]
            cases, cur = [], None
            for c in body.get('inner', []):
                node = c
                labels = []
                while node.get('kind') in ('CaseStmt', 'DefaultStmt'):
                    if node['kind'] == 'CaseStmt':
                        ce = node['inner'][0]
                        val = ce.get('value') if ce.get('kind') == 'ConstantExpr' else strip(ce).get('value')
                        if val is None:
                            raise TranslateError('case label without a constant value')
                        labels.append(int(val))
                        node = node['inner'][-1]
                    else:
                        labels.append(None)
                        node = node['inner'][-1]
                if labels:
                    cur = [labels, [node]]
                    cases.append(cur)
                elif cur is not None:
                    cur[1].append(node)
                else:
                    raise TranslateError('statement before the first case label')
            default = None
            out = self.lets(L)
            chain = []
            if is_int(sel):                    # switch on a template constant: select the case statically
                for labels, stmts in cases:
                    if int(sel) in [l for l in labels if l is not None]:
                        return out + self.block(stmts, env, lambda en: 'unreachable')
                for labels, stmts in cases:
                    if None in labels:
                        return out + self.block(stmts, env, lambda en: 'unreachable')
                raise TranslateError('switch on constant %s: no matching case' % sel)
            for labels, stmts in cases:
                if not self.ends_with_return(stmts):
                    raise TranslateError('%s: switch case without return (fall-through/break not supported)' % self.spec['lean'])
                term = self.block(stmts, env, lambda en: 'unreachable')
                if None in labels:
                    default = term
                reals = [l for l in labels if l is not None]
                if reals:
                    chain.append((' || '.join('%s == %d' % (sel, l) for l in reals), term))
            if default is None:
                default = cont(env)
            res = default
            for cnd, term in reversed(chain):
                res = 'if %s then\n%s\nelse\n%s' % (cnd, ind(term), ind(res))
            return out + res
        if k in ('BinaryOperator', 'CompoundAssignOperator', 'UnaryOperator', 'ExprWithCleanups', 'CXXMemberCallExpr', 'ParenExpr'):
            t, env, L = self.ev(s, env)
            return self.lets(L) + cont(env)
        raise TranslateError('%s: statement %s' % (self.spec['lean'], k))

    def range_for(self, s, env, cont):
        """`for (auto i : con.GetArguments()) body` where the body reads only x[i]: a left fold over the list `xs` of the argument
        values, with the assigned locals as state and `return` inside the body as an early exit (Sum.inl)"""
        parts = [c for c in s.get('inner', [])]
        rng = [c for c in parts if c.get('kind') == 'DeclStmt' and c['inner'][0].get('name', '').startswith('__range')]
        if not rng or 'GetArguments' not in [m.get('name') for m, _ in walk(rng[0])]:
            raise TranslateError('%s: range-for over something else than GetArguments()' % self.spec['lean'])
        body = parts[-1]
        lv = parts[-2]['inner'][0]['name']
        if getattr(self, 'ret_wrap', None):
            raise TranslateError('nested loops')
        # state: locals of the enclosing scope assigned in the body
        assigned = []
        for n, _ in walk(body):
            if (n.get('kind') == 'BinaryOperator' and n.get('opcode') == '=') or (n.get('kind') == 'UnaryOperator' and n.get('opcode') in ('++', '--')) \
                    or n.get('kind') == 'CompoundAssignOperator':
                tgt = strip(n['inner'][0])
                nm = tgt.get('referencedDecl', {}).get('name')
                if nm is None or nm not in env:
                    raise TranslateError('%s: assignment to a non-local inside a loop' % self.spec['lean'])
                if nm not in assigned:
                    assigned.append(nm)
        if len(assigned) > 1:
            raise TranslateError('%s: more than one loop-carried local' % self.spec['lean'])
        xs = self.opaque('args', s)
        xi = self.opaque('x[%s]' % lv, s)
        return self._fold(body, env, cont, assigned, xs, self.spec.get('elem_name') or xi, self.spec.get('elem_ty', 'D'))

    def _fold(self, body, env, cont, assigned, xs, xi, elem_ty):
        benv = dict(env)
        st_ty, st_pat, st_init = 'Unit', '()', '()'
        if assigned:
            st_ty = self.spec.get('state_ty', 'D')
            st_pat, st_init = 'st', env[assigned[0]]
            benv[assigned[0]] = 'st'
        self.ret_wrap = lambda t: '(Sum.inl %s)' % t
        try:
            bterm = self.block([body], benv, lambda en: '(Sum.inr %s)' % (en[assigned[0]] if assigned else '()'))
        finally:
            self.ret_wrap = None
        res = self.fresh('loop')
        rty = self.spec.get('loop_ret_ty', 'D')
        out = 'match List.foldl (fun (acc : Sum (%s) %s) (%s : %s) => match acc with\n    | Sum.inl r => Sum.inl r\n    | Sum.inr %s =>\n%s) (Sum.inr %s) %s with\n' % (
            rty, st_ty, xi, elem_ty, st_pat, ind(ind(ind(bterm))), st_init, xs)
        env2 = dict(env)
        if assigned:
            env2[assigned[0]] = res
        out += '| Sum.inl r => r\n| Sum.inr %s =>\n%s' % (res if assigned else '_', ind(cont(env2)))
        return out

    def assigned_locals(self, body, env):
        assigned = []
        for n, _ in walk(body):
            if (n.get('kind') == 'BinaryOperator' and n.get('opcode') == '=') or (n.get('kind') == 'UnaryOperator' and n.get('opcode') in ('++', '--')) \
                    or n.get('kind') == 'CompoundAssignOperator':
                tgt = strip(n['inner'][0])
                nm = tgt.get('referencedDecl', {}).get('name')
                if nm is None or nm not in env:
                    raise TranslateError('%s: assignment to a non-local inside a loop' % self.spec['lean'])
                if nm not in assigned:
                    assigned.append(nm)
        if len(assigned) > 1:
            raise TranslateError('%s: more than one loop-carried local' % self.spec['lean'])
        return assigned

    def index_for(self, s, env, cont):
        """`for (int i = (int)v.size(); i--; ) body` (or `--i`: index 0 left out) where the body reads the i-th element only through
        the abstracted per-element operands (never `i` itself): a left fold over the REVERSED list of per-element operands"""
        parts = s.get('inner', [])
        if len(parts) != 5 or parts[0].get('kind') != 'DeclStmt' or parts[1] or parts[3]:
            raise TranslateError('%s: for statement of another shape' % self.spec['lean'])
        vd = parts[0]['inner'][0]
        iv = vd['name']
        if 'size' not in [m.get('name') for m, _ in walk(vd)]:
            raise TranslateError('%s: loop index not initialised with size()' % self.spec['lean'])
        c = strip(parts[2])
        while c.get('kind') == 'ImplicitCastExpr':
            c = strip(c['inner'][0])
        if c.get('kind') != 'UnaryOperator' or c.get('opcode') != '--' or strip(c['inner'][0]).get('referencedDecl', {}).get('name') != iv:
            raise TranslateError('%s: loop condition is not a decrement of the index' % self.spec['lean'])
        post = bool(c.get('isPostfix'))
        if getattr(self, 'ret_wrap', None):
            raise TranslateError('nested loops')
        body = parts[4]
        assigned = self.assigned_locals(body, env)
        els = self.opaque('elements', s)
        el = self.opaque('element', s)
        xs = '(List.reverse %s)' % els if post else '(List.reverse (List.drop 1 %s))' % els
        return self._fold(body, env, cont, assigned, xs, el, self.spec.get('elem_ty', 'D'))

    @staticmethod
    def ends_with_return(stmts):
        if not stmts:
            return False
        s = stmts[-1]
        if s.get('kind') == 'ReturnStmt':
            return True
        if s.get('kind') == 'CompoundStmt':
            return Sym.ends_with_return(s.get('inner', []))
        return False


def is_int(t):
    return re.fullmatch(r'-?\d+', str(t)) is not None


def ind(t):
    return '\n'.join('  ' + l for l in t.split('\n'))


# ------------------------------------------------------------------------------------------------ what to translate
def find_fn(docs, name, pred):
    hits = []
    for d in docs:
        for n, path in walk(d):
            if n.get('kind') in ('CXXMethodDecl', 'FunctionDecl') and n.get('name') == name and body_of(n) is not None and pred(n, path):
                hits.append(n)
    return hits


def concrete(n, path):
    qt = qtype(n)
    return 'VarInfoImpl' in qt or 'VarVec' not in qt and 'VarInfo' not in qt


def emit_def(spec, fn, state_out=None, stmts=None):
    sym = Sym(spec)
    env = {}
    params = []
    for p in spec['params']:
        env[p[0]] = p[2] if len(p) > 2 else p[0]
    for c in fn.get('inner', []):
        if c.get('kind') == 'ParmVarDecl' and c.get('name') and ltype(qtype(c)) and c['name'] not in env:
            if c['name'] in spec.get('cparams', ()):
                env[c['name']] = c['name']
    body = stmts if stmts is not None else [body_of(fn)]
    end = (lambda en: '(' + ', '.join(en[s] for s in state_out) + ')') if state_out else (lambda en: 'unreachable')
    term = sym.block(body, env, end)
    if 'unreachable' in term:
        raise TranslateError('%s: control can fall off the end of the function' % spec['lean'])
    sig = ' '.join('(%s : %s)' % (p[2] if len(p) > 2 else p[0], p[1]) for p in spec['params'])
    # every declared abstract operand must have been met (else the function changed shape)
    for key, nm in spec.get('opaque', {}).items():
        if nm not in sym.used and not spec.get('optional_opaque'):
            raise TranslateError('%s: abstracted operand `%s` no longer occurs in the function' % (spec['lean'], key))
    return '/-- generated from `%s` -/\ndef %s %s : %s :=\n%s\n' % (spec['cxx'], spec['lean'], sig, spec['ret'], ind(term))


def const_int(e):
    """value of an integer constant expression made of literals, +, |, <<"""
    e = strip(e)
    k = e.get('kind')
    if k == 'IntegerLiteral':
        return int(e['value'])
    if k == 'BinaryOperator' and e['opcode'] in ('+', '|', '<<', '*'):
        a, b = const_int(e['inner'][0]), const_int(e['inner'][1])
        return {'+': a + b, '|': a | b, '<<': a << b, '*': a * b}[e['opcode']]
    raise TranslateError('not an integer constant expression: ' + str(k))


def mode_masks(docs):
    """the integer constants combined with sol_check_mode()/check_mode() in CheckSolution / DoCheckSol / ComputeViolations"""
    out = {}
    fns = {}
    for d in docs:
        for n, path in walk(d):
            if n.get('kind') == 'CXXMethodDecl' and n.get('name') in ('CheckSolution', 'DoCheckSol') and body_of(n) is not None:
                fns.setdefault(n['name'], n)
    for need in ('CheckSolution', 'DoCheckSol'):
        if need not in fns:
            raise TranslateError('SolutionChecker::%s not found' % need)

    def uses(n, callee):
        return any(m.get('kind') in ('MemberExpr', 'DeclRefExpr', 'CXXDependentScopeMemberExpr') and
                   (m.get('name') == callee or m.get('member') == callee or m.get('referencedDecl', {}).get('name') == callee)
                   for m, _ in walk(n))
    cs = []
    for n, path in walk(body_of(fns['CheckSolution'])):
        if n.get('kind') == 'BinaryOperator' and n['opcode'] == '&' and uses(n['inner'][0], 'sol_check_mode'):
            cs.append(const_int(n['inner'][1]))
    if len(cs) != 2:
        raise TranslateError('CheckSolution: expected two tests of sol_check_mode() against a mask, found %d' % len(cs))
    out['realMask'], out['idealMask'] = cs
    ds, sh = [], []
    for n, path in walk(body_of(fns['DoCheckSol'])):
        if n.get('kind') == 'BinaryOperator' and n['opcode'] == '&' and uses(n['inner'][0], 'check_mode'):
            ds.append(const_int(n['inner'][1]))
        if n.get('kind') == 'BinaryOperator' and n['opcode'] == '>>' and uses(n['inner'][0], 'sol_check_mode'):
            sh.append(const_int(n['inner'][1]))
    if len(ds) != 3 or len(sh) != 1:
        raise TranslateError('DoCheckSol: expected three check_mode() bit tests and one shift, found %s / %s' % (ds, sh))
    out['varsBit'], out['consMask'], out['objBit'] = ds
    out['idealShift'] = sh[0]
    # code raised under sol:chk:fail: the MP_RAISE_WITH_CODE(int(sol::MP_SOLUTION_CHECK), ..) in CheckSolution
    codes = []
    for n, path in walk(body_of(fns['CheckSolution'])):
        if n.get('kind') == 'DeclRefExpr' and n.get('referencedDecl', {}).get('name') == 'MP_SOLUTION_CHECK':
            codes.append(n)
    if not codes:
        raise TranslateError('CheckSolution no longer refers to sol::MP_SOLUTION_CHECK')
    return out


def enum_value(docs, name):
    for d in docs:
        for n, path in walk(d):
            if n.get('kind') == 'EnumDecl' and any(c.get('kind') == 'EnumConstantDecl' and c.get('name') == name for c in n.get('inner', [])):
                cur = -1
                for c in n['inner']:
                    if c.get('kind') != 'EnumConstantDecl':
                        continue
                    val = None
                    for m, _ in walk(c):
                        if m.get('kind') == 'ConstantExpr' and 'value' in m:
                            val = int(m['value'])
                            break
                    cur = val if val is not None else cur + 1
                    if c['name'] == name:
                        return cur
    for d in docs:
        for n, path in walk(d):
            if n.get('kind') == 'EnumConstantDecl' and n.get('name') == name:
                for m, _ in walk(n):
                    if m.get('kind') == 'ConstantExpr' and 'value' in m:
                        return int(m['value'])
    raise TranslateError('enumerator %s not found' % name)


def class_selection(docs):
    """the statements of ConstraintKeeper<..>::ComputeViolations that compute c_class, the mode test and the slot index"""
    fn = None
    for d in docs:
        for n, path in walk(d):
            if n.get('kind') == 'CXXMethodDecl' and n.get('name') == 'ComputeViolations' and body_of(n) is not None \
                    and any(p.get('kind') in ('ClassTemplateDecl', 'ClassTemplateSpecializationDecl', 'CXXRecordDecl') and p.get('name') == 'ConstraintKeeper' for p in path):
                fn = n
                break
        if fn:
            break
    if fn is None:
        raise TranslateError('ConstraintKeeper::ComputeViolations not found')
    # locate `int c_class = 0;` and the compound statement containing it
    for n, path in walk(body_of(fn)):
        if n.get('kind') == 'DeclStmt' and any(c.get('kind') == 'VarDecl' and c.get('name') == 'c_class' for c in n.get('inner', [])):
            parent = path[-1]
            sts = parent['inner']
            i = sts.index(n)
            seq = sts[i:]
            # expected: decl, if, if, if, if (c_class & mode) {...}
            if len(seq) != 5 or any(s.get('kind') != 'IfStmt' for s in seq[1:]):
                raise TranslateError('ComputeViolations: unexpected statement sequence after `int c_class`: %s' % [s.get('kind') for s in seq])
            last = seq[4]
            idx = None
            for m, p2 in walk(last):
                if m.get('kind') == 'VarDecl' and m.get('name') == 'index':
                    idx = m
            if idx is None:
                raise TranslateError('ComputeViolations: `int index = ...` not found')
            return fn, seq, idx
    raise TranslateError('ComputeViolations: `int c_class` not found')


def structure(docs_eval, docs_viol):
    """constraint types with a ComputeValue overload in constr_eval.h; functions named ComputeViolation* (where defined)"""
    vals = set()
    for d in docs_eval:
        for n, path in walk(d):
            if n.get('kind') in ('FunctionTemplateDecl',) and n.get('name') == 'ComputeValue':
                for c in n.get('inner', []):
                    if c.get('kind') == 'FunctionDecl':
                        ps = [p for p in c.get('inner', []) if p.get('kind') == 'ParmVarDecl']
                        if ps:
                            t = qtype(ps[0]).replace('const ', '').replace('&', '').replace('mp::', '').strip()
                            if 'type-parameter' in t or t in ('Con',):
                                t = 'GENERIC(' + t + ')'
                            vals.add(t)
                        break
    viols = set()
    for d in docs_viol:
        for n, path in walk(d):
            if n.get('kind') in ('FunctionTemplateDecl', 'CXXMethodDecl', 'FunctionDecl') and str(n.get('name', '')).startswith('ComputeViolation'):
                owner = [p.get('name') for p in path if p.get('kind') in ('CXXRecordDecl', 'ClassTemplateDecl') and p.get('name')]
                first = ''
                fd = n
                if n['kind'] == 'FunctionTemplateDecl':
                    fd = next((c for c in n.get('inner', []) if c.get('kind') in ('FunctionDecl', 'CXXMethodDecl')), n)
                ps = [p for p in fd.get('inner', []) if p.get('kind') == 'ParmVarDecl']
                if not owner and ps:
                    first = qtype(ps[0]).replace('const ', '').replace('&', '').replace('mp::', '').strip()
                    first = re.sub(r'<.*', '', first)
                viols.add('%s::%s' % (owner[-1], n['name']) if owner else '%s(%s)' % (n['name'], first))
    return sorted(vals), sorted(viols)


SPECS = {}


def main(repo, out, work):
    os.makedirs(work, exist_ok=True)
    tu = os.path.join(work, 'solcheck_inst.cc')
    open(tu, 'w').write(TU)
    inc = [os.path.join(repo, 'include')]
    # unchanged preprocessed source => unchanged output (the nine AST dumps cost ~10 s)
    import hashlib
    h = hashlib.sha256(open(__file__, 'rb').read())
    for t in (tu, tu_with_solcheck(work)):
        pr = subprocess.run(['clang++-14', '-std=gnu++17', '-E', '-P', '-w', '-I', inc[0], t], capture_output=True, text=True)
        if pr.returncode != 0:
            raise TranslateError('preprocessing failed: ' + pr.stderr[:500])
        h.update(pr.stdout.encode())
    stamp = os.path.join(work, 'solcheck.stamp')
    key = h.hexdigest()
    if os.path.exists(out) and os.path.exists(stamp):
        st = open(stamp).read().split('\n')
        if st[0] == key and len(st) > 1 and st[1] == hashlib.sha256(open(out, 'rb').read()).hexdigest():
            print('gen_solcheck: source unchanged since the last translation, %s kept' % os.path.basename(out))
            return 0

    def dump(filt):
        return clang_dump(tu, filt, inc)
    D = {}
    for f in ('Violation', 'AlgebraicConstraint', 'ConditionalConstraint', 'AlgConRhs', 'AlgConRange', 'ViolSummary', 'ConstraintKeeper',
              'ComputeValue', 'Context'):
        D[f] = dump(f)
    parts = []
    # ---- 1. Violation::Check
    fn = [n for d in D['Violation'] for n, p in walk(d) if n.get('kind') == 'CXXMethodDecl' and n.get('name') == 'Check' and body_of(n) is not None]
    if len(fn) != 1:
        raise TranslateError('Violation::Check: %d definitions' % len(fn))
    parts.append(emit_def({'cxx': 'mp::Violation::Check (constr_base.h)', 'lean': 'violationCheck', 'ret': 'Bool × D',
                           'params': [('viol_', 'D'), ('valX_', 'D'), ('epsabs', 'D'), ('epsrel', 'D')]}, fn[0]))
    # ---- 2. AlgebraicConstraint::ComputeViolation (instantiation for LinConRange)
    fns = find_fn(D['AlgebraicConstraint'], 'ComputeViolation', lambda n, p: 'VarInfoImpl' in qtype(n) and 'bool' in qtype(n))
    if not fns:
        raise TranslateError('AlgebraicConstraint::ComputeViolation instantiation not found')
    parts.append(emit_def({'cxx': 'mp::AlgebraicConstraint<Body,RhsOrRange>::ComputeViolation (constr_algebraic.h)', 'lean': 'algComputeViolation',
                           'ret': 'D × D', 'params': [('bdv', 'D'), ('lbv', 'D'), ('ubv', 'D'), ('valid', 'Bool'), ('logical', 'Bool')],
                           'opaque': {'ComputeValue': 'bdv', 'lb': 'lbv', 'ub': 'ubv', 'is_valid': 'valid'}}, fns[0]))
    # ---- 3. is_valid / lb / ub of the right-hand-side classes
    kinds = {-2: 'LT', -1: 'LE', 0: 'EQ', 1: 'GE', 2: 'GT'}
    got = {}
    for d in D['AlgConRhs']:
        for n, path in walk(d):
            if n.get('kind') == 'ClassTemplateSpecializationDecl' and n.get('name') == 'AlgConRhs':
                ta = [c for c in n.get('inner', []) if c.get('kind') == 'TemplateArgument']
                kv = None
                for m, _ in walk(ta[0]) if ta else []:
                    if 'value' in m and m.get('kind') in ('ConstantExpr', 'IntegerLiteral'):
                        kv = int(m['value']); break
                if kv is None and ta and 'value' in ta[0]:
                    kv = int(ta[0]['value'])
                if kv is None:
                    continue
                for c in n.get('inner', []):
                    if c.get('kind') == 'CXXMethodDecl' and c.get('name') in ('is_valid', 'lb', 'ub') and body_of(c) is not None:
                        got[(kv, c['name'])] = c
    for kv, nm in kinds.items():
        for mname in ('is_valid', 'lb', 'ub'):
            if (kv, mname) not in got:
                raise TranslateError('AlgConRhs<%d>::%s instantiation not found' % (kv, mname))
        # `switch (kind_)` over a template constant: clang keeps all cases; kind_ is substituted
        parts.append(emit_def({'cxx': 'mp::AlgConRhs<%d>::is_valid (constr_algebraic.h)' % kv, 'lean': 'rhsIsValid' + nm, 'ret': 'Bool',
                               'params': [('bv', 'D'), ('rhsv', 'D')], 'cparams': ('bv',), 'opaque': {'rhs': 'rhsv'}, 'kind_value': kv},
                              subst_kind(got[(kv, 'is_valid')], kv)))
        parts.append(emit_def({'cxx': 'mp::AlgConRhs<%d>::lb' % kv, 'lean': 'rhsLb' + nm, 'ret': 'D', 'params': [('rhsv', 'D')],
                               'opaque': {'rhs': 'rhsv'}, 'optional_opaque': True}, subst_kind(got[(kv, 'lb')], kv)))
        parts.append(emit_def({'cxx': 'mp::AlgConRhs<%d>::ub' % kv, 'lean': 'rhsUb' + nm, 'ret': 'D', 'params': [('rhsv', 'D')],
                               'opaque': {'rhs': 'rhsv'}, 'optional_opaque': True}, subst_kind(got[(kv, 'ub')], kv)))
    fr = [n for d in D['AlgConRange'] for n, p in walk(d) if n.get('kind') == 'CXXMethodDecl' and n.get('name') == 'is_valid' and body_of(n) is not None]
    if len(fr) != 1:
        raise TranslateError('AlgConRange::is_valid: %d definitions' % len(fr))
    parts.append(emit_def({'cxx': 'mp::AlgConRange::is_valid', 'lean': 'rangeIsValid', 'ret': 'Bool', 'params': [('bv', 'D'), ('lbv', 'D'), ('ubv', 'D')],
                           'cparams': ('bv',), 'opaque': {'lb': 'lbv', 'ub': 'ubv'}}, fr[0]))
    # ---- 4. generic functional ComputeViolation
    ff = find_fn(D['Violation'], 'ComputeViolation', lambda n, p: n.get('kind') == 'FunctionDecl' and 'VarInfoImpl' in qtype(n) and 'CustomFunctionalConstraint<std::array<int, 1>' in qtype(n))
    if not ff:
        raise TranslateError('ComputeViolation(CustomFunctionalConstraint) instantiation not found')
    fspec = {'cxx': 'mp::ComputeViolation(const CustomFunctionalConstraint<..>&, x) (constr_base.h)', 'lean': 'funcComputeViolation', 'ret': 'D × D',
             'params': [('recomp', 'Bool'), ('ctx', 'Nat'), ('xres', 'D'), ('value', 'D'), ('raw', 'D'), ('bviol', 'D')],
             'opaque': {'recomp_vals': 'recomp', 'GetValue': 'ctx', 'x[resvar]': 'xres', 'ComputeValue': 'value', 'raw': 'raw', 'bounds_viol': 'bviol'},
             'skip_locals': ('resvar',)}
    parts.append(emit_def(fspec, ff[0]))
    # ---- 5. ConditionalConstraint::ComputeViolation
    fc = find_fn(D['ConditionalConstraint'], 'ComputeViolation', lambda n, p: 'VarInfoImpl' in qtype(n))
    if not fc:
        raise TranslateError('ConditionalConstraint::ComputeViolation instantiation not found')
    parts.append(emit_def({'cxx': 'mp::ConditionalConstraint<Con>::ComputeViolation (constr_base.h)', 'lean': 'condComputeViolation', 'ret': 'D × D',
                           'params': [('recomp', 'Bool'), ('ctx', 'Nat'), ('subviol', 'D'), ('subref', 'D'), ('xres', 'D'), ('raw', 'D'), ('bviol', 'D')],
                           'opaque': {'recomp_vals': 'recomp', 'GetValue': 'ctx', 'x[?]': 'xres'},
                           'calls': {'ComputeViolation': 'funcComputeViolation recomp ctx xres (D.ofInt 0) raw bviol'},
                           'record_locals': {'viol': {'callee': 'ComputeViolation', 'fields': {'viol_': 'subviol', 'valX_': 'subref'}}}},
                          cond_prepare(fc[0])))
    # ---- 6. ViolSummary
    vs = {}
    for d in D['ViolSummary']:
        for n, p in walk(d):
            if n.get('kind') == 'CXXMethodDecl' and n.get('name') in ('CountViol', 'CheckViol') and body_of(n) is not None:
                vs[n['name']] = n
    for need in ('CountViol', 'CheckViol'):
        if need not in vs:
            raise TranslateError('ViolSummary::%s not found' % need)
    parts.append(count_viol(vs['CountViol']))
    parts.append(check_viol(vs['CheckViol']))
    # ---- 6b. round_to_digits (utils-math.h), the helper behind sol:chk:prec
    rd = find_fn(dump('round_to_digits'), 'round_to_digits', lambda n, p: 'double (double, int)' in qtype(n))
    if not rd:
        raise TranslateError('round_to_digits<double> instantiation not found')
    parts.append(emit_def({'cxx': 'mp::round_to_digits<double> (utils-math.h)', 'lean': 'roundToDigits', 'ret': 'D',
                           'params': [('value', 'D'), ('digits', 'Int')]}, rd[0]))
    # ---- 6c. VarInfoImpl<std::vector<double>>: is_at_lb / is_at_ub / is_nonzero / is_positive / bounds_viol (constr_keeper.h)
    vi = {}
    for d in dump('VarInfoImpl'):
        for n, path in walk(d):
            if n.get('kind') == 'CXXMethodDecl' and n.get('name') in ('is_at_lb', 'is_at_ub', 'is_nonzero', 'is_positive', 'bounds_viol') \
                    and body_of(n) is not None and any(p.get('kind') == 'ClassTemplateSpecializationDecl' for p in path):
                vi[n['name']] = n
    for need in ('is_at_lb', 'is_at_ub', 'is_nonzero', 'is_positive', 'bounds_viol'):
        if need not in vi:
            raise TranslateError('VarInfoImpl<..>::%s instantiation not found' % need)
    parts.append(emit_def({'cxx': 'mp::VarInfoImpl<VarVec>::is_at_lb (constr_keeper.h)', 'lean': 'isAtLb', 'ret': 'Bool',
                           'params': [('xi', 'D'), ('lbi', 'D'), ('tol', 'D')], 'opaque': {'this[i]': 'xi', 'lb_[i]': 'lbi', 'feastol': 'tol'}}, vi['is_at_lb']))
    parts.append(emit_def({'cxx': 'mp::VarInfoImpl<VarVec>::is_at_ub', 'lean': 'isAtUb', 'ret': 'Bool',
                           'params': [('xi', 'D'), ('ubi', 'D'), ('tol', 'D')], 'opaque': {'this[i]': 'xi', 'ub_[i]': 'ubi', 'feastol': 'tol'}}, vi['is_at_ub']))
    parts.append(emit_def({'cxx': 'mp::VarInfoImpl<VarVec>::is_nonzero', 'lean': 'isNonzero', 'ret': 'Bool',
                           'params': [('xi', 'D'), ('isint', 'Bool'), ('tol', 'D')], 'opaque': {'this[i]': 'xi', 'is_var_int': 'isint', 'feastol': 'tol'}}, vi['is_nonzero']))
    parts.append(emit_def({'cxx': 'mp::VarInfoImpl<VarVec>::is_positive', 'lean': 'isPositive', 'ret': 'Bool',
                           'params': [('xi', 'D'), ('isint', 'Bool'), ('tol', 'D')], 'opaque': {'this[i]': 'xi', 'is_var_int': 'isint', 'feastol': 'tol'}}, vi['is_positive']))
    parts.append(emit_def({'cxx': 'mp::VarInfoImpl<VarVec>::bounds_viol', 'lean': 'boundsViol', 'ret': 'D',
                           'params': [('lbi', 'D'), ('xi', 'D'), ('ubi', 'D')], 'opaque': {'x_[i]': 'xi', 'lb_[i]': 'lbi', 'ub_[i]': 'ubi'}}, vi['bounds_viol']))
    # ---- 6d. loop-free evaluators of constr_eval.h (instantiated for VarInfoStatic): Abs, Not, Div, IfThen, Implication
    def evalfn(ctype):
        hits = find_fn(D['ComputeValue'], 'ComputeValue', lambda n, p: n.get('kind') == 'FunctionDecl' and 'VarInfoImpl' in qtype(n) and ('const mp::%s &' % ctype) in qtype(n))
        if len(hits) != 1:
            raise TranslateError('ComputeValue(%s, VarInfoImpl) instantiation: %d found' % (ctype, len(hits)))
        return hits[0]
    parts.append(emit_def({'cxx': 'mp::ComputeValue(const AbsConstraint&, x) (constr_eval.h)', 'lean': 'evalAbs', 'ret': 'D',
                           'params': [('a0', 'D')], 'opaque': {'x[arg0]': 'a0'}}, evalfn('AbsConstraint')))
    parts.append(emit_def({'cxx': 'mp::ComputeValue(const NotConstraint&, x)', 'lean': 'evalNot', 'ret': 'D',
                           'params': [('a0', 'D')], 'opaque': {'x[arg0]': 'a0'}}, evalfn('NotConstraint')))
    parts.append(emit_def({'cxx': 'mp::ComputeValue(const DivConstraint&, x)', 'lean': 'evalDiv', 'ret': 'D',
                           'params': [('a0', 'D'), ('a1', 'D')], 'opaque': {'x[arg0]': 'a0', 'x[arg1]': 'a1'}}, evalfn('DivConstraint')))
    parts.append(emit_def({'cxx': 'mp::ComputeValue(const IfThenConstraint&, x)', 'lean': 'evalIfThen', 'ret': 'D',
                           'params': [('a0', 'D'), ('a1', 'D'), ('a2', 'D')], 'opaque': {'x[arg0]': 'a0', 'x[arg1]': 'a1', 'x[arg2]': 'a2'}}, evalfn('IfThenConstraint')))
    parts.append(emit_def({'cxx': 'mp::ComputeValue(const ImplicationConstraint&, x)', 'lean': 'evalImpl', 'ret': 'D',
                           'params': [('a0', 'D'), ('a1', 'D'), ('a2', 'D')], 'opaque': {'x[arg0]': 'a0', 'x[arg1]': 'a1', 'x[arg2]': 'a2'}}, evalfn('ImplicationConstraint')))
    # range-for evaluators: a fold over the list of argument values
    for ctype, lean in (('MaxConstraint', 'evalMax'), ('MinConstraint', 'evalMin'), ('AndConstraint', 'evalAnd'), ('OrConstraint', 'evalOr'),
                        ('CountConstraint', 'evalCount')):
        parts.append(emit_def({'cxx': 'mp::ComputeValue(const %s&, x) (constr_eval.h; range-for over the arguments as a fold)' % ctype, 'lean': lean, 'ret': 'D',
                               'params': [('xs', 'List D')], 'opaque': {'args': 'xs', 'x[i]': 'xi', 'x[v]': 'xi'}, 'optional_opaque': True}, evalfn(ctype)))
    # ---- 6e. ComplementarityConstraint / IndicatorConstraint :: ComputeViolation (constr_general.h)
    cg = dump('ComplementarityConstraint')
    fcm = find_fn(cg, 'ComputeViolation', lambda n, p: 'VarInfoImpl' in qtype(n))
    if not fcm:
        raise TranslateError('ComplementarityConstraint::ComputeViolation instantiation not found')
    parts.append(emit_def({'cxx': 'mp::ComplementarityConstraint<Expr>::ComputeViolation (constr_general.h)', 'lean': 'complComputeViolation', 'ret': 'D × D',
                           'params': [('ve', 'D'), ('atlb', 'Bool'), ('atub', 'Bool')],
                           'opaque': {'ComputeValue': 've', 'is_at_lb': 'atlb', 'is_at_ub': 'atub'}}, fcm[0]))
    fin_ = find_fn(dump('IndicatorConstraint'), 'ComputeViolation', lambda n, p: 'VarInfoImpl' in qtype(n))
    if not fin_:
        raise TranslateError('IndicatorConstraint::ComputeViolation instantiation not found')
    parts.append(emit_def({'cxx': 'mp::IndicatorConstraint<Con>::ComputeViolation (constr_general.h)', 'lean': 'indComputeViolation', 'ret': 'D × D',
                           'params': [('xb0', 'D'), ('bv_', 'Int', 'bv'), ('subviol', 'D'), ('subref', 'D')],
                           'opaque': {'x[b_]': 'xb0', 'ComputeViolation': '(subviol, subref)'}}, fin_[0]))
    # NumberofConst: range-for whose body asks x.is_var_int(v), x[v], x.feastol(): the elements are pairs (value, is-integer)
    parts.append(emit_def({'cxx': 'mp::ComputeValue(const NumberofConstConstraint&, x) (constr_eval.h; range-for as a fold over (x[v], is_var_int(v)))',
                           'lean': 'evalNumberofConst', 'ret': 'D', 'params': [('k', 'D'), ('tol', 'D'), ('xs', 'List (D × Bool)')],
                           'opaque': {'args': 'xs', 'x[v]': 'xi.1', 'is_var_int': 'xi.2', 'feastol': 'tol'}, 'skip_locals': ('k',),
                           'elem_name': 'xi', 'elem_ty': 'D × Bool'}, evalfn('NumberofConstConstraint')))
    # ---- 6f. SOS1: ComputeViolationSOS1 (constr_general.h): index loop counting the members that are non-zero beyond tolerance
    fs1 = find_fn(dump('SOS_1or2_Constraint'), 'ComputeViolationSOS1', lambda n, p: 'VarInfoImpl' in qtype(n))
    if not fs1:
        raise TranslateError('SOS_1or2_Constraint::ComputeViolationSOS1 instantiation not found')
    parts.append(emit_def({'cxx': 'mp::SOS_1or2_Constraint<type>::ComputeViolationSOS1 (constr_general.h; index loop as a fold over the reversed member list)',
                           'lean': 'sos1ComputeViolation', 'ret': 'D × D', 'params': [('nz', 'List Bool')],
                           'opaque': {'elements': 'nz', 'element': 'nzi', 'is_nonzero': 'nzi'}, 'int_as_int': True, 'state_ty': 'Int', 'elem_ty': 'Bool',
                           'loop_ret_ty': 'D × D'}, fs1[0]))
    # ---- 7. class selection in ComputeViolations
    fn, seq, idx = class_selection(D['ConstraintKeeper'])
    sym_spec = {'cxx': 'ConstraintKeeper<..>::ComputeViolations, lines `int c_class=0; ... if (c_class & chk.check_mode())` (constr_keeper.h)',
                'lean': 'conClass', 'ret': 'Nat', 'params': [('bridged', 'Bool'), ('depth', 'Nat')],
                'opaque': {'IsBridged': 'bridged', 'GetDepth': 'depth'}}
    s = Sym(sym_spec)
    term = s.block(seq[:4], {}, lambda en: en['c_class'])
    parts.append('/-- generated from `%s` -/\ndef conClass (bridged : Bool) (depth : Nat) : Nat :=\n%s\n' % (sym_spec['cxx'], ind(term)))
    s2 = Sym({'lean': 'conSelected', 'opaque': {'check_mode': 'mode'}, 'params': []})
    t, _, L = s2.ev(seq[4]['inner'][0], {'c_class': 'c_class'})
    parts.append('/-- generated: the selection test `c_class & chk.check_mode()` -/\ndef conSelected (c_class mode : Nat) : Bool :=\n%s\n' % ind(Sym.lets(L) + s2.as_bool(t, strip(seq[4]['inner'][0]))))
    s3 = Sym({'lean': 'conSlot', 'params': []})
    init = [c for c in idx.get('inner', []) if c.get('kind') != 'FullComment'][0]
    t, _, L = s3.ev(init, {'c_class': 'c_class'})
    parts.append('/-- generated: `int index = (c_class & 2) ? 0 : (c_class & 8) ? 2 : 1` -/\ndef conSlot (c_class : Nat) : Nat :=\n%s\n' % ind(Sym.lets(L) + t))
    # ---- 8. mode masks (sol_check.h is only instantiated by a converter: read from the template pattern)
    sc = clang_dump(tu_with_solcheck(work), 'SolutionChecker', inc)
    mm = mode_masks(sc)
    code = enum_value(clang_dump(tu_with_solcheck(work), 'MP_SOLUTION_CHECK', inc), 'MP_SOLUTION_CHECK')
    parts.append('/-- generated: constants combined with `sol_check_mode()` / `check_mode()` in `CheckSolution` / `DoCheckSol` (sol_check.h),\n'
                 'and `sol::MP_SOLUTION_CHECK` (common.h), the code raised under `sol:chk:fail` -/\n' +
                 ''.join('def %s : Nat := %d\n' % (k, v) for k, v in mm.items()) + 'def failCode : Nat := %d\n' % code)
    # ---- 9. context enumerators used by the switches
    ctxv = {nm: enum_value(D['Context'], nm) for nm in ('CTX_NONE', 'CTX_POS', 'CTX_NEG', 'CTX_MIX')}
    parts.append('/-- generated: `mp::Context::CtxVal` -/\n' + ''.join('def %s : Nat := %d\n' % (k.lower().replace('ctx_', 'ctx') .replace('ctx', 'ctx', 1), v) for k, v in ctxv.items()))
    # ---- 10. structure
    vals, viols = structure(D['ComputeValue'], D['Violation'])
    parts.append('/-- generated: parameter types of the `ComputeValue` overloads of constr_eval.h / constr_base.h -/\ndef computeValueTypes : List String :=\n  [%s]\n'
                 % ', '.join('"%s"' % v for v in vals))
    parts.append('/-- generated: every function named `ComputeViolation*` (owner class or first parameter) -/\ndef computeViolationSites : List String :=\n  [%s]\n'
                 % ', '.join('"%s"' % v for v in viols))
    text = ('import MpVerif.C07.GenSem\n'
            '/-! GENERATED by translators/gen_solcheck.py from the repository source (clang-14 typed AST) — do not edit.\n'
            'Doubles are values of `MpVerif.C07.GenSem.D`; operands that are not part of the decision logic are parameters. -/\n'
            'namespace MpVerif.Gen.SolCheck\nopen MpVerif.C07.GenSem\n\n' + '\n'.join(parts) + '\nend MpVerif.Gen.SolCheck\n')
    old = open(out).read() if os.path.exists(out) else None
    if old != text:
        open(out, 'w').write(text)
    open(stamp, 'w').write(key + '\n' + hashlib.sha256(text.encode()).hexdigest())
    print('gen_solcheck: %d definitions, %s' % (text.count('\ndef '), 'updated' if old != text else 'unchanged'))
    return 0


def tu_with_solcheck(work):
    p = os.path.join(work, 'solcheck_tpl.cc')
    if not os.path.exists(p):
        open(p, 'w').write('#define NDEBUG 1\n#define MP_DATE 20240320\n#include "mp/flat/sol_check.h"\n')
    return p


def subst_kind(fn, kv):
    """AlgConRhs<k> members refer to the template parameter kind_ (SubstNonTypeTemplateParmExpr / constant): nothing to do,
    the evaluator handles the constants; kept as a hook"""
    return fn


def cond_prepare(fn):
    return fn


def count_viol(fn):
    spec = {'cxx': 'mp::ViolSummary::CountViol (constr_keeper.h)', 'lean': 'countViol', 'ret': 'Nat × D × Nm × D × Nm',
            'params': [('N_', 'Nat'), ('epsAbsMax_', 'D'), ('nameAbs_', 'Nm'), ('epsRelMax_', 'D'), ('nameRel_', 'Nm'),
                       ('violv', 'D'), ('violRel', 'D'), ('nm', 'Nm')],
            'opaque': {}, 'cparams': ('violRel', 'nm')}
    return emit_def_members(spec, fn, ['N_', 'epsAbsMax_', 'nameAbs_', 'epsRelMax_', 'nameRel_'], {'viol.viol_': 'violv'})


def check_viol(fn):
    spec = {'cxx': 'mp::ViolSummary::CheckViol (constr_keeper.h)', 'lean': 'checkViol', 'ret': 'Nat × D × Nm × D × Nm',
            'params': [('N_', 'Nat'), ('epsAbsMax_', 'D'), ('nameAbs_', 'Nm'), ('epsRelMax_', 'D'), ('nameRel_', 'Nm'),
                       ('violv', 'D'), ('valX', 'D'), ('epsabs', 'D'), ('epsrel', 'D'), ('nm', 'Nm')],
            'opaque': {}, 'cparams': ('epsabs', 'epsrel', 'nm')}
    return emit_def_members(spec, fn, ['N_', 'epsAbsMax_', 'nameAbs_', 'epsRelMax_', 'nameRel_'], {'viol.viol_': 'violv', 'viol.valX_': 'valX'})


class SymM(Sym):
    """ViolSummary members: `viol.viol_`, `chk.first/second`, calls of Check / CountViol on known objects"""

    def __init__(self, spec, fields, state):
        super().__init__(spec)
        self.fields = fields
        self.state = state

    def ev(self, e, env):
        e0 = strip(e)
        if e0.get('kind') == 'MemberExpr':
            base = strip(e0['inner'][0])
            if base.get('kind') == 'DeclRefExpr':
                key = '%s.%s' % (base['referencedDecl']['name'], e0['name'])
                if key in self.fields:
                    return env.get(self.fields[key], self.fields[key]), env, []
                if key in env:
                    return env[key], env, []
                raise TranslateError('%s: member access %s' % (self.spec['lean'], key))
        if e0.get('kind') == 'CXXMemberCallExpr':
            me = strip(e0['inner'][0])
            if me.get('name') == 'Check':
                a, env, L1 = self.ev(e0['inner'][1], env)
                b, env, L2 = self.ev(e0['inner'][2], env)
                return '(violationCheck %s %s %s %s)' % (env.get('violv', 'violv'), env.get('valX', 'valX'), a, b), env, L1 + L2
            if me.get('name') == 'CountViol':
                args = e0['inner'][1:]
                b, env, L2 = self.ev(args[1], env)
                c, env, L3 = self.ev(args[2], env)
                v = self.fresh('st')
                names = [self.fresh(s) for s in self.state]
                call = '(countViol %s %s %s %s)' % (' '.join(env[s] for s in self.state), env.get('violv', 'violv'), b, c)
                env = dict(env)
                L = L2 + L3 + ['let %s := %s' % (v, call)]
                proj = ['.1', '.2.1', '.2.2.1', '.2.2.2.1', '.2.2.2.2']
                for s, nmv, pj in zip(self.state, names, proj):
                    L.append('let %s := %s%s' % (nmv, v, pj))
                    env[s] = nmv
                return v, env, L
        return super().ev(e, env)

    def block(self, stmts, env, rest_k):
        if stmts and stmts[0].get('kind') == 'DeclStmt':
            d = stmts[0]['inner'][0]
            if d.get('kind') == 'VarDecl' and d.get('name') == 'chk':
                init = [c for c in d.get('inner', []) if c.get('kind') != 'FullComment'][0]
                t, env, L = self.ev(init, env)
                v = self.fresh('chk')
                env = dict(env)
                env['chk.first'] = v + '.1'
                env['chk.second'] = v + '.2'
                return self.lets(L + ['let %s := %s' % (v, t)]) + self.block(stmts[1:], env, rest_k)
        return super().block(stmts, env, rest_k)


def emit_def_members(spec, fn, state, fields):
    sym = SymM(spec, fields, state)
    env = {p[0]: p[0] for p in spec['params']}
    term = sym.block([body_of(fn)], env, lambda en: '(' + ', '.join(en[s] for s in state) + ')')
    sig = ' '.join('(%s : %s)' % (p[0], p[1]) for p in spec['params'])
    return '/-- generated from `%s` -/\ndef %s %s : %s :=\n%s\n' % (spec['cxx'], spec['lean'], sig, spec['ret'], ind(term))


if __name__ == '__main__':
    try:
        sys.exit(main(sys.argv[1], sys.argv[2], sys.argv[3] if len(sys.argv) > 3 else '/tmp/gen_solcheck'))
    except TranslateError as e:
        print('TRANSLATE-ERROR: %s' % e)
        sys.exit(3)

#!/usr/bin/env python3
"""Regenerate lean/MpVerif/Gen/Signal.lean from the ampl/mp working tree (property C15).

From clang's AST (clang++-14 -ast-dump=json, compiled with -DAMPL_MP_VERIF so that the call-outs are present) of

  src/solver.cc                  SignalHandler::SignalHandler, ~SignalHandler, SetHandler, HandleSigInt
  include/mp/solver-app-base.h   SignalHandler::Stop
  include/mp/solver-base.h       BasicSolver::Stop, BasicSolver::SetHandler, BasicSolver::set_interrupter

one Lean list per function with its statements IN SOURCE ORDER, in the small statement language of
lean/MpVerif/C15/SrcLang.lean (stores to the static cells, set_interrupter, std::signal calls, the guarded call-outs,
and for HandleSigInt: the message loop, the exit test, the increment, the callback call, the re-arm).
Every statement must match one of the known shapes exactly; anything else raises TranslateError
(prints TRANSLATE-ERROR, exit status 3): a loud failure, never a silent default.

usage: gen_signal.py <repo> <out.lean> <workdir>
Writes the file only when its content changes.
"""
import sys, os, json, subprocess
sys.path.insert(0, os.path.dirname(__file__))
from tr_cint import TranslateError, parse_concat_json

DEFINES = ['-DMP_DATE=20240320', '-DMP_SYSINFO="Linux x86_64"', '-DMP_USE_ATOMIC', '-DAMPL_MP_VERIF']
CELLS = {'stop_': 'stop', 'handler_': 'handler', 'data_': 'data', 'signal_message_ptr_': 'msgPtr',
         'signal_message_size_': 'msgSize'}
TRANSPARENT = ('ParenExpr', 'ImplicitCastExpr', 'ConstantExpr', 'ExprWithCleanups', 'CXXBindTemporaryExpr',
               'MaterializeTemporaryExpr', 'CXXStaticCastExpr', 'CXXFunctionalCastExpr', 'CStyleCastExpr')
CMP = {'==': 'eq', '!=': 'ne', '<': 'lt', '<=': 'le', '>': 'gt', '>=': 'ge'}


def clang(repo, filt):
    tu = os.path.join(repo, 'src', 'solver.cc')
    cmd = ['clang++-14', '-std=gnu++17', '-fsyntax-only', '-w'] + DEFINES + \
          ['-I', os.path.join(repo, 'include'), '-I', os.path.join(repo, 'src'),
           '-Xclang', '-ast-dump=json', '-Xclang', '-ast-dump-filter=' + filt, tu]
    p = subprocess.run(cmd, capture_output=True, text=True)
    if p.returncode != 0:
        raise TranslateError('clang failed on %s: %s' % (tu, p.stderr[:1500]))
    return parse_concat_json(p.stdout)


def strip(n):
    while n.get('kind') in TRANSPARENT and len(n.get('inner', [])) == 1:
        n = n['inner'][0]
    return n


def kids(n):
    return n.get('inner', [])


def where(n):
    loc = n.get('range', {}).get('begin', {})
    loc = loc.get('expansionLoc', loc)
    return 'line %s' % loc.get('line', '?')


def fail(n, what):
    raise TranslateError('%s: %s (%s, %s)' % (what, n.get('kind'), where(n), json.dumps(n)[:300]))


def refname(n):
    n = strip(n)
    if n.get('kind') == 'DeclRefExpr':
        return n['referencedDecl'].get('name')
    if n.get('kind') == 'MemberExpr':
        return n.get('name')
    return None


def lean_str(s):
    return '"' + s.replace('\\', '\\\\').replace('"', '\\"') + '"'


def is_point(n):
    """do { if (mp_verif_point) mp_verif_point("name"); } while (0)  ->  name"""
    if n.get('kind') != 'DoStmt' or len(kids(n)) != 2:
        return None
    body, cond = kids(n)
    c = strip(cond)
    if c.get('kind') != 'IntegerLiteral' or c.get('value') != '0':
        return None
    if body.get('kind') != 'CompoundStmt' or len(kids(body)) != 1:
        return None
    ifs = kids(body)[0]
    if ifs.get('kind') != 'IfStmt' or len(kids(ifs)) != 2 or ifs.get('hasElse'):
        return None
    cnd, call = kids(ifs)
    if refname(cnd) != 'mp_verif_point':
        return None
    call = strip(call)
    if call.get('kind') != 'CallExpr' or len(kids(call)) != 2 or refname(kids(call)[0]) != 'mp_verif_point':
        return None
    lit = strip(kids(call)[1])
    if lit.get('kind') != 'StringLiteral':
        return None
    return json.loads(lit['value'])


def int_literal(n):
    n = strip(n)
    if n.get('kind') == 'IntegerLiteral':
        return int(n['value'])
    if n.get('kind') in ('GNUNullExpr', 'CXXNullPtrLiteralExpr'):
        return 0
    return None


def atomic_load(n):
    """`cell` read through std::atomic's conversion operator (or a plain volatile read) -> cell name"""
    n = strip(n)
    if n.get('kind') == 'CXXMemberCallExpr' and len(kids(n)) == 1:
        m = kids(n)[0]
        if m.get('kind') == 'MemberExpr' and m.get('name', '').startswith('operator ') and len(kids(m)) == 1:
            return refname(kids(m)[0])
    if n.get('kind') == 'DeclRefExpr':
        return n['referencedDecl'].get('name')
    return None


def rhs(n, params):
    v = int_literal(n)
    if v is not None:
        return '(.lit %d)' % v
    s = strip(n)
    if s.get('kind') == 'DeclRefExpr' and s['referencedDecl'].get('name') in params:
        return '(.param %s)' % lean_str(s['referencedDecl']['name'])
    if s.get('kind') == 'CXXMemberCallExpr' and len(kids(s)) == 1:
        m = kids(s)[0]
        if m.get('kind') == 'MemberExpr' and refname(kids(m)[0]) == 'message_':
            if m.get('name') == 'c_str':
                return '.msgCStr'
            if m.get('name') == 'size':
                return '.msgLen'
    fail(n, 'unrecognised right-hand side')


def simple_stmt(n, params):
    """one statement of the constructor / destructor / SetHandler body"""
    p = is_point(n)
    if p is not None:
        return '.point %s' % lean_str(p)
    s = strip(n)
    k = s.get('kind')
    # cell = rhs  (std::atomic<T>::operator=)
    if k == 'CXXOperatorCallExpr' and len(kids(s)) == 3 and refname(kids(s)[0]) == 'operator=':
        cell = refname(kids(s)[1])
        if cell in CELLS:
            return '.store .%s %s' % (CELLS[cell], rhs(kids(s)[2], params))
    # stop_ = n   (volatile sig_atomic_t)
    if k == 'BinaryOperator' and s.get('opcode') == '=' and refname(kids(s)[0]) in CELLS:
        return '.store .%s %s' % (CELLS[refname(kids(s)[0])], rhs(kids(s)[1], params))
    # solver_.set_interrupter(this | 0)
    if k == 'CXXMemberCallExpr' and len(kids(s)) == 2:
        m = kids(s)[0]
        if m.get('kind') == 'MemberExpr' and m.get('name') == 'set_interrupter' and refname(kids(m)[0]) == 'solver_':
            a = strip(kids(s)[1])
            if a.get('kind') == 'CXXThisExpr':
                return '.setInterrupter .this'
            if int_literal(a) == 0:
                return '.setInterrupter .null'
    # std::signal(SIGxxx, HandleSigInt)
    if k == 'CallExpr' and len(kids(s)) == 3 and refname(kids(s)[0]) == 'signal' and refname(kids(s)[2]) == 'HandleSigInt':
        v = int_literal(kids(s)[1])
        if v is not None:
            return '.signalInstall %d' % v
    fail(n, 'unrecognised statement')


def body_of(decl):
    for c in kids(decl):
        if c.get('kind') == 'CompoundStmt':
            return c
    fail(decl, 'function has no body')


def tr_simple(decl):
    params = [c['name'] for c in kids(decl) if c.get('kind') == 'ParmVarDecl' and 'name' in c]
    out = []
    for c in kids(decl):
        if c.get('kind') == 'CXXCtorInitializer':
            ai = c.get('anyInit')
            if ai:
                out.append('.initMember %s' % lean_str(ai['name']))
            elif c.get('baseInit'):
                out.append('.initMember %s' % lean_str('base:' + c['baseInit'].get('qualType', '?')))
            else:
                fail(c, 'constructor initializer that is neither a member nor a base')
    for st in kids(body_of(decl)):
        out.append(simple_stmt(st, params))
    return out


def is_write_loop(decl_stmt, do_stmt):
    """unsigned count = 0; do { int result = write(fd, ptr_ + count, size_ - count); if (result < 0) break;
       count += result; } while (count < size_);   ->  fd"""
    try:
        v = kids(decl_stmt)[0]
        assert decl_stmt['kind'] == 'DeclStmt' and len(kids(decl_stmt)) == 1 and v['kind'] == 'VarDecl'
        cnt = v['name']
        assert v['type']['qualType'] == 'unsigned int' and int_literal(kids(v)[0]) == 0
        assert do_stmt['kind'] == 'DoStmt'
        body, cond = kids(do_stmt)
        assert body['kind'] == 'CompoundStmt' and len(kids(body)) == 3
        d, ifs, add = kids(body)
        rv = kids(d)[0]
        assert d['kind'] == 'DeclStmt' and len(kids(d)) == 1 and rv['kind'] == 'VarDecl' and rv['type']['qualType'] == 'int'
        res = rv['name']
        call = strip(kids(rv)[0])
        assert call['kind'] == 'CallExpr' and len(kids(call)) == 4 and refname(kids(call)[0]) == 'write'
        fd = int_literal(kids(call)[1])
        assert fd is not None
        buf = strip(kids(call)[2])
        assert buf['kind'] == 'BinaryOperator' and buf['opcode'] == '+'
        assert atomic_load(kids(buf)[0]) == 'signal_message_ptr_' and refname(kids(buf)[1]) == cnt
        ln = strip(kids(call)[3])
        assert ln['kind'] == 'BinaryOperator' and ln['opcode'] == '-'
        assert atomic_load(kids(ln)[0]) == 'signal_message_size_' and refname(kids(ln)[1]) == cnt
        assert ifs['kind'] == 'IfStmt' and len(kids(ifs)) == 2 and not ifs.get('hasElse')
        c, br = kids(ifs)
        c = strip(c)
        assert c['kind'] == 'BinaryOperator' and c['opcode'] == '<' and refname(kids(c)[0]) == res and int_literal(kids(c)[1]) == 0
        assert br['kind'] == 'BreakStmt'
        assert add['kind'] == 'CompoundAssignOperator' and add['opcode'] == '+=' and refname(kids(add)[0]) == cnt and refname(kids(add)[1]) == res
        cond = strip(cond)
        assert cond['kind'] == 'BinaryOperator' and cond['opcode'] == '<' and refname(kids(cond)[0]) == cnt
        assert atomic_load(kids(cond)[1]) == 'signal_message_size_'
        return fd
    except (AssertionError, KeyError, IndexError, ValueError, TypeError):
        return None


def tr_handler(decl):
    params = [c['name'] for c in kids(decl) if c.get('kind') == 'ParmVarDecl' and 'name' in c]
    if len(params) != 1:
        fail(decl, 'HandleSigInt must have one parameter')
    sig = params[0]
    sts = kids(body_of(decl))
    out = []
    i = 0
    while i < len(sts):
        n = sts[i]
        p = is_point(n)
        if p is not None:
            out.append('.point %s' % lean_str(p))
            i += 1
            continue
        if n.get('kind') == 'DeclStmt' and i + 1 < len(sts):
            fd = is_write_loop(n, sts[i + 1])
            if fd is not None:
                out.append('.writeLoop %d' % fd)
                i += 2
                continue
        s = strip(n)
        k = s.get('kind')
        if k == 'IfStmt' and not s.get('hasElse') and len(kids(s)) == 2:
            c, th = kids(s)
            c = strip(c)
            # if (stop_ <op> k) { _exit(code); }
            if c.get('kind') == 'BinaryOperator' and c.get('opcode') in CMP and refname(kids(c)[0]) == 'stop_' and int_literal(kids(c)[1]) is not None:
                body = kids(th) if th.get('kind') == 'CompoundStmt' else [th]
                if len(body) == 1:
                    call = strip(body[0])
                    if call.get('kind') == 'CallExpr' and len(kids(call)) == 2 and refname(kids(call)[0]) == '_exit' and int_literal(kids(call)[1]) is not None:
                        out.append('.ifStopExit .%s %d %d' % (CMP[c['opcode']], int_literal(kids(c)[1]), int_literal(kids(call)[1])))
                        i += 1
                        continue
        # if (InterruptHandler handler = handler_) handler(data_);
        if k == 'IfStmt' and not s.get('hasElse') and len(kids(s)) == 3 and kids(s)[0].get('kind') == 'DeclStmt':
            d, c, th = kids(s)
            v = kids(d)[0]
            if len(kids(d)) == 1 and v.get('kind') == 'VarDecl' and atomic_load(kids(v)[0]) == 'handler_' and refname(c) == v['name']:
                call = strip(th)
                if call.get('kind') == 'CallExpr' and len(kids(call)) == 2 and refname(kids(call)[0]) == v['name'] and atomic_load(kids(call)[1]) == 'data_':
                    out.append('.ifHandlerCallWithData')
                    i += 1
                    continue
        if k == 'UnaryOperator' and s.get('opcode') == '++' and refname(kids(s)[0]) == 'stop_':
            out.append('.incStop')
            i += 1
            continue
        if k == 'CallExpr' and len(kids(s)) == 3 and refname(kids(s)[0]) == 'signal' and refname(kids(s)[1]) == sig and refname(kids(s)[2]) == 'HandleSigInt':
            out.append('.signalSelf')
            i += 1
            continue
        fail(n, 'unrecognised statement in HandleSigInt')
    return out


def find_method(docs, cls, name, kind=None):
    """method `name` of class `cls`: out-of-line definitions are top-level documents, in-class ones are inside the record"""
    found = []

    def walk(n, incls):
        k = n.get('kind')
        if k in ('CXXMethodDecl', 'CXXConstructorDecl', 'CXXDestructorDecl') and n.get('name') == name and \
                (kind is None or k == kind) and any(c.get('kind') == 'CompoundStmt' for c in kids(n)):
            if incls == cls or n.get('parentDeclContextId') is not None:
                found.append(n)
        for c in kids(n):
            walk(c, n.get('name') if k == 'CXXRecordDecl' else incls)
    for d in docs:
        walk(d, None)
    # de-duplicate by id
    uniq = {f['id']: f for f in found}
    return list(uniq.values())


def one(lst, what):
    if len(lst) != 1:
        raise TranslateError('%s: expected exactly one definition, found %d' % (what, len(lst)))
    return lst[0]


def tr_stop(decl):
    sts = kids(body_of(decl))
    if len(sts) != 1 or sts[0].get('kind') != 'ReturnStmt':
        fail(decl, 'Stop() is not a single return')
    e = strip(kids(sts[0])[0])
    if e.get('kind') == 'BinaryOperator' and e.get('opcode') in CMP and refname(kids(e)[0]) == 'stop_' and int_literal(kids(e)[1]) is not None:
        return '⟨.%s, %d⟩' % (CMP[e['opcode']], int_literal(kids(e)[1]))
    fail(e, 'unrecognised return expression of SignalHandler::Stop')


def tr_basic(docs):
    stop = one(find_method(docs, 'BasicSolver', 'Stop'), 'BasicSolver::Stop')
    sts = kids(body_of(stop))
    e = strip(kids(sts[0])[0]) if len(sts) == 1 and sts[0].get('kind') == 'ReturnStmt' else {}
    if e.get('kind') != 'CXXBoolLiteralExpr':
        fail(stop, 'BasicSolver::Stop is not `return <bool literal>`')
    basic_stop = 'true' if e['value'] else 'false'
    seth = one(find_method(docs, 'BasicSolver', 'SetHandler'), 'BasicSolver::SetHandler')
    basic_set = [simple_stmt(s, []) for s in kids(body_of(seth))]
    si = one(find_method(docs, 'BasicSolver', 'set_interrupter'), 'BasicSolver::set_interrupter')
    sts = kids(body_of(si))
    params = [c['name'] for c in kids(si) if c.get('kind') == 'ParmVarDecl']
    ok = False
    if len(sts) == 1 and len(params) == 1:
        a = strip(sts[0])
        if a.get('kind') == 'BinaryOperator' and a.get('opcode') == '=' and refname(kids(a)[0]) == 'interrupter_':
            c = strip(kids(a)[1])
            if c.get('kind') == 'ConditionalOperator':
                cnd, x, y = kids(c)
                if refname(cnd) == params[0] and refname(x) == params[0] and strip(y).get('kind') == 'CXXThisExpr':
                    ok = True
    if not ok:
        fail(si, 'BasicSolver::set_interrupter is not `interrupter_ = interrupter ? interrupter : this`')
    return basic_stop, basic_set


def cell_decls(docs):
    """declared type of each static cell: the out-of-line definition (top-level VarDecl) and the in-class declaration
    must agree"""
    defs, incls = {}, {}
    for d in docs:
        if d.get('kind') == 'VarDecl' and d.get('name') in CELLS:
            defs[d['name']] = d['type']['qualType']
        if d.get('kind') == 'CXXRecordDecl' and d.get('name') == 'SignalHandler':
            for c in kids(d):
                if c.get('kind') == 'VarDecl' and c.get('name') in CELLS:
                    incls[c['name']] = c['type']['qualType']
    out = []
    for name in ['stop_', 'handler_', 'data_', 'signal_message_ptr_', 'signal_message_size_']:
        if name not in defs or name not in incls:
            raise TranslateError('static cell %s: definition or in-class declaration not found' % name)
        import re as _re
        norm = lambda q: _re.sub(r'\b(mp|internal|std)::', '', q).replace(' ', '')
        if norm(defs[name]) != norm(incls[name]):
            raise TranslateError('static cell %s declared as %r in the class but defined as %r' % (name, incls[name], defs[name]))
        q = defs[name]
        toks = q.replace('*', ' * ').split()
        vol = 'volatile' in toks
        base = ' '.join(t for t in toks if t != 'volatile')
        atomic = base.startswith('mp::internal::atomic<') or base.startswith('std::atomic<') or base.startswith('atomic<')
        out.append('(.%s, ⟨%s, %s, %s⟩)' % (CELLS[name], 'true' if vol else 'false', 'true' if atomic else 'false', lean_str(base)))
    return out


def lean_list(name, ty, items, doc):
    body = '[]' if not items else '[\n' + ',\n'.join('    ' + i for i in items) + ']'
    return '/-- %s -/\ndef %s : List %s :=\n  %s\n' % (doc, name, ty, body)


def main():
    repo, out, work = sys.argv[1:4]
    os.makedirs(work, exist_ok=True)
    try:
        docs = clang(repo, 'SignalHandler')
        ctor = one(find_method(docs, 'SignalHandler', 'SignalHandler', 'CXXConstructorDecl'), 'SignalHandler::SignalHandler')
        dtor = one(find_method(docs, 'SignalHandler', '~SignalHandler'), 'SignalHandler::~SignalHandler')
        seth = one(find_method(docs, 'SignalHandler', 'SetHandler'), 'SignalHandler::SetHandler')
        hsi = one(find_method(docs, 'SignalHandler', 'HandleSigInt'), 'SignalHandler::HandleSigInt')
        stop = one(find_method(docs, 'SignalHandler', 'Stop'), 'SignalHandler::Stop')
        bdocs = clang(repo, 'BasicSolver')
        basic_stop, basic_set = tr_basic(bdocs)
        parts = [
            'import MpVerif.C15.SrcLang',
            '/-! GENERATED by translators/gen_signal.py from src/solver.cc, include/mp/solver-app-base.h,',
            '    include/mp/solver-base.h (clang AST) — do not edit.  Statements in source order. -/',
            'namespace MpVerif.Gen.Signal',
            'open MpVerif.C15.Src',
            '',
            lean_list('ctor', 'Stmt', tr_simple(ctor), 'SignalHandler::SignalHandler(BasicSolver&): member initializers, then the body'),
            lean_list('dtor', 'Stmt', tr_simple(dtor), 'SignalHandler::~SignalHandler(): the body'),
            lean_list('setHandler', 'Stmt', tr_simple(seth), 'SignalHandler::SetHandler(InterruptHandler handler, void *data)'),
            lean_list('handleSigInt', 'HStmt', tr_handler(hsi), 'SignalHandler::HandleSigInt(int sig)'),
            lean_list('cellDecls', '(Cell × CellDecl)', cell_decls(docs), 'declared types of the static cells (volatile?, atomic?, type without `volatile`)'),
            '/-- SignalHandler::Stop() const -/\ndef stopFn : StopFn := %s\n' % tr_stop(stop),
            '/-- BasicSolver::Stop() const (the interrupter when no SignalHandler is installed) -/\ndef basicStop : Bool := %s\n' % basic_stop,
            lean_list('basicSetHandler', 'Stmt', basic_set, 'BasicSolver::SetHandler(InterruptHandler, void *)'),
            '/-- BasicSolver::set_interrupter is `interrupter_ = interrupter ? interrupter : this` -/\ndef setInterrupterNullMeansSelf : Bool := true\n',
            'end MpVerif.Gen.Signal',
            '']
        text = '\n'.join(parts)
    except TranslateError as e:
        print('TRANSLATE-ERROR %s' % e)
        return 3
    old = open(out).read() if os.path.exists(out) else None
    if old != text:
        os.makedirs(os.path.dirname(out), exist_ok=True)
        open(out, 'w').write(text)
        print('gen_signal: wrote %s' % out)
    else:
        print('gen_signal: %s unchanged' % out)
    return 0


if __name__ == '__main__':
    sys.exit(main())

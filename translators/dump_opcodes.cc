#include "mp/common.h"
#include "mp/nl-header.h"
#include "mp/nl.h"
#include <cstdio>
int main() {
  using namespace mp;
  std::printf("max %d\n", (int)internal::MAX_OPCODE);
  for (int i = 0; i <= internal::MAX_OPCODE; ++i) {
    const internal::OpCodeInfo &info = internal::GetOpCodeInfo(i);
    std::printf("op %d %d %d\n", i, (int)info.kind, (int)info.first_kind);
  }
#define K(x) std::printf("k %s %d\n", #x, (int)expr::x)
  K(UNKNOWN); K(FIRST_UNARY); K(FIRST_BINARY); K(IF); K(PLTERM); K(FIRST_VARARG); K(SUM); K(COUNT); K(NUMBEROF); K(NUMBEROF_SYM);
  K(NOT); K(FIRST_BINARY_LOGICAL); K(FIRST_RELATIONAL); K(FIRST_LOGICAL_COUNT); K(IMPLICATION); K(FIRST_ITERATED_LOGICAL); K(FIRST_PAIRWISE); K(IFSYM);
  std::printf("k nl_opcode_IFSYM %d\n", expr::nl_opcode(expr::IFSYM));
  std::printf("k SUFFIX_KIND_MASK %d\n", (int)internal::SUFFIX_KIND_MASK);
  std::printf("k SUF_FLOAT %d\n", (int)suf::FLOAT);
  std::printf("k MAX_AMPL_OPTIONS %d\n", (int)mp::MAX_AMPL_OPTIONS);
  std::printf("k ARITH_LAST %d\n", (int)arith::LAST);
  std::printf("k READ_BOUNDS_FIRST %d\n", 1);
  std::printf("k FUNC_NUMERIC %d\n", (int)func::NUMERIC);
  std::printf("k FUNC_SYMBOLIC %d\n", (int)func::SYMBOLIC);
  return 0;
}

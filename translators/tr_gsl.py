#!/usr/bin/env python3
"""C16 translator: src/gsl/amplgsl.cc  ->  lean/MpVerif/Gen/GslSkel.lean

usage: tr_gsl.py <repo> <out.lean> <workdir> [--print-fingerprints]

From clang-14's JSON AST (the file is compiled against harness/shim/funcadd.h,
ASL being absent) this emits

  * one `Stmt` control skeleton per `amplgsl_*` function (MpVerif.C16.Model):
    assignments to al->derivs[i] / al->hes[i], calls of the file's checkers and
    error setters, if / for / return structure; every numeric sub-expression is
    opaque;
  * the registration list of funcadd_ASL (name, function, type, nargs, in order);
  * whether funcadd_ASL starts by switching the GSL error handler off.

The checkers / error setters themselves (check_args, check_result, ...) are
modelled by hand in MpVerif/C16/Model.lean; their source is pinned here by a
fingerprint of their AST (translators/gsl_primitives.json).  A changed
fingerprint, and any construct this translator does not understand, is a loud
failure (exit 2 with the reason): the correspondence with the source is broken.
Writes the output only when its content changes.
"""
import sys, os, json, subprocess, hashlib, re

HERE = os.path.dirname(os.path.abspath(__file__))


class TranslateError(Exception):
    pass


CHECKERS = {'check_args', 'check_const_arg', 'check_int_arg', 'check_uint_arg', 'check_zero_func_args',
            'check_deriv_arg', 'check_bessel_args', 'check_coupling_args'}
ERRSET = {'eval_error': 'Stmt.errEval', 'deriv_error': 'Stmt.errDeriv', 'error': 'Stmt.errArg'}
PRIMS = ['allocate_string', 'format_error', 'error', 'deriv_error', 'check_deriv_arg', 'format_eval_error',
         'eval_error', 'check_args', 'check_result', 'check_const_arg', 'check_int_arg', 'check_uint_arg',
         'check_zero_func_args', 'check_bessel_args', 'check_coupling_args']
# bindings whose formulas are transcribed by hand into lean/MpVerif/C16/Deriv.lean (HasDerivAt theorems)
# (round 5: the formulas of the elementary bindings are translated — tr_gsl_formulas.py — and no longer pinned by fingerprint)
TRANSCRIBED = []
OTHER_AL = {'check_result', 'format_eval_error', 'format_error', 'allocate_string'}


def clang_ast(repo, work):
    src = os.path.join(repo, 'src', 'gsl', 'amplgsl.cc')
    shim = os.path.join(os.path.dirname(HERE), 'harness', 'shim')
    cmd = ['clang++-14', '-std=gnu++17', '-fsyntax-only', '-w', '-I', shim, '-Xclang', '-ast-dump=json', src]
    p = subprocess.run(cmd, capture_output=True, text=True)
    if p.returncode != 0:
        raise TranslateError('clang failed on amplgsl.cc: ' + p.stderr[-1500:])
    return json.loads(p.stdout)


def kids(n):
    return [c for c in n.get('inner', []) if isinstance(c, dict)]


def strip(n):
    """drop implicit casts, parentheses and explicit value casts"""
    while n.get('kind') in ('ImplicitCastExpr', 'ParenExpr', 'CStyleCastExpr', 'CXXStaticCastExpr',
                            'CXXFunctionalCastExpr', 'ExprWithCleanups', 'ConstantExpr'):
        ks = kids(n)
        if len(ks) != 1:
            break
        n = ks[0]
    return n


def fingerprint(n):
    def norm(x):
        if isinstance(x, dict):
            out = [x.get('kind'), x.get('opcode'), x.get('value'), x.get('name'), x.get('castKind'),
                   x.get('isPostfix'), re.sub(r'\((unnamed|anonymous) [^)]*\)', '(unnamed)', (x.get('type') or {}).get('qualType') or ''),
                   (x.get('referencedDecl') or {}).get('name')]
            return [out, [norm(c) for c in x.get('inner', [])]]
        return x
    return hashlib.sha256(json.dumps(norm(n)).encode()).hexdigest()[:24]


class Fn:
    """translation of one function body"""

    def __init__(self, tr, decl):
        self.tr = tr
        self.decl = decl
        self.name = decl['name']
        self.al_id = None
        for p in kids(decl):
            if p.get('kind') == 'ParmVarDecl' and p['type']['qualType'] == 'arglist *':
                self.al_id = p['id']
        self.alias = {}      # var decl id -> 'd' | 'h'
        self.bools = {}      # var decl id -> local number
        self.loopv = {}      # var decl id -> loop var number
        self.litinit = {}    # var decl id -> literal int value currently known syntactically
        self.status = {}     # int local assigned from a GSL `_e` call -> local number (shares the numbering of self.bools)
        self.next_local = 0
        self.gsl_calls = []  # (callee name, C text of the arguments or None) for every `_e` call, in order
        self.assigns = {}
        self.vardecls = {}
        self.body = [c for c in kids(decl) if c.get('kind') == 'CompoundStmt'][0]
        self.classify_locals()

    def err(self, msg, n=None):
        where = ''
        if n is not None:
            r = n.get('range', {}).get('begin', {})
            line = r.get('line') or r.get('expansionLoc', {}).get('line') or r.get('spellingLoc', {}).get('line')
            where = ' (node %s, line %s)' % (n.get('kind'), line)
        raise TranslateError('%s: %s%s' % (self.name, msg, where))

    # ------------------------------------------------------------ recognisers
    def is_al(self, n):
        n = strip(n)
        return n.get('kind') == 'DeclRefExpr' and n.get('referencedDecl', {}).get('id') == self.al_id

    def al_member(self, n):
        n = strip(n)
        if n.get('kind') == 'MemberExpr' and n.get('isArrow') and self.is_al(kids(n)[0]):
            return n['name']
        return None

    def ref_id(self, n):
        n = strip(n)
        if n.get('kind') == 'DeclRefExpr':
            return n.get('referencedDecl', {}).get('id')
        return None

    def slot_base(self, n):
        """'d'/'h' if n denotes the pointer al->derivs / al->hes (directly or through a local alias)"""
        m = self.al_member(n)
        if m == 'derivs':
            return 'd'
        if m == 'hes':
            return 'h'
        rid = self.ref_id(n)
        if rid in self.alias:
            return self.alias[rid]
        return None

    def index(self, n):
        n = strip(n)
        if n.get('kind') == 'IntegerLiteral':
            return 'Idx.k %d' % int(n['value'])
        rid = self.ref_id(n)
        if rid in self.loopv:
            return 'Idx.v %d' % self.loopv[rid]
        self.err('array index is neither a literal nor a loop variable', n)

    def slot(self, n):
        """('d'|'h', Idx) if n is an lvalue al->derivs[i] / *al->derivs / alias[i]"""
        n = strip(n)
        if n.get('kind') == 'UnaryOperator' and n.get('opcode') == '*':
            b = self.slot_base(kids(n)[0])
            if b:
                return (b, 'Idx.k 0')
        if n.get('kind') == 'ArraySubscriptExpr':
            base, idx = kids(n)
            b = self.slot_base(base)
            if b:
                return (b, self.index(idx))
        return None

    def callee(self, n):
        n = strip(n)
        if n.get('kind') != 'CallExpr':
            return None
        c = strip(kids(n)[0])
        if c.get('kind') == 'DeclRefExpr' and c.get('referencedDecl', {}).get('kind') == 'FunctionDecl':
            return c['referencedDecl']['name']
        return None


    # ------------------------------------------------------------ GSL `_e` routines (status-returning)
    def e_callee(self, n):
        """name of the GSL routine if n is a call `gsl_…_e(…)` (returns an int status), else None"""
        c = self.callee(n)
        if c and re.match(r'gsl_\w+_e$', c):
            return c
        return None

    def new_local(self):
        k = self.next_local
        self.next_local += 1
        return k

    def arg_c(self, n, depth=0):
        """C text of a call argument in terms of `ra[]` (to call the same GSL routine directly from the harness), or None"""
        if depth > 6:
            return None
        k = n.get('kind')
        ks = kids(n)
        if k in ('ImplicitCastExpr', 'ParenExpr', 'ConstantExpr') and len(ks) == 1:
            return self.arg_c(ks[0], depth + 1)
        if k in ('CStyleCastExpr', 'CXXStaticCastExpr') and len(ks) == 1:
            q = n['type']['qualType']
            inner = self.arg_c(ks[0], depth + 1)
            return None if inner is None or q not in ('int', 'unsigned int', 'double') else '(%s)(%s)' % (q, inner)
        if k == 'IntegerLiteral':
            return n['value']
        if k == 'FloatingLiteral':
            return n['value']
        if k == 'ArraySubscriptExpr' and self.al_member(ks[0]) == 'ra' and strip(ks[1]).get('kind') == 'IntegerLiteral':
            return 'ra[%s]' % strip(ks[1])['value']
        if k == 'UnaryOperator' and n.get('opcode') == '&':
            t = strip(ks[0])
            if t.get('kind') == 'DeclRefExpr' and t['referencedDecl'].get('kind') == 'VarDecl' and \
                    self.vardecls.get(t['referencedDecl']['id'], {}).get('type', {}).get('qualType') == 'gsl_sf_result':
                return 'r_'
            return None
        if k == 'DeclRefExpr':
            rd = n.get('referencedDecl', {})
            if rd.get('kind') == 'EnumConstantDecl':
                return rd['name']
            if rd.get('kind') == 'VarDecl' and rd['id'] in self.vardecls:
                src = [a for a in self.assigns.get(rd['id'], []) if not (strip(a).get('kind') in ('IntegerLiteral', 'FloatingLiteral') and float(strip(a)['value']) == 0)]
                if len(src) == 1:
                    return self.arg_c(src[0], depth + 1)
            return None
        return None

    def note_gsl_call(self, n):
        n = strip(n)
        args = [self.arg_c(a) for a in kids(n)[1:]]
        self.gsl_calls.append((self.callee(n), None if any(a is None for a in args) else ', '.join(args)))
        for a in kids(n)[1:]:
            if self.scan(a):
                self.err('argument of a GSL call assigns derivs/hes', n)

    # ------------------------------------------------------------ locals
    def walk(self, n):
        yield n
        for c in kids(n):
            yield from self.walk(c)

    def pure_cond(self, n, cands):
        n = strip(n)
        k = n.get('kind')
        if k == 'IntegerLiteral' and n['value'] in ('0', '1'):
            return True
        if k == 'CXXBoolLiteralExpr':
            return True
        m = self.al_member(n)
        if m in ('derivs', 'hes', 'dig'):
            return True
        if k == 'ArraySubscriptExpr' and self.al_member(kids(n)[0]) == 'dig':
            return True
        if k == 'UnaryOperator' and n.get('opcode') == '!':
            return self.pure_cond(kids(n)[0], cands)
        if k == 'BinaryOperator' and n.get('opcode') in ('&&', '||'):
            return all(self.pure_cond(c, cands) for c in kids(n))
        if k == 'DeclRefExpr' and n.get('referencedDecl', {}).get('id') in cands:
            return True
        return False

    def classify_locals(self):
        assigns = {}
        spoiled = set()
        for n in self.walk(self.body):
            k = n.get('kind')
            if k == 'VarDecl':
                self.vardecls[n['id']] = n
                q = n['type']['qualType']
                init = kids(n)
                if q in ('real *', 'double *') and init:
                    b = self.al_member(init[0])
                    if b in ('derivs', 'hes'):
                        self.alias[n['id']] = 'd' if b == 'derivs' else 'h'
                assigns.setdefault(n['id'], [])
                if init and init[0].get('kind') != 'InitListExpr' and n['id'] not in self.alias:
                    assigns[n['id']].append(init[0])
            elif k == 'BinaryOperator' and n.get('opcode') == '=':
                rid = self.ref_id(kids(n)[0])
                if rid is not None:
                    assigns.setdefault(rid, []).append(kids(n)[1])
            elif k == 'CompoundAssignOperator' or (k == 'UnaryOperator' and n.get('opcode') in ('++', '--', '&')):
                rid = self.ref_id(kids(n)[0])
                if rid is not None:
                    spoiled.add(rid)
        # aliases must never be reassigned
        for rid in list(self.alias):
            if len(assigns.get(rid, [])) > 0 or rid in spoiled:
                self.err('alias of al->derivs/al->hes is modified')
        cands = {v for v in assigns if v in self.vardecls and v not in spoiled and
                 self.vardecls[v]['type']['qualType'] in ('int', 'unsigned int', 'bool')}
        changed = True
        while changed:
            changed = False
            for v in list(cands):
                if not all(self.pure_cond(r, cands) for r in assigns[v]):
                    cands.discard(v)
                    changed = True
        self.assigns = assigns
        for v in sorted(cands, key=lambda i: int(i, 16)):
            if any(strip(r).get('kind') != 'IntegerLiteral' for r in assigns[v]):
                self.bools[v] = self.new_local()
        for v in sorted(assigns, key=lambda i: int(i, 16)):
            if v in self.vardecls and v not in spoiled and self.vardecls[v]['type']['qualType'] == 'int':
                calls = [r for r in assigns[v] if self.e_callee(r)]
                rest = [r for r in assigns[v] if not self.e_callee(r) and strip(r).get('kind') != 'IntegerLiteral']
                if len(calls) == 1 and not rest:
                    self.status[v] = self.new_local()

    # ------------------------------------------------------------ expressions
    def scan(self, n):
        """effects of evaluating an otherwise opaque numeric expression: list of Stmt terms, in order.
        Raises on anything that could touch `al` in a way the skeleton does not represent."""
        n = strip(n)
        k = n.get('kind')
        ks = kids(n)
        if k in ('IntegerLiteral', 'FloatingLiteral', 'StringLiteral', 'CharacterLiteral', 'CXXBoolLiteralExpr',
                 'GNUNullExpr', 'CXXNullPtrLiteralExpr', 'ImplicitValueInitExpr'):
            return []
        if k == 'DeclRefExpr':
            rid = n.get('referencedDecl', {}).get('id')
            if rid == self.al_id:
                self.err('`al` escapes into an opaque expression', n)
            if rid in self.alias:
                self.err('alias of al->derivs/al->hes escapes', n)
            return []
        if k == 'MemberExpr':
            m = self.al_member(n)
            if m is not None:
                if m in ('ra', 'n', 'dig', 'funcinfo', 'nr'):
                    return []
                self.err('al->%s used as a value in an opaque expression' % m, n)
            return self.scan(ks[0])
        if k in ('UnaryOperator',):
            op = n.get('opcode')
            s = self.slot(n)
            if s is not None and op == '*':
                return []          # read of *al->derivs
            if op in ('++', '--'):
                t = self.slot(ks[0])
                if t is not None:
                    return [self.write(t)]
            return self.scan(ks[0])
        if k == 'ArraySubscriptExpr':
            s = self.slot(n)
            if s is not None:
                return []          # read of al->derivs[i]
            return self.scan(ks[0]) + self.scan(ks[1])
        if k in ('BinaryOperator', 'CompoundAssignOperator'):
            op = n.get('opcode')
            if op == '=' or k == 'CompoundAssignOperator':
                t = self.slot(ks[0])
                if t is not None:
                    return self.scan(ks[1]) + [self.write(t)]
                rid = self.ref_id(ks[0])
                if rid in self.bools:
                    self.err('condition-valued local assigned inside an expression', n)
                return self.scan(ks[1]) + self.scan(ks[0])
            if op in ('&&', '||'):
                if self.scan(ks[1]):
                    self.err('assignment to derivs/hes under a short-circuit operator', n)
                return self.scan(ks[0])
            if op == ',':
                return self.scan(ks[0]) + self.scan(ks[1])
            return self.scan(ks[0]) + self.scan(ks[1])
        if k == 'ConditionalOperator':
            if self.scan(ks[1]) or self.scan(ks[2]):
                self.err('assignment to derivs/hes inside ?:', n)
            return self.scan(ks[0])
        if k == 'CallExpr':
            cal = self.callee(n)
            if cal in self.tr.al_functions:
                self.err('call of %s in a position the skeleton language cannot express' % cal, n)
            if self.e_callee(n):
                # a status-returning GSL routine whose status is not tested in a recognised way
                self.note_gsl_call(n)
                return ['Stmt.eval (Cond.gsl %d)' % self.new_local()]
            out = []
            for c in ks:
                out += self.scan(c)
            return out
        if k in ('InitListExpr', 'CXXConstructExpr', 'UnaryExprOrTypeTraitExpr'):
            out = []
            for c in ks:
                out += self.scan(c)
            return out
        self.err('unsupported expression node', n)

    def write(self, t):
        return ('Stmt.wd (%s)' if t[0] == 'd' else 'Stmt.wh (%s)') % t[1]

    def chk(self, n):
        """Chk term for a call of one of the file's checkers"""
        cal = self.callee(n)
        args = kids(strip(n))[1:]
        if not self.is_al(args[0]):
            self.err('checker not called on `al`', n)
        for extra in args[1:]:
            if self.scan(extra):
                self.err('checker argument has effects', n)
        if cal == 'check_args':
            return 'Chk.args'
        if cal in ('check_const_arg', 'check_int_arg', 'check_uint_arg', 'check_zero_func_args'):
            c = {'check_const_arg': 'constArg', 'check_int_arg': 'intArg', 'check_uint_arg': 'uintArg',
                 'check_zero_func_args': 'zeroFunc'}[cal]
            return 'Chk.%s (%s)' % (c, self.index(args[1]))
        if cal == 'check_deriv_arg':
            self.err('check_deriv_arg called directly from a binding (only check_bessel_args is modelled to call it)', n)
        if cal == 'check_bessel_args':
            fl = strip(args[1])
            if fl.get('kind') == 'DeclRefExpr' and fl.get('referencedDecl', {}).get('name') == 'DERIV_INT_MIN':
                return 'Chk.bessel true'
            if fl.get('kind') == 'IntegerLiteral' and fl['value'] == '0':
                return 'Chk.bessel false'
            self.err('flags argument of check_bessel_args is neither 0 nor DERIV_INT_MIN', n)
        if cal == 'check_coupling_args':
            return 'Chk.coupling'
        self.err('unknown checker %s' % cal, n)

    def cond(self, n):
        n = strip(n)
        k = n.get('kind')
        ks = kids(n)
        m = self.al_member(n)
        if m == 'derivs':
            return 'Cond.derivs'
        if m == 'hes':
            return 'Cond.hes'
        if m == 'dig':
            return 'Cond.digp'
        if k == 'ArraySubscriptExpr' and self.al_member(ks[0]) == 'dig':
            return 'Cond.dig (%s)' % self.index(ks[1])
        if k == 'UnaryOperator' and n.get('opcode') == '!':
            return 'Cond.not (%s)' % self.cond(ks[0])
        if k == 'BinaryOperator' and n.get('opcode') == '&&':
            return 'Cond.and (%s) (%s)' % (self.cond(ks[0]), self.cond(ks[1]))
        if k == 'BinaryOperator' and n.get('opcode') == '||':
            return 'Cond.or (%s) (%s)' % (self.cond(ks[0]), self.cond(ks[1]))
        if k == 'IntegerLiteral' and n['value'] in ('0', '1'):
            return 'Cond.lit %s' % ('true' if n['value'] == '1' else 'false')
        if k == 'CXXBoolLiteralExpr':
            return 'Cond.lit %s' % ('true' if n.get('value') else 'false')
        if k == 'DeclRefExpr' and n.get('referencedDecl', {}).get('id') in self.bools:
            return 'Cond.lb %d' % self.bools[n['referencedDecl']['id']]
        if k == 'CallExpr' and self.callee(n) in CHECKERS:
            return 'Cond.chk (%s)' % self.chk(n)
        if k == 'CallExpr' and self.e_callee(n):
            self.note_gsl_call(n)
            return 'Cond.gsl %d' % self.new_local()       # `if (gsl_…_e(…))`: non-zero status
        if k == 'DeclRefExpr' and n.get('referencedDecl', {}).get('id') in self.status:
            return 'Cond.lb %d' % self.status[n['referencedDecl']['id']]
        if k == 'BinaryOperator' and n.get('opcode') in ('!=', '=='):
            for x, y in ((ks[0], ks[1]), (ks[1], ks[0])):
                sid = self.ref_id(x)
                yy = strip(y)
                is_success = (yy.get('kind') == 'DeclRefExpr' and yy.get('referencedDecl', {}).get('name') == 'GSL_SUCCESS') or \
                             (yy.get('kind') == 'IntegerLiteral' and yy['value'] == '0')
                if sid in self.status and is_success:
                    t = 'Cond.lb %d' % self.status[sid]      # status != GSL_SUCCESS, as written
                    return t if n['opcode'] == '!=' else 'Cond.not (%s)' % t
        if self.scan(n):
            self.err('assignment to derivs/hes inside a condition', n)
        return 'Cond.opq'

    # ------------------------------------------------------------ statements
    def seq(self, items):
        items = [i for i in items if i != 'Stmt.skip']
        if not items:
            return 'Stmt.skip'
        out = items[-1]
        for i in reversed(items[:-1]):
            out = 'Stmt.seq (%s) (%s)' % (i, out)
        return out

    def expr_stmt(self, n):
        """an expression evaluated for its effects"""
        s = strip(n)
        k = s.get('kind')
        cal = self.callee(s)
        if cal in ERRSET:
            if not self.is_al(kids(s)[1]):
                self.err('error setter not called on `al`', s)
            for extra in kids(s)[2:]:
                if self.scan(extra):
                    self.err('error setter argument has effects', s)
            return ERRSET[cal]
        if cal in CHECKERS:
            return 'Stmt.eval (Cond.chk (%s))' % self.chk(s)
        if k == 'BinaryOperator' and s.get('opcode') == '=' and self.ref_id(kids(s)[0]) in self.status and self.e_callee(kids(s)[1]):
            self.note_gsl_call(kids(s)[1])
            return 'Stmt.eval (Cond.gsl %d)' % self.status[self.ref_id(kids(s)[0])]
        if k == 'BinaryOperator' and s.get('opcode') == '=':
            rid = self.ref_id(kids(s)[0])
            if rid in self.bools:
                return 'Stmt.setb %d (%s)' % (self.bools[rid], self.cond(kids(s)[1]))
            if rid is not None:
                self.litinit.pop(rid, None)
        if k in ('UnaryOperator', 'CompoundAssignOperator'):
            rid = self.ref_id(kids(s)[0])
            if rid is not None:
                self.litinit.pop(rid, None)
        eff = self.scan(s)
        return self.seq(eff) if eff else 'Stmt.num'

    def stmt(self, n):
        k = n.get('kind')
        ks = kids(n)
        if k == 'CompoundStmt':
            return self.seq([self.stmt(c) for c in ks])
        if k == 'NullStmt':
            return 'Stmt.skip'
        if k == 'DeclStmt':
            out = []
            for v in ks:
                if v.get('kind') != 'VarDecl':
                    self.err('unsupported declaration', v)
                init = kids(v)
                if v['id'] in self.alias:
                    continue
                if v['id'] in self.bools:
                    if not init:
                        self.err('condition-valued local without initialiser', v)
                    out.append('Stmt.setb %d (%s)' % (self.bools[v['id']], self.cond(init[0])))
                    continue
                if init:
                    i0 = strip(init[0])
                    if i0.get('kind') == 'IntegerLiteral':
                        self.litinit[v['id']] = int(i0['value'])
                    eff = self.scan(init[0])
                    out.append(self.seq(eff) if eff else 'Stmt.num')
                else:
                    out.append('Stmt.num')
            return self.seq(out)
        if k == 'IfStmt':
            if n.get('hasInit') or n.get('hasVar'):
                self.err('if with init/variable', n)
            c = self.cond(ks[0])
            t = self.stmt(ks[1])
            e = self.stmt(ks[2]) if len(ks) > 2 else 'Stmt.skip'
            return 'Stmt.ite (%s) (%s) (%s)' % (c, t, e)
        if k == 'ForStmt':
            raw = n.get('inner', [])
            if len(raw) != 5:
                self.err('unexpected for statement shape', n)
            init, condvar, cnd, inc, body = raw
            if condvar:
                self.err('for with condition variable', n)
            c = strip(cnd)
            if not (c.get('kind') == 'BinaryOperator' and c.get('opcode') == '<' and
                    self.al_member(kids(c)[1]) == 'n'):
                self.err('for condition is not `i < al->n`', n)
            vid = self.ref_id(kids(c)[0])
            if vid is None or vid not in self.vardecls:
                self.err('for variable is not a local', n)
            i = strip(inc)
            if not (i.get('kind') == 'UnaryOperator' and i.get('opcode') == '++' and self.ref_id(kids(i)[0]) == vid):
                self.err('for increment is not ++i', n)
            start = None
            if init:
                s0 = strip(init)
                if (s0.get('kind') == 'BinaryOperator' and s0.get('opcode') == '=' and self.ref_id(kids(s0)[0]) == vid
                        and strip(kids(s0)[1]).get('kind') == 'IntegerLiteral'):
                    start = int(strip(kids(s0)[1])['value'])
                else:
                    self.err('for initialiser is not `i = literal`', n)
            else:
                start = self.litinit.get(vid)
                if start is None:
                    self.err('start value of the for variable is not syntactically known', n)
            if vid not in self.loopv:
                self.loopv[vid] = len(self.loopv)
            for w in self.walk(body):
                if w.get('kind') in ('BinaryOperator', 'CompoundAssignOperator', 'UnaryOperator') and \
                        w.get('opcode') in ('=', '++', '--', '+=', '-=') and self.ref_id(kids(w)[0]) == vid:
                    self.err('loop variable modified in the body', w)
                if w.get('kind') in ('BreakStmt', 'ContinueStmt'):
                    self.err('break/continue in for', w)
            b = self.stmt(body)
            self.litinit.pop(vid, None)
            return 'Stmt.for_ %d %d (%s)' % (self.loopv[vid], start, b)
        if k == 'ReturnStmt':
            if not ks:
                self.err('return without a value', n)
            e = strip(ks[0])
            cal = self.callee(e)
            if cal == 'check_result':
                args = kids(e)[1:]
                if not self.is_al(args[0]):
                    self.err('check_result not called on `al`', n)
                v = strip(args[1])
                if v.get('kind') == 'ConditionalOperator':
                    c0, a0, b0 = kids(v)
                    nanlit = strip(a0)
                    is_nan = nanlit.get('kind') == 'CallExpr' and (self.callee(nanlit) or '').startswith('__builtin_nan')
                    if self.e_callee(c0) and is_nan and not self.scan(b0):
                        self.note_gsl_call(c0)
                        return 'Stmt.ite (Cond.gsl %d) (Stmt.retCheckNaN) (Stmt.retCheck)' % self.new_local()
                if self.scan(args[1]):
                    self.err('assignment to derivs/hes inside the argument of check_result', n)
                return 'Stmt.retCheck'
            if e.get('kind') == 'IntegerLiteral' and e['value'] == '0':
                return 'Stmt.ret0'
            if e.get('kind') == 'FloatingLiteral' and float(e['value']) == 0.0:
                return 'Stmt.ret0'
            if cal in self.tr.user_functions:
                args = kids(e)[1:]
                if not self.is_al(args[0]):
                    self.err('helper not called on `al`', n)
                for extra in args[1:]:
                    if self.scan(extra):
                        self.err('helper argument has effects', n)
                return self.tr.body_of(cal)
            if self.scan(e):
                self.err('assignment to derivs/hes inside a return expression', n)
            return 'Stmt.retRaw'
        if k in ('WhileStmt', 'DoStmt', 'SwitchStmt', 'GotoStmt', 'BreakStmt', 'ContinueStmt', 'LabelStmt'):
            self.err('unsupported statement', n)
        # expression statement
        return self.expr_stmt(n)

    def translate(self):
        return self.stmt(self.body)


class Translator:
    def __init__(self, ast):
        self.decls = {}
        top = []
        for c in ast['inner']:
            if c.get('kind') == 'LinkageSpecDecl':
                top += kids(c)
            else:
                top.append(c)
        for c in top:
            if c.get('kind') == 'FunctionDecl' and any(x.get('kind') == 'CompoundStmt' for x in kids(c)):
                ps = [x for x in kids(c) if x.get('kind') == 'ParmVarDecl']
                if any(p['type']['qualType'] == 'arglist *' for p in ps) or c['name'] == 'funcadd_ASL':
                    if c['name'] in self.decls:
                        raise TranslateError('two definitions of %s' % c['name'])
                    self.decls[c['name']] = c
        self.al_functions = set(self.decls) - {'funcadd_ASL'}
        self.user_functions = {n for n in self.al_functions
                               if not n.startswith('amplgsl_') and n not in PRIMS}
        self.cache = {}
        self.active = []
        self.gsl_calls = {}

    def body_of(self, name):
        if name in self.cache:
            return self.cache[name]
        if name in self.active:
            raise TranslateError('recursive helper %s' % name)
        self.active.append(name)
        fn = Fn(self, self.decls[name])
        t = fn.translate()
        self.active.pop()
        self.cache[name] = t
        self.gsl_calls[name] = fn.gsl_calls
        return t

    def fingerprints(self):
        out = {}
        for p in PRIMS:
            if p not in self.decls:
                raise TranslateError('checker %s is gone from amplgsl.cc' % p)
            out[p] = fingerprint(self.decls[p])
        for p in TRANSCRIBED:
            if p in self.decls:
                out['formula:' + p] = fingerprint(self.decls[p])
        return out

    def registrations(self):
        """(ampl name, C function name, type constant, nargs) in registration order + handler-off flag"""
        f = self.decls.get('funcadd_ASL')
        if f is None:
            raise TranslateError('funcadd_ASL not found')
        body = [c for c in kids(f) if c.get('kind') == 'CompoundStmt'][0]
        regs = []
        handler_off_first = False
        first = True
        for st in kids(body):
            s = strip(st)
            if s.get('kind') == 'CallExpr':
                c0 = strip(kids(s)[0])
                if c0.get('kind') == 'DeclRefExpr' and c0.get('referencedDecl', {}).get('name') == 'gsl_set_error_handler_off':
                    if first:
                        handler_off_first = True
                    first = False
                    continue
                first = False
                callee = c0
                # (*ae->Addfunc)(name, f, type, nargs, funcinfo, ae)
                inner = strip(kids(callee)[0]) if callee.get('kind') == 'UnaryOperator' else callee
                if inner.get('kind') == 'MemberExpr' and inner.get('name') == 'Addfunc':
                    a = kids(s)[1:]
                    nm = strip(a[0])
                    if nm.get('kind') != 'StringLiteral':
                        raise TranslateError('Addfunc name is not a literal')
                    fn = strip(a[1])
                    if fn.get('kind') != 'DeclRefExpr':
                        raise TranslateError('Addfunc function is not a plain function reference')
                    ty = strip(a[2])
                    if ty.get('kind') == 'DeclRefExpr':
                        tyn = ty['referencedDecl']['name']
                    else:
                        raise TranslateError('Addfunc type is not an enumerator')
                    na = strip(a[3])
                    if na.get('kind') != 'IntegerLiteral':
                        raise TranslateError('Addfunc nargs is not a literal')
                    regs.append((json.loads(nm['value']), fn['referencedDecl']['name'], tyn, int(na['value'])))
                    continue
                if inner.get('kind') == 'MemberExpr' and inner.get('name') in ('AtReset', 'Addrandinit', 'AtExit'):
                    continue
                raise TranslateError('unexpected call in funcadd_ASL')
            elif s.get('kind') == 'IfStmt':
                # if (ae->ASLdate >= 20120830) addrandinit(rng_init, ae);
                continue
            elif s.get('kind') == 'NullStmt':
                continue
            else:
                raise TranslateError('unexpected statement %s in funcadd_ASL' % s.get('kind'))
        return regs, handler_off_first


def main(argv):
    repo, out, work = argv[1], argv[2], argv[3]
    os.makedirs(work, exist_ok=True)
    ast = clang_ast(repo, work)
    tr = Translator(ast)
    fps = tr.fingerprints()
    # bodies of the checker / error helpers -> lean/MpVerif/Gen/GslHelpers.lean (proved equal to the hand models in Props.lean)
    import tr_gsl_helpers
    helper_problems = []
    try:
        htext = tr_gsl_helpers.emit(tr.decls)
        hout = os.path.join(os.path.dirname(out), 'GslHelpers.lean')
        if not os.path.exists(hout) or open(hout).read() != htext:
            open(hout, 'w').write(htext)
    except Exception as e:      # (tr_gsl_helpers raises tr_gsl.TranslateError, a different class object when this file runs as __main__)
        if type(e).__name__ != 'TranslateError':
            raise
        helper_problems.append('untranslatable:%s' % e)
    # value / derivative / Hessian expressions of the elementary bindings -> lean/MpVerif/Gen/GslFormulas.lean
    import tr_gsl_formulas
    try:
        regs0, _ = tr.registrations()
        ftext = tr_gsl_formulas.emit(tr.decls, regs0)
        fout = os.path.join(os.path.dirname(out), 'GslFormulas.lean')
        if not os.path.exists(fout) or open(fout).read() != ftext:
            open(fout, 'w').write(ftext)
    except Exception as e:
        if type(e).__name__ != 'TranslateError':
            raise
        helper_problems.append('untranslatable:%s' % e)
    if '--print-fingerprints' in argv:
        print(json.dumps(fps, indent=1, sort_keys=True))
        return 0
    problems = list(helper_problems)
    expected = json.load(open(os.path.join(HERE, 'gsl_primitives.json')))
    for p in tr_gsl_helpers.LEAVES:        # only the string-formatting leaves are pinned; the other helpers are translated
        if fps[p] != expected.get(p):
            problems.append('checker-changed:%s' % p)
    for p in TRANSCRIBED:
        if fps.get('formula:' + p) != expected.get('formula:' + p):
            problems.append('formula-changed:%s' % p)
    regs, handler_off = tr.registrations()
    lines = ['/- GENERATED by translators/tr_gsl.py from src/gsl/amplgsl.cc. Do not edit: regenerated on every check run. -/',
             'import MpVerif.C16.Model',
             'namespace MpVerif.Gen.GslSkel',
             'open MpVerif.C16',
             '']
    done = {}
    untranslatable = []
    for ampl, cfn, ty, nargs in regs:
        if ty == 'FUNCADD_STRING_VALUED':
            continue
        if cfn in done:
            continue
        if cfn not in tr.decls:
            raise TranslateError('registered function %s has no definition in amplgsl.cc' % cfn)
        try:
            done[cfn] = tr.body_of(cfn)
        except TranslateError as e:
            untranslatable.append(str(e))
            done[cfn] = None
    if untranslatable:
        problems += ['untranslatable:' + u for u in untranslatable]
    for cfn, t in done.items():
        if t is not None:
            lines.append('def sk_%s : Stmt := %s' % (cfn, t))
    lines.append('')
    lines.append('structure Entry where')
    lines.append('  name : String')
    lines.append('  nargs : Nat')
    lines.append('  random : Bool')
    lines.append('  body : Stmt')
    lines.append('  deriving DecidableEq')
    lines.append('')
    lines.append('/-- the real-valued functions funcadd_ASL registers, in registration order -/')
    lines.append('def registered : List Entry := [')
    ent = []
    nstr = 0
    for ampl, cfn, ty, nargs in regs:
        if ty == 'FUNCADD_STRING_VALUED':
            nstr += 1
            continue
        if done.get(cfn) is None:
            continue
        ent.append('  { name := "%s", nargs := %d, random := %s, body := sk_%s }' %
                   (ampl, nargs, 'true' if ty == 'FUNCADD_RANDOM_VALUED' else 'false', cfn))
    lines.append(',\n'.join(ent))
    lines.append(']')
    lines.append('')
    lines.append('/-- funcadd_ASL begins with gsl_set_error_handler_off() -/')
    lines.append('def errorHandlerOffFirst : Bool := %s' % ('true' if handler_off else 'false'))
    lines.append('def stringValuedRegistered : Nat := %d' % nstr)
    lines.append('end MpVerif.Gen.GslSkel')
    text = '\n'.join(lines) + '\n'
    if not problems or all(p.startswith(('checker-changed', 'formula-changed')) for p in problems):
        old = open(out).read() if os.path.exists(out) else None
        if old != text:
            os.makedirs(os.path.dirname(out), exist_ok=True)
            open(out, 'w').write(text)
    # bindings that wrap exactly one status-returning GSL routine: C++ table so that the harness can call the
    # same routine directly with the same arguments (value oracle independent of the binding)
    direct = ['// GENERATED by translators/tr_gsl.py: the GSL `_e` routine each binding wraps, callable on a plain argument vector',
              '#include <gsl/gsl_sf.h>', '#include <gsl/gsl_errno.h>', 'struct DirectGsl { const char *ampl; const char *gsl; int (*f)(const double *, gsl_sf_result *); };']
    rows, ndirect = [], 0
    for ampl, cfn, ty, nargs in regs:
        calls = tr.gsl_calls.get(cfn) or []
        if len(calls) == 1 and calls[0][1] is not None and done.get(cfn):
            direct.append('static int direct_%d(const double *ra, gsl_sf_result *r_) { (void)ra; return %s(%s); }' % (ndirect, calls[0][0], calls[0][1]))
            rows.append('  {"%s", "%s", direct_%d},' % (ampl, calls[0][0], ndirect))
            ndirect += 1
    direct += ['static const DirectGsl DIRECT_GSL[] = {'] + rows + ['  {0, 0, 0}', '};']
    dtext = '\n'.join(direct) + '\n'
    dpath = os.path.join(work, 'gsl_direct.inc')
    if not os.path.exists(dpath) or open(dpath).read() != dtext:
        open(dpath, 'w').write(dtext)
    meta = {'gsl_calls': {k: v for k, v in tr.gsl_calls.items() if v}, 'direct_table_entries': ndirect, 'registered': [[a, c, t, n] for a, c, t, n in regs], 'handler_off_first': handler_off,
            'fingerprints': fps, 'problems': problems, 'functions_translated': sum(1 for t in done.values() if t)}
    json.dump(meta, open(os.path.join(work, 'gsl_skel_meta.json'), 'w'), indent=1)
    print('tr_gsl: %d registrations (%d string-valued), %d skeletons, handler_off_first=%s, problems=%s' %
          (len(regs), nstr, meta['functions_translated'], handler_off, problems[:6]))
    return 2 if problems else 0


if __name__ == '__main__':
    try:
        sys.exit(main(sys.argv))
    except TranslateError as e:
        print('tr_gsl: FAILED: %s' % e)
        sys.exit(2)

#!/usr/bin/env python3
"""C16: translate the value / derivative / Hessian EXPRESSIONS of the elementary bindings of src/gsl/amplgsl.cc into
RExpr terms (lean/MpVerif/C16/RExpr.lean)  ->  lean/MpVerif/Gen/GslFormulas.lean.   Used by tr_gsl.py.

Straight-line symbolic execution of the path on which derivatives and Hessian are requested: locals are inlined,
reads of al->derivs[i] are replaced by what was stored there.  Anything else raises TranslateError."""
from fractions import Fraction
from tr_gsl import TranslateError, kids, strip

ELEMENTARY = ['amplgsl_log1p', 'amplgsl_expm1', 'amplgsl_hypot', 'amplgsl_hypot3', 'amplgsl_sf_log', 'amplgsl_sf_log_abs',
              'amplgsl_sf_log_1plusx', 'amplgsl_sf_log_1plusx_mx', 'amplgsl_sf_legendre_P1', 'amplgsl_sf_legendre_P2',
              'amplgsl_sf_legendre_P3', 'amplgsl_sf_gegenpoly_1', 'amplgsl_sf_gegenpoly_2', 'amplgsl_sf_gegenpoly_3',
              'amplgsl_sf_laguerre_1', 'amplgsl_sf_laguerre_2', 'amplgsl_sf_laguerre_3', 'amplgsl_sf_fermi_dirac_m1',
              'amplgsl_sf_fermi_dirac_0', 'amplgsl_sf_bessel_j0', 'amplgsl_sf_bessel_y0']
# bindings whose value (and usually derivative) is a GSL special function: the functions stay SYMBOLS (`call1 name x`), the theorems
# of DerivGen.lean are conditional on the classical derivative identities of those symbols (table `dsym` in RDiff.lean)
SYMBOLIC = ['amplgsl_sf_bessel_J0', 'amplgsl_sf_bessel_J1', 'amplgsl_sf_bessel_Y0', 'amplgsl_sf_bessel_Y1', 'amplgsl_sf_bessel_I0',
            'amplgsl_sf_bessel_I1', 'amplgsl_sf_bessel_K0', 'amplgsl_sf_bessel_K1', 'amplgsl_sf_bessel_K0_scaled', 'amplgsl_sf_bessel_K1_scaled',
            'amplgsl_sf_airy_Ai', 'amplgsl_sf_airy_Bi', 'amplgsl_sf_dawson', 'amplgsl_sf_erf_Z', 'amplgsl_sf_erf_Q', 'amplgsl_sf_hazard',
            'amplgsl_sf_expint_E1', 'amplgsl_sf_expint_E2', 'amplgsl_sf_expint_Ei', 'amplgsl_sf_Si', 'amplgsl_sf_Ci', 'amplgsl_sf_expint_3',
            'amplgsl_sf_fermi_dirac_1', 'amplgsl_sf_fermi_dirac_2', 'amplgsl_sf_fermi_dirac_3half', 'amplgsl_sf_gamma', 'amplgsl_sf_psi_1',
            'amplgsl_cdf_ugaussian_P', 'amplgsl_ran_ugaussian_pdf']
# two-argument bindings f(order, x) whose derivative is w.r.t. x only (the order must be constant): the order is a PARAMETER of the
# symbol, `gsl_f(n + k, x)` becomes the one-argument symbol `gsl_f@k` applied to x; only derivs[1] and hes[2] are assigned
ORDERED = ['amplgsl_sf_bessel_Jn', 'amplgsl_sf_bessel_Yn', 'amplgsl_sf_bessel_In', 'amplgsl_sf_bessel_Kn', 'amplgsl_sf_bessel_Kn_scaled',
           'amplgsl_sf_fermi_dirac_int', 'amplgsl_sf_bessel_Jnu', 'amplgsl_sf_bessel_Ynu', 'amplgsl_sf_bessel_Inu', 'amplgsl_sf_bessel_Knu',
           'amplgsl_sf_bessel_Knu_scaled']
LIBM = {'exp': 'exp', 'log': 'log', 'sin': 'sin', 'cos': 'cos', 'sqrt': 'sqrt'}


def lean(e):
    k = e[0]
    if k == 'arg':
        return 'RExpr.arg %d' % e[1]
    if k == 'lit':
        return 'RExpr.lit (%d) %d' % (e[1].numerator, e[1].denominator)
    if k in ('neg', 'sqrt', 'exp', 'log', 'sin', 'cos'):
        return 'RExpr.%s (%s)' % (k, lean(e[1]))
    if k in ('add', 'sub', 'mul', 'div'):
        return 'RExpr.%s (%s) (%s)' % (k, lean(e[1]), lean(e[2]))
    if k == 'ifNe':
        return 'RExpr.ifNe (%s) (%s) (%s) (%s)' % tuple(lean(x) for x in e[1:])
    if k == 'call':
        return 'RExpr.call%d "%s" %s' % (len(e[2]), e[1], ' '.join('(%s)' % lean(x) for x in e[2]))
    raise TranslateError('internal: %r' % (e,))


class FFn:
    def __init__(self, decl, nargs, ordered=False):
        self.ordered = ordered
        self.order_vars = set()
        self.result_sym = None
        self.result_vars = set()
        self.status_vars = set()
        self.decl = decl
        self.name = decl['name']
        self.nargs = nargs
        self.al = [c['id'] for c in kids(decl) if c.get('kind') == 'ParmVarDecl'][0]
        self.env = {}
        self.alias = {}
        self.d = {}
        self.h = {}
        self.value = None

    def err(self, msg, n=None):
        raise TranslateError('formulas of %s: %s%s' % (self.name, msg, (' (node %s)' % n.get('kind')) if n else ''))

    def ref(self, n):
        n = strip(n)
        return n.get('referencedDecl', {}).get('id') if n.get('kind') == 'DeclRefExpr' else None

    def member(self, n):
        n = strip(n)
        if n.get('kind') == 'MemberExpr' and n.get('isArrow') and self.ref(kids(n)[0]) == self.al:
            return n['name']
        return None

    def base(self, n):
        m = self.member(n)
        if m in ('derivs', 'hes', 'ra'):
            return m
        return self.alias.get(self.ref(n))

    def slot(self, n):
        n = strip(n)
        if n.get('kind') == 'UnaryOperator' and n.get('opcode') == '*':
            b = self.base(kids(n)[0])
            if b:
                return (b, 0)
        if n.get('kind') == 'ArraySubscriptExpr':
            b = self.base(kids(n)[0])
            idx = strip(kids(n)[1])
            if b and idx.get('kind') == 'IntegerLiteral':
                return (b, int(idx['value']))
        return None

    def callee(self, n):
        c = strip(kids(n)[0])
        return c.get('referencedDecl', {}).get('name') if c.get('kind') == 'DeclRefExpr' else None

    def order_offset_init(self, n):
        n0 = n
        while n0.get('kind') in ('ImplicitCastExpr', 'ParenExpr') and len(kids(n0)) == 1:
            n0 = kids(n0)[0]
        return n0.get('kind') == 'CStyleCastExpr' and n0['type']['qualType'] == 'int' and self.slot(kids(n0)[0]) == ('ra', 0)

    def order_offset(self, n):
        """k if n denotes (order + k): the order is the int local initialised with (int)al->ra[0], or al->ra[0] itself"""
        n0 = n
        while n0.get('kind') in ('ImplicitCastExpr', 'ParenExpr', 'ConstantExpr', 'CStyleCastExpr') and len(kids(n0)) == 1:
            n0 = kids(n0)[0]
        if n0.get('kind') == 'DeclRefExpr':
            rid = n0['referencedDecl']['id']
            if rid in self.order_vars or self.env.get(rid) == ('arg', 0):
                return 0
            return None
        s_ = self.slot(n0)
        if s_ == ('ra', 0):
            return 0
        if n0.get('kind') == 'BinaryOperator' and n0.get('opcode') in ('+', '-'):
            a, b = kids(n0)
            base = self.order_offset(a)
            lit = strip(b)
            if base is not None and lit.get('kind') in ('IntegerLiteral', 'FloatingLiteral') and float(lit['value']) == int(float(lit['value'])):
                k = int(float(lit['value']))
                return base + k if n0['opcode'] == '+' else base - k
        return None

    def expr(self, n):
        n0 = n
        while n0.get('kind') in ('ImplicitCastExpr', 'ParenExpr', 'ConstantExpr') and len(kids(n0)) == 1:
            n0 = kids(n0)[0]
        k = n0.get('kind')
        ks = kids(n0)
        if k == 'FloatingLiteral':
            return ('lit', Fraction(n0['value']))
        if k == 'IntegerLiteral':
            return ('lit', Fraction(int(n0['value'])))
        if k == 'UnaryOperator' and n0.get('opcode') == '-':
            return ('neg', self.expr(ks[0]))
        s = self.slot(n0)
        if s:
            if s[0] == 'ra':
                return ('arg', s[1])
            store = self.d if s[0] == 'derivs' else self.h
            if s[1] not in store:
                self.err('%s[%d] read before it is stored' % s, n0)
            return store[s[1]]
        if k == 'BinaryOperator' and n0.get('opcode') in ('+', '-', '*', '/'):
            return ({'+': 'add', '-': 'sub', '*': 'mul', '/': 'div'}[n0['opcode']], self.expr(ks[0]), self.expr(ks[1]))
        if k == 'BinaryOperator' and n0.get('opcode') == '=' and self.ref(ks[0]) in self.status_vars:
            self.result_sym = self.expr(ks[1])        # status = gsl_f_e(order, x, &result): result.val is the symbol
            return self.result_sym
        if k == 'BinaryOperator' and n0.get('opcode') == '=':
            t = self.slot(ks[0])
            v = self.expr(ks[1])
            if t and t[0] in ('derivs', 'hes'):
                (self.d if t[0] == 'derivs' else self.h)[t[1]] = v
                return v
            rid = self.ref(ks[0])
            if rid is not None:
                self.env[rid] = v
                return v
            self.err('assignment to an unknown target', n0)
        if k == 'MemberExpr' and n0.get('name') == 'val' and self.ref(ks[0]) in self.result_vars and self.result_sym is not None:
            return self.result_sym
        if k == 'DeclRefExpr':
            rid = n0['referencedDecl']['id']
            if rid in self.env:
                return self.env[rid]
            self.err('use of %s, which has no real-valued definition here' % n0['referencedDecl'].get('name'), n0)
        if k == 'CallExpr':
            cal = self.callee(n0)
            anodes = list(ks[1:])
            # gsl_f(x, GSL_PREC_DOUBLE): the precision mode is not a mathematical argument; gsl_f(2, x): a literal order names the function
            while anodes and (anodes[-1].get('type', {}).get('qualType') in ('gsl_mode_t',) or
                              strip(anodes[-1]).get('type', {}).get('qualType') == 'gsl_mode_t'):
                anodes.pop()
            if cal and cal.startswith('gsl_') and len(anodes) == 2 and strip(anodes[0]).get('kind') == 'IntegerLiteral' \
                    and strip(anodes[0]).get('type', {}).get('qualType') == 'int':
                cal = '%s#%s' % (cal, strip(anodes[0])['value'])
                anodes = anodes[1:]
            if self.ordered and cal and cal.startswith('gsl_') and len(anodes) in (2, 3):
                # gsl_f(order + k, x [, &result]) -> symbol gsl_f@k (x)
                if len(anodes) == 3:
                    anodes = anodes[:2]
                k = self.order_offset(anodes[0])
                if k is not None:
                    nm = cal[:-2] if cal.endswith('_e') else cal
                    return ('call', '%s@%d' % (nm, k), [self.expr(anodes[1])])
            args = [self.expr(a) for a in anodes]
            if cal in LIBM and len(args) == 1:
                return (LIBM[cal], args[0])
            if cal and cal.startswith('gsl_') and 1 <= len(args) <= 3:
                return ('call', cal, args)
            self.err('call of %s' % cal, n0)
        if k == 'ConditionalOperator':
            c = strip(ks[0])
            if c.get('kind') == 'BinaryOperator' and c.get('opcode') in ('!=', '=='):
                a, b = self.expr(kids(c)[0]), self.expr(kids(c)[1])
                t, e = self.expr(ks[1]), self.expr(ks[2])
                return ('ifNe', a, b, t, e) if c['opcode'] == '!=' else ('ifNe', a, b, e, t)
            self.err('?: with a condition other than != / ==', n0)
        self.err('unsupported expression', n0)

    def stmt(self, n):
        k = n.get('kind')
        ks = kids(n)
        if k == 'CompoundStmt':
            for c in ks:
                self.stmt(c)
            return
        if k == 'NullStmt':
            return
        if k == 'DeclStmt':
            for v in ks:
                q = v['type']['qualType']
                init = kids(v)
                if q in ('real *', 'double *') and init and self.member(init[0]) in ('derivs', 'hes'):
                    self.alias[v['id']] = self.member(init[0])
                elif q == 'double':
                    if init:
                        self.env[v['id']] = self.expr(init[0])
                elif self.ordered and q == 'int' and v.get('name') == 'status':
                    self.status_vars.add(v['id'])
                elif self.ordered and q == 'gsl_sf_result':
                    self.result_vars.add(v['id'])
                elif self.ordered and q == 'int' and init and self.order_offset_init(init[0]):
                    self.order_vars.add(v['id'])
                else:
                    self.err('local of type %s' % q, v)
            return
        if k == 'IfStmt':
            m = self.member(ks[0])
            if m in ('derivs', 'hes'):
                self.stmt(ks[1])
                if len(ks) > 2:
                    self.err('else branch of if (al->%s)' % m, n)
                return
            # if (!check_args(al)) return 0;
            c = strip(ks[0])
            if c.get('kind') == 'UnaryOperator' and c.get('opcode') == '!' and strip(kids(c)[0]).get('kind') == 'CallExpr' \
                    and self.callee(strip(kids(c)[0])) == 'check_args' and len(ks) == 2:
                return
            if self.ordered:
                # if (al->derivs && check_const_arg(al, 0, "nu")) { ... }
                if c.get('kind') == 'BinaryOperator' and c.get('opcode') == '&&' and self.member(kids(c)[0]) == 'derivs' \
                        and strip(kids(c)[1]).get('kind') == 'CallExpr' and self.callee(strip(kids(c)[1])) == 'check_const_arg' and len(ks) == 2:
                    self.stmt(ks[1])
                    return
                # guards that only return 0: if (!check_bessel_args(...)) return 0;  if (!check_int_arg(...)) return 0;  if (status != GSL_SUCCESS) {eval_error; return 0;}
                rets = [w for w in self.walk(ks[1]) if w.get('kind') == 'ReturnStmt']
                writes = [w for w in self.walk(ks[1]) if w.get('kind') == 'BinaryOperator' and w.get('opcode') == '=']
                if len(ks) == 2 and rets and not writes and all(strip(kids(r)[0]).get('kind') == 'IntegerLiteral' for r in rets):
                    return
            self.err('if statement other than if (al->derivs) / if (al->hes) / the check_args guard', n)
        if k == 'ReturnStmt':
            e = strip(ks[0])
            if e.get('kind') == 'CallExpr' and self.callee(e) == 'check_result':
                self.value = self.expr(kids(e)[2])
                return
            self.err('return without check_result', n)
        self.expr(n)

    def walk(self, n):
        yield n
        for c in kids(n):
            yield from self.walk(c)

    def translate(self):
        self.stmt([c for c in kids(self.decl) if c.get('kind') == 'CompoundStmt'][0])
        n = self.nargs
        nh = n * (n + 1) // 2
        if self.ordered:
            if self.value is None or sorted(self.d) != [1] or sorted(self.h) != [2] or n != 2:
                self.err('expected exactly value, derivs[1] and hes[2] for a binding f(order, x)')
            zero = ('lit', Fraction(0))
            return self.value, [zero, self.d[1]], [zero, zero, self.h[2]]
        if self.value is None or sorted(self.d) != list(range(n)) or sorted(self.h) != list(range(nh)):
            self.err('not all of value / derivs[0..%d) / hes[0..%d) are assigned on the straight path' % (n, nh))
        return self.value, [self.d[i] for i in range(n)], [self.h[i] for i in range(nh)]


def emit(decls, regs):
    nargs = {c: n for a, c, t, n in regs}
    ampl = {c: a for a, c, t, n in regs}
    out = ['/- GENERATED by translators/tr_gsl.py (tr_gsl_formulas.py) from src/gsl/amplgsl.cc. Do not edit: regenerated on every check run. -/',
           'import MpVerif.C16.RExpr', 'namespace MpVerif.Gen.GslFormulas', 'open MpVerif.C16', '']
    names = []
    for f in ELEMENTARY + SYMBOLIC + ORDERED:
        if f not in decls or f not in nargs:
            raise TranslateError('elementary binding %s is gone' % f)
        v, d, h = FFn(decls[f], nargs[f], ordered=(f in ORDERED)).translate()
        nm = 'f_' + ampl[f]
        names.append(nm)
        out.append('def %s : Formulas := {\n  name := "%s",\n  nargs := %d,\n  value := %s,\n  derivs := [%s],\n  hes := [%s] }' %
                   (nm, ampl[f], nargs[f], lean(v), ',\n    '.join(lean(x) for x in d), ',\n    '.join(lean(x) for x in h)))
    out += ['', 'def formulas : List Formulas := [%s]' % ', '.join(names), '', 'end MpVerif.Gen.GslFormulas', '']
    return '\n'.join(out)

#!/usr/bin/env python3
"""Regenerate lean/MpVerif/Gen/SolGuards.lean from the ampl/mp working tree (properties C14 and C05).

The SOL reader (nl-writer2/include/mp/sol-reader2.hpp) is one 330-line member function plus helpers that mix
FILE* / char* handling with small *integer decisions*.  The decisions are what the properties hinge on, so they are
cut out of the CURRENT source text as verbatim slices, wrapped into free functions of a synthetic translation unit
(members and calls that are not integer logic are mapped by explicit, listed rewrite rules / macros), and that TU goes
through clang-14's typed AST and tr_cint's translator (extended here with `&`, `|`, `sizeof`, character literals,
compound assignment).  Every slice marker and every rewrite rule must match the source exactly as often as stated:
if the code around a decision is edited so that a marker or rule no longer matches, or a construct is not understood,
the translator fails loudly (TRANSLATE-ERROR, exit 3) -- never a silent default.

Generated definitions (namespace MpVerif.Gen.SolGuards), each `Outcome Int` over MpVerif.Basic.CSem:
  count_guard z3 z1 nv nc            'Wrong NumVars/NumAlgCons' checks after the Options block  (0 = pass, 3 = Bad_Format)
  sufheadcheck kind n namelen tablen tablines      SOLReader2::sufheadcheck incl. the size passed to xp.resize (overflow = ub)
  lget_step L c                      one digit of Lget's accumulation (-1 = reject)
  opts_header_text o0 o2 / opts_header_bin o0 o2   option-count check 3..9 and the vbtol flag (-1 = bad, else 2*(nOpts+5)+need_vbtol)
  is_opts_record L                   binary: does the record length L announce an Options record
  rec_len j                          binary: record length of a vector of j reals (uiolen arithmetic)
  suffix_is_real_bin / _text kind    reader: `SR.h.kind & 4` in bsufread / gsufread
  w_kind_mask kind / w_is_output kind    writer (include/mp/sol.h): kind printed in the suffix header, OUTPUT filter
plus (structure tie, A') the ordered list of format strings the writer prints and fmt's spellings of non-finite doubles:
  writer_formats : List String, fmt_nonfinite : List String

usage: gen_solguards.py <repo> <out.lean> <workdir>
"""
import sys, os, re, json
sys.path.insert(0, os.path.dirname(__file__))
from tr_cint import *
import tr_cint

SIZEOF = {'int': 4, 'unsigned int': 4, 'double': 8, 'long': 8, 'unsigned long': 8, 'char': 1}


class FnX(Fn):
    """tr_cint.Fn + bitwise and/or, sizeof of scalar types, character literals, compound assignment"""

    def expr(self, n):
        n0 = strip(n)
        k = n0['kind']
        if k == 'CharacterLiteral':
            return ('p', '(%d : Int)' % n0['value'])
        if k == 'UnaryExprOrTypeTraitExpr':
            if n0.get('name') != 'sizeof':
                raise TranslateError('unsupported trait %s' % n0.get('name'))
            t = n0.get('argType', {})
            q = t.get('desugaredQualType', t.get('qualType'))
            if q not in SIZEOF:
                raise TranslateError('sizeof of unknown type %r' % q)
            return ('p', '(%d : Int)' % SIZEOF[q])
        if k == 'BinaryOperator' and n0.get('opcode') in ('&', '|'):
            a, b = n0['inner']
            ka, ea = self.expr(a)
            kb, eb = self.expr(b)
            f = 'cband' if n0['opcode'] == '&' else 'cbor'
            return self.lift2(ka, ea, kb, eb, lambda x, y: '(%s %s %s)' % (f, x, y))
        return Fn.expr(self, n)

    def stmts(self, lst, final):
        if lst:
            s = strip(lst[0])
            if s['kind'] == 'CompoundAssignOperator' and s.get('opcode') in ('-=', '+='):
                lhs, rhs = s['inner']
                lhs = strip(lhs)
                if lhs['kind'] != 'DeclRefExpr':
                    raise TranslateError('compound assignment to non-variable')
                rid = lhs['referencedDecl']['id']
                t = cty(s.get('computeResultType', {}).get('qualType', qual(s)))
                kind, e = self.expr(rhs)
                cur = self.vars[rid]
                op = 'csub' if s['opcode'] == '-=' else 'cadd'
                v = self.fresh('asg_')
                self.vars[rid] = v
                body = self.stmts(lst[1:], final)
                kk, ee = self.liftm([(kind, e)], lambda xs: '%s %s %s %s' % (op, t, cur, xs[0]))
                return '(Outcome.bind %s fun %s => %s)' % (ee, v, body)
        return Fn.stmts(self, lst, final)


def cut(text, start, end, what):
    """the unique slice of `text` from `start` (inclusive) up to `end` (exclusive)"""
    if text.count(start) != 1:
        raise TranslateError('%s: start marker %r occurs %d times (expected 1)' % (what, start, text.count(start)))
    i = text.index(start)
    j = text.find(end, i + len(start))
    if j < 0:
        raise TranslateError('%s: end marker %r not found after the start marker' % (what, end))
    return text[i:j]


def rewrite(s, rules, what):
    for pat, rep, cnt in rules:
        n = len(re.findall(pat, s))
        if n != cnt:
            raise TranslateError('%s: rewrite rule %r matches %d times (expected %d)' % (what, pat, n, cnt))
        s = re.sub(pat, rep, s)
    return s


def c_api_capacity(repo):
    """capacity of the C API's AMPLOptions_C::options_ (nl-writer2/include/api/c/sol-handler-c.h) with MAX_AMPL_OPTIONS from nl-header-c.h"""
    ch = open(os.path.join(repo, 'nl-writer2', 'include', 'api', 'c', 'sol-handler-c.h')).read()
    nh = open(os.path.join(repo, 'nl-writer2', 'include', 'mp', 'nl-header-c.h')).read()
    mx = re.findall(r'\bMAX_AMPL_OPTIONS\s*=\s*(\d+)', nh)
    arr = re.findall(r'long options_\[\s*(MAX_AMPL_OPTIONS(?:\s*\+\s*\d+)?|\d+)\s*\];', ch)
    if len(mx) != 1 or len(arr) != 1:
        raise TranslateError('C API: MAX_AMPL_OPTIONS / `long options_[...]` of AMPLOptions_C not found exactly once')
    return eval(arr[0].replace('MAX_AMPL_OPTIONS', mx[0]), {'__builtins__': {}})


def build_tu(repo):
    rd = open(os.path.join(repo, 'nl-writer2', 'include', 'mp', 'sol-reader2.hpp')).read()
    wr = open(os.path.join(repo, 'include', 'mp', 'sol.h')).read()
    # the integer type aliases are taken verbatim from the class body in sol-reader2.h (the `#ifndef Long` block up to `private:`), so a changed alias
    # changes the types clang assigns in every slice below (`Long` is not defined as a macro anywhere in the tree: checked)
    rh = open(os.path.join(repo, 'nl-writer2', 'include', 'mp', 'sol-reader2.h')).read()
    aliases = cut(rh, '#ifndef Long\n', 'private:\n  SOLHandler& solh_;', 'integer type aliases of SOLReader2')
    if re.search(r'#\s*define\s+Long\b', rd + rh):
        raise TranslateError('integer type aliases: `Long` is defined as a macro; the #else branch of the alias block is not modelled')
    parts = ['#include "mp/common.h"\n', 'namespace solguards {\n' + aliases + '\n']

    # ---- count guards ('Some checks.' block up to the binary continuation)
    blk = cut(rd, '    j = (int)z[3];', '    if (binary) {      // read on for binary', 'count guard')
    blk = rewrite(blk, [(r'z\[3\]', 'z3', 1), (r'z\[1\]', 'z1', 1), (r'NumVars\(\)', 'nv', 2), (r'NumAlgCons\(\)', 'nc', 2),
                        (r'serror\([^)]*\);', ';', 2), (r'return ReportBadFormat\(\);', 'return 3;', 2)], 'count guard')
    parts.append('int count_guard(Long z3, Long z1, int nv, int nc) {\n  int j = 0; int internal_rv_ = 0;\n%s  return 0;\n}\n' % blk)

    # ---- sufheadcheck: the whole body
    body = cut(rd, 'int SOLReader2<SOLHandler>::sufheadcheck(SufRead* sr) {', 'template <class SOLHandler>\nNLW2_SOLReadResultCode SOLReader2<SOLHandler>::ReportEarlyEof()',
               'sufheadcheck')
    body = body[body.index('{') + 1: body.rindex('}')]
    body = rewrite(body, [(r'\bint n;', 'int n = 0; int i = 0; int alloc_ = 0;', 1),
                          (r'sr->h\.kind', 'kind', 3), (r'sr->h\.namelen', 'namelen', 4), (r'sr->h\.tablen', 'tablen', 6), (r'sr->h\.n\b', 'n_', 1),
                          (r'sr->tablines', 'tablines', 2),
                          (r'sr->xp\.resize\(\((.*)\)\);', r'alloc_ = (\1);', 1),
                          (r'sr->name = \(char\*\)sr->xp\.data\(\);', ';', 1), (r'sr->table = sr->name \+ namelen;', ';', 1),
                          (r'sr->tabname = sr->table \+ tablen;', ';', 1)], 'sufheadcheck')
    parts.append('int sufheadcheck(int kind, int n_, int namelen, int tablen, int tablines) {\n%s}\n' % body)

    # ---- Lget: one step of the digit loop
    loop = cut(rd, "  while((c = *s) >= '0' && c <= '9') {", '  *Lp = L;', 'Lget digit loop')
    loop = loop[loop.index('{') + 1: loop.rindex('}')]
    loop = rewrite(loop, [(r'return 1;', 'return -1;', 1), (r's\+\+;', ';', 1)], 'Lget digit loop')
    parts.append('int lget_step(int L, int c) {\n%s  return L;\n}\n' % loop)

    # ---- option header, text and binary
    t = cut(rd, '        nOpts = Options[0];', '        for(j = 4; j < je; j++) {', 'options header (text)')
    t = rewrite(t, [(r'Options\[0\]', 'o0', 1), (r'Options\[2\]', 'o2', 1), (r'goto bad_nOpts;', 'return -1;', 1)], 'options header (text)')
    parts.append('int opts_header_text(Long o0, Long o2) {\n  Long nOpts = 0; int need_vbtol = 0; int je = 0;\n%s  return je * 2 + need_vbtol;\n}\n' % t)
    b = cut(rd, 'return ReportEarlyEof();\n      nOpts = Options[0];', '      if (!fread((char *)(Options+4), sizeof(Long),', 'options header (binary)')
    b = b[len('return ReportEarlyEof();\n'):]
    b = rewrite(b, [(r'Options\[0\]', 'o0', 1), (r'Options\[2\]', 'o2', 1), (r'bad_nOpts:', '', 1), (r'serror\([^)]*\);', ';', 1),
                    (r'return ReportBadFormat\(\);', 'return -1;', 1)], 'options header (binary)')
    parts.append('int opts_header_bin(Long o0, Long o2) {\n  Long nOpts = 0; int need_vbtol = 0;\n%s  return ((int)(nOpts+5)) * 2 + need_vbtol;\n}\n' % b)

    # ---- binary record-length arithmetic
    c = cut(rd, '    L2 = L - (8*sizeof(Long) + 7);', ' {\n      /////////////// check for Options', 'options record test')
    c = rewrite(c, [(r'if \(L2 <=', 'return (L2 <=', 1)], 'options record test')
    parts.append('int is_opts_record(uiolen L) {\n  uiolen L2 = 0;\n%s;\n}\n' % c)
    d = cut(rd, '      L1 = j * sizeof(real);', '\n', 'record length')
    parts.append('uiolen rec_len(int j) {\n  uiolen L1 = 0;\n%s\n  return L1;\n}\n' % d)
    if rd.count('		L1 = NumAlgCons() * sizeof(real);') != 1 or rd.count('    L1 = i * sizeof(real);') != 1:
        raise TranslateError('record length: the other two `L1 = <count> * sizeof(real)` statements changed')

    # ---- suffix kind test in both suffix readers (bsufread first, gsufread second)
    tests = re.findall(r'if \(SR\.h\.(kind [^)]*)\) \{        // real-valued', rd)
    if len(tests) != 2:
        raise TranslateError('suffix kind test `if (SR.h.kind ...) {        // real-valued` expected twice (bsufread, gsufread), found %d' % len(tests))
    for nm, ex in zip(('suffix_is_real_bin', 'suffix_is_real_text'), tests):
        parts.append('int %s(int kind) {\n  if (%s) return 1;\n  return 0;\n}\n' % (nm, ex))

    # ---- C API: how many option values NLW2_SOLHandler_C_Impl::OnAMPLOptions copies into AMPLOptions_C::options_ and reports in n_options_
    # (sol-handler-c-impl.h).  Trusted rewrites: `sizeof(ao_c.options_) / sizeof(ao_c.options_[0])` -> the array length read from sol-handler-c.h,
    # `std::min` on two std::size_t -> the function sg_min below (its definition in the C++ standard), `ao.options_.size()` -> the parameter.
    ci = open(os.path.join(repo, 'nl-writer2', 'include', 'api', 'c', 'sol-handler-c-impl.h')).read()
    sl = cut(ci, '    AMPLOptions_C ao_c;\n', '    std::copy(ao.options_.begin()', 'C API options copy count')
    sl = rewrite(sl, [(r'AMPLOptions_C ao_c;', '', 1), (r'sizeof\(ao_c\.options_\)\s*/\s*sizeof\(ao_c\.options_\[0\]\)', '%dUL' % c_api_capacity(repo), 1),
                      (r'std::min\(', 'sg_min(', 1), (r'ao\.options_\.size\(\)', 'size_', 1), (r'ao_c\.n_options_', 'n_options_', 1),
                      (r'std::size_t', 'unsigned long', 2)], 'C API options copy count')
    if len(re.findall(r'std::copy\(ao\.options_\.begin\(\), ao\.options_\.begin\(\) \+ n,\s*ao_c\.options_\);', ci)) != 1:
        raise TranslateError('C API options copy: `std::copy(ao.options_.begin(), ao.options_.begin() + n, ao_c.options_);` not found exactly once')
    parts.append('unsigned long sg_min(unsigned long a, unsigned long b) { return b < a ? b : a; }\n'
                 'int c_api_copy_count(unsigned long size_) {\n  int n_options_ = 0;\n%s  return n_options_;\n}\n' % sl)

    # ---- writer: kind mask and OUTPUT filter (include/mp/sol.h, WriteSuffixes); markers do not contain the decisions themselves
    mm = re.findall(r'\n(    int mask = [^;]*;)', wr)
    if len(mm) != 1 or wr.count('i->kind() & mask,') != 1:
        raise TranslateError('writer: `int mask = ...;` / its use `i->kind() & mask,` not found exactly once')
    ff = re.findall(r'if \(\((i->kind\(\) & [\w:]+\) == 0)\)\n\s*continue;', wr)
    if len(ff) != 1:
        raise TranslateError('writer: the filter `if ((i->kind() & <flag>) == 0) continue;` not found exactly once')
    parts.append('} // namespace\nnamespace mp { namespace solguards_w {\nint w_kind_mask(int kind) {\n%s\n  return kind & mask;\n}\n' % mm[0])
    parts.append('int w_is_output(int kind) {\n  if ((%s)\n    return 0;\n  return 1;\n}\n} }\n' % ff[0].replace('i->kind()', 'kind'))
    return ''.join(parts), rd, wr


def writer_formats(wr):
    """ordered format strings of every print in include/mp/sol.h (structure tie)"""
    fm = re.findall(r'file_?\.print\(\s*"((?:[^"\\]|\\.)*)"', wr)
    if len(fm) != 11:
        raise TranslateError('writer: expected 11 print(...) format strings in sol.h, found %d: %r' % (len(fm), fm))
    kinds = re.search(r'suf::Kind kinds\[\] = \{([^}]*)\};', wr)
    if not kinds:
        raise TranslateError('writer: kinds[] array not found')
    return fm, [x.strip() for x in kinds.group(1).split(',')]


FUNCS = ['count_guard', 'sufheadcheck', 'lget_step', 'opts_header_text', 'opts_header_bin', 'is_opts_record', 'rec_len', 'suffix_is_real_bin', 'suffix_is_real_text',
         'w_kind_mask', 'w_is_output', 'c_api_copy_count']


def main():
    repo, out, work = sys.argv[1:4]
    os.makedirs(work, exist_ok=True)
    try:
        tu_text, rd, wr = build_tu(repo)
        common = open(os.path.join(repo, 'include', 'mp', 'common.h')).read()
        for nm in ('FLOAT', 'IODECL', 'OUTPUT', 'INPUT', 'OUTONLY', 'SUFFIX_KIND_MASK'):
            mm = re.findall(r'\b%s\s*=\s*(0x[0-9a-fA-F]+|\d+)\s*[,/\n]' % nm, common)
            if len(mm) != 1:
                raise TranslateError('enumerator %s: %d definitions with a literal value in common.h (expected 1)' % (nm, len(mm)))
            FnXE.ENUMS[nm] = int(mm[0], 0)
        tu = os.path.join(work, 'solguards_tu.cc')
        open(tu, 'w').write(tu_text)
        docs = clang_dump(tu, 'solguards', [os.path.join(repo, 'include')])
        idx = Index()
        idx.add_docs(docs)
        tr = Translator(idx)
        # enum constants used by the writer functions are folded by clang (ConstantExpr / DeclRefExpr to EnumConstantDecl)
        defs = {}
        for key, decl in idx.funcs.items():
            nm = decl.get('name')
            if nm in FUNCS and nm not in defs:
                defs[nm] = FnXE(tr, decl, nm).translate()
        missing = [f for f in FUNCS if f not in defs]
        if missing:
            raise TranslateError('functions not found in the AST of the synthetic TU: %s' % missing)
        fm, kinds = writer_formats(wr)
        fh = open(os.path.join(repo, 'include', 'mp', 'format.h')).read()
        # spellings fmt uses for non-finite doubles (BasicWriter::write_double formats them itself): the lower-case alternative of
        # `upper ? " NAN" : " nan"` / `" INF" : " inf"` without the leading blank, preceded by the sign character when the value is negative
        nf = []
        for var in ('inf', 'nan'):
            mm = re.findall(r'const char \*%s = upper \? "[^"]*" : " (\w+)";' % var, fh)
            if len(mm) != 1:
                raise TranslateError('format.h: spelling of %s not found exactly once' % var)
            nf.append(mm[0])
        if len(re.findall(r"isnegative\(static_cast<double>\(value\)\)\) \{\s*sign = '-';", fh)) != 1:
            raise TranslateError("format.h: `sign = '-'` for negative values not found exactly once")
        capacity = c_api_capacity(repo)
    except TranslateError as e:
        print('TRANSLATE-ERROR gen_solguards: %s' % e)
        sys.exit(3)
    lean = ['import MpVerif.Basic.CSem', '/-! GENERATED by translators/gen_solguards.py from nl-writer2/include/mp/sol-reader2.hpp and include/mp/sol.h',
            'of the tree under test -- do not edit. -/', 'namespace MpVerif.Gen.SolGuards', 'open MpVerif.CSem', '',
            '/-- C `&` / `|` on integer operands: two\'s complement on 64 bits, result read back as a signed 64-bit value',
            '(exact for every operand type up to `long` / non-negative `unsigned long` values below 2^63) -/',
            'def sx64 (n : Nat) : Int := if n ≥ 9223372036854775808 then (n : Int) - 18446744073709551616 else (n : Int)',
            'def cband (a b : Int) : Int := sx64 ((a % 18446744073709551616).toNat &&& (b % 18446744073709551616).toNat)',
            'def cbor (a b : Int) : Int := sx64 ((a % 18446744073709551616).toNat ||| (b % 18446744073709551616).toNat)', '']
    for _nm, text in tr.order:          # callees (sg_min), in dependency order
        lean.append(text)
    for f in FUNCS:
        lean.append(defs[f])
    lean.append('/-- format strings of the prints in include/mp/sol.h, in source order -/')
    lean.append('def writer_formats : List String := [%s]' % ', '.join(json.dumps(x) for x in fm))
    lean.append('/-- order in which WriteSolFile visits the suffix kinds -/')
    lean.append('def writer_kind_order : List String := [%s]' % ', '.join(json.dumps(x) for x in kinds))
    lean.append("/-- fmt's spellings of non-finite doubles (include/mp/format.h, write_double), each also printed with a leading `-` -/")
    lean.append('def fmt_nonfinite : List String := [%s]' % ', '.join(json.dumps(x) for x in nf))
    lean.append('/-- number of `long`s in the C API struct `AMPLOptions_C::options_` (sol-handler-c.h) -/')
    lean.append('def c_api_options_capacity : Nat := %d' % capacity)
    lean.append('\nend MpVerif.Gen.SolGuards\n')
    text = '\n'.join(lean)
    if not os.path.exists(out) or open(out).read() != text:
        open(out, 'w').write(text)
        print('gen_solguards: wrote %s (%d definitions)' % (out, len(FUNCS) + 2))
    else:
        print('gen_solguards: %s unchanged (%d definitions)' % (out, len(FUNCS) + 2))


class FnXE(FnX):
    """+ references to enumerators (value taken from clang's constant evaluation of the enumerator)"""
    ENUMS = {}

    def expr(self, n):
        n0 = strip(n)
        if n0['kind'] == 'DeclRefExpr' and n0.get('referencedDecl', {}).get('kind') == 'EnumConstantDecl':
            nm = n0['referencedDecl']['name']
            if nm not in self.ENUMS:
                raise TranslateError('enumerator %s not found in include/mp/common.h' % nm)
            return ('p', '(%d : Int)' % self.ENUMS[nm])
        return FnX.expr(self, n)


if __name__ == '__main__':
    main()

#!/usr/bin/env python3
"""Regenerate lean/MpVerif/Gen/C20Json.lean from the CURRENT include/mp/util-json-write.h(pp):

  * the state/comma/nesting logic of MiniJSONWriter<fmt::MemoryWriter> (production build, NDEBUG):
    operator++, operator[], EnsureUnset, MakeScalarIfUnset, EnsureArray, EnsureDictionary, EnsureCanWrite,
    InsertElementSeparator, Close  ->  state transformers  Node -> Str x Node  (combinators of MpVerif.C20.GenBase)
  * the loop body of MiniJSONWriter::EscapeJSON (one iteration: bytes appended and the new index) -> `escBody`
  * enum Kind

from clang-14's typed AST (-ast-dump=json) of the instantiated class.  Anything the translator does not
understand raises TranslateError (loud failure).  Integral casts are treated as value preserving: every value in
EscapeJSON is a byte (0..255), a small count or an index (stated in the trusted base).

usage: gen_c20json.py <repo> <out.lean> [<workdir>]      Writes the file only when its content changes.
"""
import sys, os, json
sys.path.insert(0, os.path.dirname(__file__))
from tr_cint import TranslateError, clang_dump

TU = r'''
#define NDEBUG 1
#include "mp/format.h"
#include "mp/util-json-write.hpp"
namespace c20tu {
typedef mp::MiniJSONWriter<fmt::MemoryWriter> JW;
void use(JW &j) { auto a = ++j; auto b = j["k"]; j.Close(); j << 1; j << 1.5; j << "s"; b = 2; a = std::string("x"); (void)JW::EscapeJSON("x"); }
}
'''
KINDS = ['Unset', 'Scalar', 'Array', 'Dict', 'Closed']
CASTS_OK = {'LValueToRValue', 'IntegralCast', 'NoOp', 'IntegralToBoolean', 'ArrayToPointerDecay', 'FunctionToPointerDecay'}


def kids(n):
    return [c for c in n.get('inner', []) if c.get('kind') not in ('FullComment',)]


def strip(n):
    while n.get('kind') in ('ImplicitCastExpr', 'ParenExpr', 'ConstantExpr', 'CStyleCastExpr', 'ExprWithCleanups', 'MaterializeTemporaryExpr',
                            'CXXStaticCastExpr', 'CXXFunctionalCastExpr', 'CXXBindTemporaryExpr'):
        if n.get('kind') in ('ImplicitCastExpr', 'CStyleCastExpr') and n.get('castKind') not in CASTS_OK | {'ConstructorConversion', 'UncheckedDerivedToBase', 'ToVoid'}:
            raise TranslateError('cast kind %s not handled' % n.get('castKind'))
        ks = kids(n)
        if len(ks) != 1:
            raise TranslateError('wrapper %s with %d children' % (n.get('kind'), len(ks)))
        n = ks[0]
    return n


def c_unescape(lit):
    """value of a C string literal as clang prints it ("...")"""
    assert lit[0] == '"' and lit[-1] == '"', lit
    s, out, i = lit[1:-1], [], 0
    simple = {'n': 10, 'r': 13, 't': 9, '\\': 92, '"': 34, "'": 39, '0': 0}
    while i < len(s):
        if s[i] == '\\':
            if s[i + 1] not in simple:
                raise TranslateError('escape \\%s in literal %s' % (s[i + 1], lit))
            out.append(simple[s[i + 1]]); i += 2
        else:
            out.append(ord(s[i])); i += 1
    return out


def lean_chars(bs):
    def ch(b):
        c = chr(b)
        if c == "'":
            return "'\\''"
        if c == '\\':
            return "'\\\\'"
        if 32 <= b < 127:
            return "'%s'" % c
        return '(Char.ofNat %d)' % b
    return '[' + ', '.join(ch(b) for b in bs) + ']'


def refname(n):
    n = strip(n)
    if n.get('kind') == 'DeclRefExpr':
        return n['referencedDecl'].get('name')
    if n.get('kind') == 'MemberExpr':
        return n.get('name')
    return None


def is_noop(n):
    """`(void)0` : what assert() leaves under NDEBUG"""
    m = n
    if m.get('kind') == 'ParenExpr':
        m = kids(m)[0]
    return m.get('kind') == 'CXXStaticCastExpr' and m.get('castKind') == 'ToVoid'


# ---------------------------------------------------------------------------------- MiniJSONWriter methods
class Methods:
    def __init__(self, spec):
        self.spec = spec
        self.methods = {}
        for c in spec['inner']:
            if c.get('kind') == 'CXXMethodDecl' and any(x.get('kind') == 'CompoundStmt' for x in c.get('inner', [])):
                self.methods.setdefault(c['name'], c)

    def member(self, n):
        n = strip(n)
        if n.get('kind') == 'MemberExpr' and strip(kids(n)[0]).get('kind') == 'CXXThisExpr':
            return n['name']
        return None

    def kind_const(self, n):
        n = strip(n)
        if n.get('kind') == 'DeclRefExpr' and n['referencedDecl'].get('kind') == 'EnumConstantDecl' and n['referencedDecl']['name'] in KINDS:
            return '.' + n['referencedDecl']['name'].lower()
        return None

    def cond(self, n, t, e):
        n0 = strip(n)
        if n0.get('kind') == 'BinaryOperator' and n0['opcode'] == '==':
            a, b = kids(n0)
            for x, y in ((a, b), (b, a)):
                if self.kind_const(x) and self.member(y) == 'kind_':
                    return '(ifKindEq %s %s %s)' % (self.kind_const(x), t, e)
        if self.member(n0) == 'n_written_':
            return '(ifNNonzero %s %s)' % (t, e)
        raise TranslateError('condition not understood: %s' % json.dumps(n0)[:300])

    def write_call(self, n, params):
        args = kids(n)[1:]
        lit = strip(args[0])
        # the format string is wrapped in a BasicCStringRef constructor
        while lit.get('kind') == 'CXXConstructExpr':
            lit = strip(kids(lit)[0])
        if lit.get('kind') != 'StringLiteral':
            raise TranslateError('write(): format is not a literal')
        fmt = c_unescape(lit['value'])
        pieces, cur, holes, i = [], [], 0, 0
        while i < len(fmt):
            if fmt[i] == 123 and i + 1 < len(fmt) and fmt[i + 1] == 125:
                pieces.append(('lit', cur)); cur = []; pieces.append(('hole', holes)); holes += 1; i += 2
            elif fmt[i] in (123, 125):
                raise TranslateError('format directive other than {} in %r' % lit['value'])
            else:
                cur.append(fmt[i]); i += 1
        pieces.append(('lit', cur))
        if holes != len(args) - 1:
            raise TranslateError('write(): %d holes but %d arguments' % (holes, len(args) - 1))
        out = []
        for kind, v in pieces:
            if kind == 'lit':
                if v:
                    out.append(lean_chars(v))
            else:
                a = strip(args[1 + v])
                if a.get('kind') == 'CharacterLiteral':
                    out.append(lean_chars([a['value']]))
                elif a.get('kind') in ('CallExpr', 'CXXMemberCallExpr') and refname(kids(a)[0]) == 'EscapeJSON':
                    arg = strip(kids(a)[1])
                    while arg.get('kind') == 'CXXConstructExpr':
                        arg = strip(kids(arg)[0])
                    if arg.get('kind') != 'DeclRefExpr' or arg['referencedDecl']['name'] not in params:
                        raise TranslateError('EscapeJSON argument is not a parameter')
                    out.append('(MpVerif.C20.escape %s)' % arg['referencedDecl']['name'])
                else:
                    raise TranslateError('write() argument not understood: %s' % a.get('kind'))
        return '(emit (%s))' % ' ++ '.join(out or ['[]'])

    def stmt(self, n, params):
        k = n.get('kind')
        if k == 'CompoundStmt':
            return self.block(kids(n), params)
        if k == 'IfStmt':
            ks = kids(n)
            t = self.stmt(ks[1], params)
            e = self.stmt(ks[2], params) if len(ks) > 2 else 'skip'
            return self.cond(ks[0], t, e)
        if is_noop(n):
            return 'skip'
        if k == 'ExprWithCleanups':
            return self.stmt(kids(n)[0], params)
        if k == 'BinaryOperator' and n['opcode'] == '=' and self.member(kids(n)[0]) == 'kind_' and self.kind_const(kids(n)[1]):
            return '(setKind %s)' % self.kind_const(kids(n)[1])
        if k == 'UnaryOperator' and n['opcode'] == '++' and self.member(kids(n)[0]) == 'n_written_':
            return 'incN'
        if k == 'CXXMemberCallExpr':
            callee = kids(n)[0]
            if callee.get('kind') == 'MemberExpr' and callee['name'] == 'write' and self.member(kids(callee)[0]) == 'wrt_':
                return self.write_call(n, params)
            if callee.get('kind') == 'MemberExpr' and strip(kids(callee)[0]).get('kind') == 'CXXThisExpr' and len(kids(n)) == 1:
                self.need(callee['name'])
                return callee['name']
            raise TranslateError('call not understood in method: %s' % json.dumps(callee)[:200])
        if k == 'SwitchStmt':
            ks = kids(n)
            if self.member(ks[0]) != 'kind_':
                raise TranslateError('switch on something else than kind_')
            arms, cur, default = {}, None, None
            for s in kids(ks[1]):
                if s.get('kind') == 'CaseStmt':
                    labels, sub = [], s
                    while sub.get('kind') == 'CaseStmt':        # `case A: case B: stmt`
                        kc = self.kind_const(kids(sub)[0])
                        if kc is None:
                            raise TranslateError('case label is not a Kind')
                        labels.append(kc)
                        sub = kids(sub)[1]
                    shared = []
                    for kc in labels:
                        arms[kc] = shared
                    cur = labels[0]
                    if sub.get('kind') != 'BreakStmt':
                        shared.append(sub)
                    else:
                        cur = None
                elif s.get('kind') == 'DefaultStmt':
                    cur = 'default'
                    arms[cur] = [kids(s)[0]] if kids(s)[0].get('kind') != 'BreakStmt' else []
                    if kids(s)[0].get('kind') == 'BreakStmt':
                        cur = None
                elif s.get('kind') == 'BreakStmt':
                    cur = None
                else:
                    if cur is None:
                        raise TranslateError('statement outside a case')
                    arms[cur].append(s)
            if cur is not None:
                raise TranslateError('switch arm without break (fallthrough)')
            dflt = self.block(arms.get('default', []), params)
            alts = ' '.join('| %s => %s' % (kc, self.block(arms[kc], params)) if kc in arms else '| %s => %s' % (kc, dflt)
                            for kc in ['.' + x.lower() for x in KINDS])
            return '(switchKind (fun k => match k with %s))' % alts
        if k == 'ReturnStmt':
            return 'skip'          # `return Node{*this}` : the child node is created by the caller of the model (`step`)
        raise TranslateError('statement kind %s not handled in a writer method' % k)

    def block(self, lst, params):
        parts = [self.stmt(s, params) for s in lst]
        parts = [p for p in parts if p != 'skip'] or ['skip']
        out = parts[-1]
        for p in reversed(parts[:-1]):
            out = '(seq %s %s)' % (p, out)
        return out

    def need(self, name):
        if name in self.done or name in self.pending:
            return
        self.pending.append(name)

    def run(self, roots):
        self.done, self.pending, defs = {}, list(roots), []
        while self.pending:
            nm = self.pending.pop(0)
            if nm in self.done:
                continue
            if nm not in self.methods:
                raise TranslateError('method %s not found (not instantiated?)' % nm)
            d = self.methods[nm]
            params = [p['name'] for p in d['inner'] if p.get('kind') == 'ParmVarDecl']
            body = [x for x in d['inner'] if x.get('kind') == 'CompoundStmt'][0]
            self.done[nm] = None
            term = self.stmt(body, params)
            self.done[nm] = (params, term)
        order, seen = [], set()

        def visit(nm):
            if nm in seen:
                return
            seen.add(nm)
            for other in self.done:
                if other != nm and (' ' + other + ')' in self.done[nm][1] or '(seq ' + other + ' ' in self.done[nm][1] or self.done[nm][1] == other
                                    or ' ' + other + ' ' in self.done[nm][1]):
                    visit(other)
            order.append(nm)
        for nm in self.done:
            visit(nm)
        return [(nm,) + self.done[nm] for nm in order]


# ---------------------------------------------------------------------------------- EscapeJSON loop body
class Escape:
    STATE = '(r, i, ok)'

    def __init__(self, decl):
        self.decl = decl

    def expr(self, n):
        n = strip(n)
        k = n.get('kind')
        if k == 'IntegerLiteral':
            return n['value']
        if k == 'CharacterLiteral':
            return str(n['value'])
        if k == 'DeclRefExpr':
            nm = n['referencedDecl']['name']
            if nm not in ('c', 'c1', 'n', 'i', 'k', 'ok'):
                raise TranslateError('variable %s in EscapeJSON not expected' % nm)
            return nm
        if k == 'CXXOperatorCallExpr':
            ks = kids(n)
            if refname(ks[0]) == 'operator[]' and refname(ks[1]) == 's':
                return '(byteAt s %s)' % self.expr(ks[2])
            raise TranslateError('operator call not understood')
        if k == 'CXXMemberCallExpr':
            callee = kids(n)[0]
            if callee.get('name') == 'size' and strip(kids(callee)[0]).get('referencedDecl', {}).get('name') == 's':
                return 's.length'
            raise TranslateError('member call %s not understood' % callee.get('name'))
        if k == 'BinaryOperator':
            a, b = [self.expr(x) for x in kids(n)]
            op = n['opcode']
            if op in ('<', '<=', '>', '>=', '=='):
                return '(decide (%s %s %s))' % (a, {'==': '='}.get(op, op), b)
            if op == '&&':
                return '(%s && %s)' % (a, b)
            if op == '||':
                return '(%s || %s)' % (a, b)
            if op == '+':
                return '(%s + %s)' % (a, b)
            if op == '&':
                return '(%s &&& %s)' % (a, b)
            raise TranslateError('operator %s not handled' % op)
        if k == 'ConditionalOperator':
            c, a, b = [self.expr(x) for x in kids(n)]
            return '(if %s = true then %s else %s)' % (c, a, b)
        raise TranslateError('expression kind %s not handled in EscapeJSON' % k)

    def append_of(self, n):
        """`r += <literal | (char)c | buf>`  -> Lean list of bytes, or None"""
        if n.get('kind') != 'CXXOperatorCallExpr':
            return None
        ks = kids(n)
        if refname(ks[0]) != 'operator+=' or refname(ks[1]) != 'r':
            return None
        a = strip(ks[2])
        if a.get('kind') == 'StringLiteral':
            return '[' + ', '.join(str(b) for b in c_unescape(a['value'])) + ']'
        if a.get('kind') == 'DeclRefExpr' and a['referencedDecl']['name'] == 'c':
            return '[c]'
        if a.get('kind') == 'DeclRefExpr' and a['referencedDecl']['name'] == 'buf':
            return 'BUF'
        raise TranslateError('r += of something not understood')

    def stmts(self, lst):
        if not lst:
            return self.STATE
        s, rest = lst[0], lst[1:]
        while s.get('kind') in ('ExprWithCleanups', 'CXXBindTemporaryExpr'):
            s = kids(s)[0]
        k = s.get('kind')
        if k == 'CompoundStmt':
            if rest:
                return 'let %s := %s\n%s' % (self.STATE, self.paren(self.stmts(kids(s))), self.stmts(rest))
            return self.stmts(kids(s))
        if k == 'DeclStmt':
            v = kids(s)[0]
            if v['name'] == 'buf':
                return self.stmts(rest)
            if v['name'] in ('c', 'c1', 'n', 'ok'):
                return 'let %s := %s\n%s' % (v['name'], self.expr(kids(v)[0]), self.stmts(rest))
            raise TranslateError('declaration of %s not expected' % v['name'])
        if k == 'CallExpr' and refname(kids(s)[0]) == 'snprintf':
            a = kids(s)
            fmt = strip(a[3])
            if fmt.get('kind') != 'StringLiteral' or c_unescape(fmt['value']) != [92, 117, 37, 48, 52, 120]:
                raise TranslateError('snprintf format is not "\\\\u%%04x": %s' % fmt.get('value'))
            if strip(a[1]).get('referencedDecl', {}).get('name') != 'buf':
                raise TranslateError('snprintf target is not buf')
            arg = self.expr(a[4])
            if not rest or self.append_of(rest[0]) != 'BUF':
                raise TranslateError('snprintf is not followed by r += buf')
            return 'let r := r ++ fmtU4 %s\n%s' % (arg, self.stmts(rest[1:]))
        ap = self.append_of(s)
        if ap is not None:
            if ap == 'BUF':
                raise TranslateError('r += buf without a preceding snprintf')
            return 'let r := r ++ %s\n%s' % (ap, self.stmts(rest))
        if k == 'IfStmt':
            ks = kids(s)
            c = self.expr(ks[0])
            t = self.stmts([ks[1]])
            e = self.stmts([ks[2]]) if len(ks) > 2 else self.STATE
            return 'let %s := if %s = true then %s else %s\n%s' % (self.STATE, c, self.paren(t), self.paren(e), self.stmts(rest))
        if k == 'BinaryOperator' and s['opcode'] == '=' and strip(kids(s)[0]).get('referencedDecl', {}).get('name') == 'ok':
            return 'let ok := %s\n%s' % (self.expr(kids(s)[1]).replace('CXXBoolLiteralExpr', ''), self.stmts(rest))
        if k == 'CompoundAssignOperator' and s['opcode'] == '+=' and strip(kids(s)[0]).get('referencedDecl', {}).get('name') == 'i':
            return 'let i := i + %s\n%s' % (self.expr(kids(s)[1]), self.stmts(rest))
        if k == 'ForStmt':
            init, _, cond, inc, body = s['inner']
            v = kids(init)[0]
            ok_shape = (v['name'] == 'k' and strip(kids(v)[0]).get('value') == '1' and strip(inc).get('opcode') == '++'
                        and strip(kids(strip(inc))[0]).get('referencedDecl', {}).get('name') == 'k')
            c = strip(cond)
            ok_shape = ok_shape and c.get('opcode') == '&&' and strip(kids(c)[0]).get('referencedDecl', {}).get('name') == 'ok'
            le = strip(kids(c)[1])
            ok_shape = ok_shape and le.get('opcode') == '<=' and self.expr(kids(le)[0]) == 'k' and self.expr(kids(le)[1]) == 'n'
            b = body if body.get('kind') != 'CompoundStmt' else (kids(body)[0] if len(kids(body)) == 1 else {})
            ok_shape = ok_shape and b.get('kind') == 'BinaryOperator' and b.get('opcode') == '=' and \
                strip(kids(b)[0]).get('referencedDecl', {}).get('name') == 'ok'
            if not ok_shape:
                raise TranslateError('inner for loop is not `for (int k=1; ok && k<=n; ++k) ok = <expr>;`')
            return 'let ok := loopAnd ok n (fun k => %s)\n%s' % (self.expr(kids(b)[1]), self.stmts(rest))
        if k == 'CXXMemberCallExpr' and kids(s)[0].get('name') == 'append':
            callee = kids(s)[0]
            if strip(kids(callee)[0]).get('referencedDecl', {}).get('name') != 'r':
                raise TranslateError('append on something else than r')
            arg = strip(kids(s)[1])
            while arg.get('kind') in ('CXXConstructExpr',):
                arg = strip(kids(arg)[0])
            if arg.get('kind') == 'CXXMemberCallExpr' and kids(arg)[0].get('name') in ('operator basic_string_view', 'operator std::basic_string_view<char>'):
                arg = strip(kids(kids(arg)[0])[0])
            if not (arg.get('kind') == 'CXXMemberCallExpr' and kids(arg)[0].get('name') == 'substr'
                    and strip(kids(kids(arg)[0])[0]).get('referencedDecl', {}).get('name') == 's'):
                raise TranslateError('r.append argument is not s.substr(...): %s' % json.dumps(arg)[:300])
            pos, ln = [self.expr(x) for x in kids(arg)[1:3]]
            return 'let r := r ++ substr s %s %s\n%s' % (pos, ln, self.stmts(rest))
        if k == 'SwitchStmt':
            ks = kids(s)
            scrut = self.expr(ks[0])
            arms, cur, default = [], None, None
            for x in kids(ks[1]):
                if x.get('kind') == 'CaseStmt':
                    lab = self.expr(kids(x)[0])
                    cur = [kids(x)[1]]
                    arms.append((lab, cur))
                    if kids(x)[1].get('kind') == 'BreakStmt':
                        cur.pop(); cur = None
                elif x.get('kind') == 'DefaultStmt':
                    default = [kids(x)[0]]
                    cur = default
                elif x.get('kind') == 'BreakStmt':
                    cur = None
                else:
                    if cur is None:
                        raise TranslateError('statement outside a case in EscapeJSON')
                    cur.append(x)
            if default is None:
                raise TranslateError('switch without default')
            out = self.paren(self.stmts(default))
            for lab, body in reversed(arms):
                out = '(if %s = %s then %s else %s)' % (scrut, lab, self.paren(self.stmts(body)), out)
            return 'let %s := %s\n%s' % (self.STATE, out, self.stmts(rest))
        if k == 'CXXBoolLiteralExpr':
            raise TranslateError('stray bool literal')
        raise TranslateError('statement kind %s not handled in EscapeJSON' % k)

    def paren(self, t):
        return '(' + t.replace('\n', '\n  ') + ')'

    def expr_bool_lit(self, n):
        return None

    def run(self):
        body = [x for x in self.decl['inner'] if x.get('kind') == 'CompoundStmt'][0]
        st = kids(body)
        kinds = [x.get('kind') for x in st]
        if kinds != ['DeclStmt', 'CXXMemberCallExpr', 'ForStmt', 'ReturnStmt']:
            raise TranslateError('EscapeJSON body shape changed: %s' % kinds)
        ret = strip(kids(st[3])[0])
        while ret.get('kind') == 'CXXConstructExpr':
            ret = strip(kids(ret)[0])
        if kids(st[0])[0]['name'] != 'r' or kids(st[1])[0].get('name') != 'reserve' or ret.get('referencedDecl', {}).get('name') != 'r':
            raise TranslateError('EscapeJSON prologue/epilogue changed')
        init, _, cond, inc, lb = st[2]['inner']
        v = kids(init)[0]
        c = strip(cond)
        if not (v['name'] == 'i' and strip(kids(v)[0]).get('value') == '0' and c.get('opcode') == '<' and self.expr(kids(c)[0]) == 'i'
                and self.expr(kids(c)[1]) == 's.length' and strip(inc).get('opcode') == '++' and self.expr(kids(strip(inc))[0]) == 'i'):
            raise TranslateError('EscapeJSON loop header is not `for (size_t i=0; i<s.size(); ++i)`')
        return self.stmts(kids(lb))


# patch: bool literal `false` in `ok = false`
_old_expr = Escape.expr


def _expr(self, n):
    m = strip(n)
    if m.get('kind') == 'CXXBoolLiteralExpr':
        return 'true' if m.get('value') else 'false'
    return _old_expr(self, n)


Escape.expr = _expr


def main(repo, out, work):
    os.makedirs(work, exist_ok=True)
    tu = os.path.join(work, 'c20json_inst.cc')
    open(tu, 'w').write(TU)
    docs = clang_dump(tu, 'mp::MiniJSONWriter', [os.path.join(repo, 'include')])
    tmpl = [d for d in docs if d.get('kind') == 'ClassTemplateDecl']
    if not tmpl:
        raise TranslateError('class template MiniJSONWriter not found')
    spec = [c for c in tmpl[0]['inner'] if c.get('kind') == 'ClassTemplateSpecializationDecl']
    if len(spec) != 1:
        raise TranslateError('%d specializations of MiniJSONWriter' % len(spec))
    spec = spec[0]
    enum = [c for c in spec['inner'] if c.get('kind') == 'EnumDecl' and c.get('name') == 'Kind']
    if not enum or [e['name'] for e in enum[0]['inner'] if e.get('kind') == 'EnumConstantDecl'] != KINDS:
        raise TranslateError('enum Kind changed: %s' % ([e.get('name') for e in enum[0]['inner']] if enum else None))
    ms = Methods(spec)
    defs = ms.run(['operator++', 'operator[]', 'EnsureUnset', 'MakeScalarIfUnset', 'EnsureArray', 'EnsureDictionary', 'EnsureCanWrite',
                   'InsertElementSeparator', 'Close'])
    esc = Escape(ms.methods['EscapeJSON']).run()
    names = {'operator++': 'opIncr', 'operator[]': 'opIndex'}
    L = ['import MpVerif.C20.GenBase', '/-! GENERATED by translators/gen_c20json.py from include/mp/util-json-write.h(pp) — do not edit. -/',
         'namespace MpVerif.Gen.C20Json', 'open MpVerif.C20 MpVerif.C20.GenBase', '',
         '/-- enumerators of `MiniJSONWriter::Kind`, in declaration order -/',
         'def kinds : List String := [%s]' % ', '.join('"%s"' % k for k in KINDS), '']
    for nm, params, term in defs:
        for a, b in names.items():
            term = term.replace(' ' + a + ')', ' ' + b + ')').replace('(seq ' + a + ' ', '(seq ' + b + ' ')
        ln = names.get(nm, nm)
        ps = ''.join(' (%s : Str)' % p for p in params)
        L += ['/-- `MiniJSONWriter::%s` -/' % nm, 'def %s%s : M :=' % (ln, ps), '  ' + term, '']
    L += ['/-- one iteration of the loop of `MiniJSONWriter::EscapeJSON` at index `i` of the byte string `s`:',
          '    (bytes appended to the result, value of `i` at the end of the body, last value of `ok`) -/',
          'def escBody (s : List Nat) (i : Nat) : List Nat × Nat × Bool :=',
          '  let r : List Nat := []', '  let ok := false']
    L += ['  ' + l for l in esc.split('\n')]
    L += ['', 'end MpVerif.Gen.C20Json', '']
    text = '\n'.join(L)
    if not (os.path.exists(out) and open(out).read() == text):
        open(out, 'w').write(text)
        print('gen_c20json: wrote %s (%d writer methods, EscapeJSON loop body)' % (out, len(defs)))
    else:
        print('gen_c20json: %s up to date (%d writer methods, EscapeJSON loop body)' % (out, len(defs)))


if __name__ == '__main__':
    try:
        main(sys.argv[1], sys.argv[2], sys.argv[3] if len(sys.argv) > 3 else '/tmp/c20tr')
    except TranslateError as e:
        print('gen_c20json: TRANSLATION FAILED: %s' % e)
        sys.exit(3)

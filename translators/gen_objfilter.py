#!/usr/bin/env python3
"""Regenerate lean/MpVerif/Gen/ObjFilter.lean from the repository's source text:

  include/mp/nl-reader.h   NLProblemBuilder<Problem>::NeedObj / resulting_nobj / resulting_obj_index  (+ skeletons of
                           OnHeader, OnObj, OnLinearObjExpr)
  include/mp/solver-base.h BasicSolver::objno_specified / is_objno_specified / multiobj / objno_used / SetObjNo /
                           notify_obj_added / notify_start_opts / notify_end_opts
  include/mp/solver-io.h   SolverNLHandlerImpl<BasicSolver, Problem, NLProblemBuilder<Problem>>::objno / multiobj
                           (the overrides), the objno range check of OnHeader (slice) and OnHeader's step skeleton

usage: gen_objfilter.py <repo> <out.lean> [<workdir>]
Writes the file only when its content changes.
"""
import sys, os, json, re
sys.path.insert(0, os.path.dirname(__file__))
from tr_cint_c12 import *
import tr_loops_c12

TU = r'''
#define NDEBUG 1
#define MP_DATE 20240320
#include "mp/nl-reader.h"
#include "mp/problem.h"
#include "mp/solver-io.h"
namespace c12tu {
typedef mp::internal::NLProblemBuilder<mp::Problem> NLPB;
typedef mp::internal::SolverNLHandlerImpl<mp::BasicSolver, mp::Problem, NLPB> H;
// uses that make clang instantiate the member functions (bodies come from the headers)
int use1(NLPB &b, int i) { return b.NeedObj(i) + b.resulting_nobj(i) + b.resulting_obj_index(i); }
void use2(NLPB &b, const mp::NLHeader &h, mp::NumericExpr e) { b.OnHeader(h); b.OnObj(0, mp::obj::MIN, e); b.OnLinearObjExpr(0, 1); }
int use3(H &h, const mp::NLHeader &hd) { h.OnHeader(hd); h.notify_obj_added(); return h.objno() + h.multiobj(); }
}
'''

TU_SOLVER = r'''
#define NDEBUG 1
#define MP_DATE 20240320
#define MP_SYSINFO "Linux x86_64"
#define MP_USE_ATOMIC 1
#define MP_USE_HASH 1
#define MP_USE_UNIQUE_PTR 1
#include "%s/src/solver.cc"
'''

TU_MM = r'''
#define NDEBUG 1
#define MP_DATE 20240320
#include "mp/model-mgr-with-std-pb.hpp"
'''

TU_READER = r'''
#define NDEBUG 1
#define MP_DATE 20240320
#include "mp/nl-reader.h"
#include "mp/problem.h"
#include "mp/solver-io.h"
namespace c12tu {
typedef mp::internal::NLProblemBuilder<mp::Problem> NLPB;
typedef mp::internal::SolverNLHandlerImpl<mp::BasicSolver, mp::Problem, NLPB> H;
void use4(H &h) { mp::ReadNLString(mp::NLStringRef("x"), h, "n", 0); }   // instantiates NLReader<Text/BinaryReader, H>
}
'''

# patterns (uninstantiated template bodies) are enough for step skeletons of these
TU_FLAT = r'''
#define NDEBUG 1
#define MP_DATE 20240320
#include "mp/flat/problem_flattener.h"
#include "mp/flat/converter_model.h"
#include "mp/sol.h"
'''

ABSTRACT = {('BasicProblem', 'num_objs'), ('BasicProblem', 'num_cons')}
READ_CALLS = ('ReadUInt',)                       # values read from the file: abstract inputs r_<variable>
SKIP_IN_CASE = ('ReadTillEndOfLine', 'ReadNumericExpr')   # statements of `case 'O'` without influence on guard/slot


def find_nodes(n, pred, acc=None):
    acc = [] if acc is None else acc
    if isinstance(n, dict):
        if pred(n):
            acc.append(n)
        for c in n.get('inner', []):
            find_nodes(c, pred, acc)
    return acc


def case_of(read_decl, ch):
    """the CaseStmt for character `ch` in NLReader::Read(Reader*)"""
    def is_case(n):
        if n.get('kind') != 'CaseStmt':
            return False
        lit = n['inner'][0]
        while lit.get('kind') in ('ConstantExpr', 'ImplicitCastExpr'):
            lit = lit['inner'][0]
        return lit.get('kind') == 'CharacterLiteral' and lit.get('value') == ord(ch)
    cs = find_nodes(read_decl, is_case)
    if len(cs) != 1:
        raise TranslateError("%d `case '%s'` in NLReader::Read" % (len(cs), ch))
    return cs[0]


def block_fn(tr, decl, name, cls, stmts, want):
    """translate a block of statements of `decl` into an integer definition: integer locals initialised by a READ_CALLS
    call become inputs r_<name>; want = ('cond',) -> the condition of the first `if`;
    ('arg', callee, i) -> argument i of the first call of `callee` (guarded or returned)"""
    f = FnX(tr, decl, name, cls)
    bind_params(f, decl)
    for s in stmts:
        s0 = strip(s)
        k = s0.get('kind')
        if k == 'DeclStmt':
            d = s0['inner'][0]
            init = [c for c in d.get('inner', []) if isinstance(c, dict) and 'kind' in c]
            ini = strip(init[-1]) if init else {}
            callee = strip(ini['inner'][0]) if ini.get('kind') == 'CXXMemberCallExpr' else {}
            if callee.get('name') in READ_CALLS:
                cty(qual(d))
                f.vars[d['id']] = f.extra('r_' + d['name'])
                continue
            if callee.get('name') in SKIP_IN_CASE:
                continue
            if d['type']['qualType'].rstrip().endswith('&') and f.is_object(init[-1]):
                f.alias[d['id']] = init[-1]
                continue
            raise TranslateError('%s: unsupported declaration of %s' % (name, d.get('name')))
        if k == 'CXXMemberCallExpr' and strip(s0['inner'][0]).get('name') in SKIP_IN_CASE:
            continue
        call = None
        if k == 'IfStmt':
            if want[0] == 'cond':
                kind, e = f.expr(s0['inner'][0])
                term = e if kind == 'm' else '(Outcome.ret %s)' % e
                break
            call = strip(s0['inner'][1])
        elif k == 'ReturnStmt':
            call = strip(s0['inner'][0])
        if call is not None and want[0] == 'arg' and call.get('kind') == 'CXXMemberCallExpr' and strip(call['inner'][0]).get('name') == want[1]:
            kind, e = f.expr(call['inner'][1 + want[2]])
            term = e if kind == 'm' else '(Outcome.ret %s)' % e
            break
        if k == 'BreakStmt':
            continue
        raise TranslateError('%s: unsupported statement %s' % (name, k))
    else:
        raise TranslateError('%s: wanted %s not found' % (name, want))
    params = []
    for c in decl.get('inner', []):
        if c.get('kind') == 'ParmVarDecl' and c.get('id') in f.vars:
            params.append(f.vars[c['id']])
    allp = [p for p in params + f.extras if re.search(r'\b%s\b' % re.escape(p), term)]      # inputs the result depends on
    return 'def %s %s : Outcome Int :=\n  %s\n' % (name, ' '.join('(%s : Int)' % p for p in allp), term), allp


def block_fn_with_params(tr, decl, name, cls, stmts, want):
    """block_fn with the integer parameters of `decl` bound"""
    global _bind_decl
    _bind_decl = decl
    return block_fn(tr, decl, name, cls, stmts, want)


def same_over_specs(tr, idx, cls, meth, name, builder, pick=None):
    """translate `cls::meth` in every NLReader specialization whose handler is the solver's NL handler (text, binary,
    byte-swapped binary reader); they must all yield the same definition"""
    decls = idx.method(cls, meth, ctx_has='SolverNLHandlerImpl', ctx_not='VarBoundHandler')
    if pick:
        decls = [d for d in decls if pick(d)]
    if not isinstance(decls, list) or not decls:
        raise TranslateError('no instantiation of %s::%s for the solver NL handler' % (cls, meth))
    out = {}
    for d in decls:
        for c in d.get('inner', []):          # bind integer parameters
            pass
        text, params = builder(d)
        out[text] = params
    if len(out) != 1:
        raise TranslateError('%s::%s differs between reader specializations' % (cls, meth))
    text, params = list(out.items())[0]
    tr.order.append((name, text, params))
    return len(decls)


def bind_params(f, decl):
    for c in decl.get('inner', []):
        if c.get('kind') == 'ParmVarDecl':
            try:
                cty(qual(c))
                f.vars[c['id']] = 'p_%s' % c.get('name', 'arg')
            except TranslateError:
                pass


VIRTUALS = {('NLProblemBuilder', 'objno'), ('NLProblemBuilder', 'multiobj'), ('NLProblemBuilder', 'notify_obj_added')}


def lean_str(s):
    return '"' + s.replace('\\', '\\\\').replace('"', '\\"') + '"'


def main(repo, out, work):
    os.makedirs(work, exist_ok=True)
    tu = os.path.join(work, 'objfilter_inst.cc')
    open(tu, 'w').write(TU)
    idx = IndexX()
    for f in ('mp::internal::NLProblemBuilder', 'mp::BasicSolver', 'mp::internal::SolverNLHandlerImpl'):
        idx.add_docs(clang_dump(tu, f, [os.path.join(repo, 'include')]))
    tr = TranslatorX(idx, VIRTUALS)
    roots = [('NLProblemBuilder', 'NeedObj'), ('NLProblemBuilder', 'resulting_nobj'), ('NLProblemBuilder', 'resulting_obj_index'),
             ('BasicSolver', 'objno_specified'), ('BasicSolver', 'is_objno_specified'), ('BasicSolver', 'multiobj'),
             ('BasicSolver', 'objno_used'), ('BasicSolver', 'SetObjNo'), ('BasicSolver', 'notify_obj_added'),
             ('BasicSolver', 'notify_start_opts'), ('BasicSolver', 'notify_end_opts')]
    for cls, nm in roots:
        tr.need_method(cls, nm)
    # the overrides in SolverNLHandlerImpl: what the virtual calls in NLProblemBuilder evaluate to
    tr.virtuals = set()      # inside SolverNLHandlerImpl nothing is abstract
    for nm in ('objno', 'multiobj'):
        d = idx.method('SolverNLHandlerImpl', nm)
        if not (d.get('virtual') or any(c.get('kind') == 'OverrideAttr' for c in d.get('inner', []))):
            raise TranslateError('SolverNLHandlerImpl::%s is not virtual (no longer overrides NLProblemBuilder::%s?)' % (nm, nm))
        f = FnX(tr, d, 'handler_' + nm, 'SolverNLHandlerImpl')
        text = f.translate()
        tr.order.append((f.name, text, f.params))
    # slice of SolverNLHandlerImpl::OnHeader: integer declarations and throwing guards
    oh = idx.method('SolverNLHandlerImpl', 'OnHeader')

    def keep(s):
        s = strip(s)
        if s['kind'] == 'DeclStmt':
            try:
                return all(cty(qual(d)) for d in s['inner'])
            except TranslateError:
                return False
        if s['kind'] == 'IfStmt':
            return strip(s['inner'][1]).get('kind') == 'CXXThrowExpr'
        if s['kind'] == 'BinaryOperator' and s.get('opcode') == '=':
            lhs = strip(s['inner'][0])
            return lhs['kind'] == 'DeclRefExpr'       # assignment to a local integer
        return False
    f = FnX(tr, oh, 'OnHeader_check', 'SolverNLHandlerImpl')
    text = f.translate_slice(keep)
    tr.order.append((f.name, text, f.params))
    skels = [('skel_SolverNLHandler_OnHeader', skeleton(body_of(oh))),
             ('skel_NLProblemBuilder_OnHeader', skeleton(body_of(idx.method('NLProblemBuilder', 'OnHeader')))),
             ('skel_NLProblemBuilder_OnObj', skeleton(body_of(idx.method('NLProblemBuilder', 'OnObj')))),
             ('skel_NLProblemBuilder_OnLinearObjExpr', skeleton(body_of(idx.method('NLProblemBuilder', 'OnLinearObjExpr')))),
             ('skel_SolverNLHandler_notify_obj_added', skeleton(body_of(idx.method('SolverNLHandlerImpl', 'notify_obj_added'))))]
    # ---------------------------------------------------------------- round 4 additions
    tr.need_method('BasicSolver', 'GetObjNo')
    # (1) the obj:multi option setter: struct BoolOption local to BasicSolver::InitMetaInfoAndOptions (src/solver.cc)
    tu2 = os.path.join(work, 'objfilter_solver.cc')
    open(tu2, 'w').write(TU_SOLVER % repo)
    idx.add_docs(clang_dump(tu2, 'BoolOption', [os.path.join(repo, 'include'), os.path.join(repo, 'src')]))
    tr.need_method('BoolOption', 'SetValue', lean_name='BoolOption_SetValue')
    # (2) SetObjNames: guard, first and one-past-last .row index of the loop over the objectives' names
    tu3 = os.path.join(work, 'objfilter_mm.cc')
    open(tu3, 'w').write(TU_MM)
    idx.add_docs(clang_dump(tu3, 'mp::ModelManagerWithProblemBuilder', [os.path.join(repo, 'include')]))
    tr.abstract = set(ABSTRACT)
    son = idx.method('ModelManagerWithProblemBuilder', 'SetObjNames')
    top = [strip(x) for x in body_of(son).get('inner', [])]
    if len(top) != 1 or top[0]['kind'] != 'IfStmt' or len(top[0]['inner']) != 2:
        raise TranslateError('SetObjNames: expected a single guarded block')
    guard, block = top[0]['inner'][0], strip(top[0]['inner'][1])
    f = FnX(tr, son, 'SetObjNames_guard', 'ModelManagerWithProblemBuilder')
    kind, e = f.expr(guard)
    tr.order.append(('SetObjNames_guard', 'def SetObjNames_guard %s : Outcome Int :=\n  %s\n' % (
        ' '.join('(%s : Int)' % p for p in f.extras), e if kind == 'm' else '(Outcome.ret %s)' % e), list(f.extras)))
    sts = list(block.get('inner', []))
    fi = [i for i, x in enumerate(sts) if strip(x)['kind'] == 'ForStmt']
    if len(fi) != 1:
        raise TranslateError('SetObjNames: expected exactly one loop')
    loop = strip(sts[fi[0]])
    pre = []
    for x in sts[:fi[0]]:
        x0 = strip(x)
        if x0['kind'] == 'DeclStmt':
            try:
                cty(qual(x0['inner'][0]))
            except TranslateError:
                ini = [c for c in x0['inner'][0].get('inner', []) if isinstance(c, dict) and 'kind' in c]
                if len(ini) == 1 and strip(ini[0])['kind'] == 'CXXConstructExpr' and not strip(ini[0]).get('inner'):
                    continue                      # `std::vector<std::string> names_o;`
                raise
        pre.append(x)
    linit, lcond, linc = loop['inner'][0], strip(loop['inner'][2]), strip(loop['inner'][3])
    lvar = strip(linit)['inner'][0]
    if not (lcond['kind'] == 'BinaryOperator' and lcond['opcode'] == '<' and strip_casts(lcond['inner'][0]).get('referencedDecl', {}).get('id') == lvar['id']
            and linc['kind'] == 'UnaryOperator' and linc['opcode'] == '++' and strip_casts(linc['inner'][0]).get('referencedDecl', {}).get('id') == lvar['id']):
        raise TranslateError('SetObjNames: loop is not `for (io = a; io < b; ++io)`')
    for nm, build in (('SetObjNames_first', lambda f: f.stmts(pre + [linit], lambda: '(Outcome.ret %s)' % f.vars[lvar['id']])),
                      ('SetObjNames_end', lambda f: f.stmts(pre, lambda: (lambda ke: ke[1] if ke[0] == 'm' else '(Outcome.ret %s)' % ke[1])(f.expr(lcond['inner'][1]))))):
        f = FnX(tr, son, nm, 'ModelManagerWithProblemBuilder')
        term = build(f)
        tr.order.append((nm, 'def %s %s : Outcome Int :=\n  %s\n' % (nm, ' '.join('(%s : Int)' % p for p in f.extras), term), list(f.extras)))
    skels.append(('skel_SetObjNames', skeleton(body_of(son))))
    tr.abstract = set()
    # (3) uses of the filter in the NL reader: ObjHandler::SkipExpr / OnLinearExpr (G segments), `case 'O'`, `case 'G'`
    tu4 = os.path.join(work, 'objfilter_reader.cc')
    open(tu4, 'w').write(TU_READER)
    idx.add_docs(clang_dump(tu4, 'mp::internal::NLReader', [os.path.join(repo, 'include')]))
    tr.virtuals = set(VIRTUALS)

    def b_skip(d):
        f = FnX(tr, d, 'ObjHandler_SkipExpr', 'ObjHandler')
        text = f.translate()
        return text, f.params
    nspec = same_over_specs(tr, idx, 'ObjHandler', 'SkipExpr', 'ObjHandler_SkipExpr', b_skip)

    def b_slot(d):
        bind = FnX(tr, d, 'x', 'ObjHandler')
        text, params = block_fn_with_params(tr, d, 'ObjHandler_OnLinearExpr_slot', 'ObjHandler', body_of(d).get('inner', []), ('arg', 'OnLinearObjExpr', 0))
        return text, params
    same_over_specs(tr, idx, 'ObjHandler', 'OnLinearExpr', 'ObjHandler_OnLinearExpr_slot', b_slot)
    has_ptr_param = lambda d: any(c.get('kind') == 'ParmVarDecl' for c in d.get('inner', []))

    def b_case(want, nm):
        def b(d):
            cs = case_of(d, 'O')
            blk = strip(cs['inner'][1])
            if blk['kind'] != 'CompoundStmt':
                raise TranslateError("case 'O' is not a block")
            return block_fn_with_params(tr, d, nm, 'NLReader', blk.get('inner', []), want)
        return b
    same_over_specs(tr, idx, 'NLReader', 'Read', 'caseO_guard', b_case(('cond',), 'caseO_guard'), pick=has_ptr_param)
    same_over_specs(tr, idx, 'NLReader', 'Read', 'caseO_slot', b_case(('arg', 'OnObj', 0), 'caseO_slot'), pick=has_ptr_param)
    reads = [d for d in idx.method('NLReader', 'Read', ctx_has='SolverNLHandlerImpl', ctx_not='VarBoundHandler') if has_ptr_param(d)]
    sk_o = {tuple(skeleton(strip(case_of(d, 'O')['inner'][1]))) for d in reads}
    sk_g = set()
    for d in reads:
        cg = strip(case_of(d, 'G')['inner'][1])
        callee = strip(cg['inner'][0]) if cg.get('kind') == 'CXXMemberCallExpr' else {}
        tgt = idx.by_id.get((d['_run'], callee.get('referencedMemberDecl')))
        if callee.get('name') != 'ReadLinearExpr' or tgt is None:
            raise TranslateError("case 'G' is not a call of ReadLinearExpr<...>()")
        lh = find_nodes(tgt, lambda n: n.get('kind') == 'VarDecl' and n.get('name') == 'lh')
        if len(lh) != 1:
            raise TranslateError('ReadLinearExpr<>: no handler variable lh')
        sk_g.add(("call ReadLinearExpr<%s>()" % lh[0]['type']['qualType'].rsplit('::', 1)[-1],) + tuple(skeleton(body_of(tgt))))
    if len(sk_o) != 1 or len(sk_g) != 1:
        raise TranslateError("case 'O' / case 'G' differ between reader specializations")
    skels.append(('skel_NLReader_caseO', list(sk_o.pop())))
    skels.append(('skel_NLReader_caseG', list(sk_g.pop())))
    # (4) where the delivered objectives come from and the echo: step skeletons from the (uninstantiated) template bodies
    tu5 = os.path.join(work, 'objfilter_flat.cc')
    open(tu5, 'w').write(TU_FLAT)
    for cfilt, filt, nm, sel, must in (('ConvertStandardItems', 'ConvertStandardItems', 'skel_Flattener_objective_loop', 'Convert', None),
                                       ('ProblemFlattener::Convert', 'Convert', 'skel_Flattener_Convert_objective', None, 'AddObjective'),
                                       ('PushObjectivesTo', 'PushObjectivesTo', 'skel_FlatModel_PushObjectivesTo', None, 'SetLinearObjective'),
                                       ('WriteSolFile', 'WriteSolFile', 'skel_WriteSolFile_objno', 'objno', None)):
        docs = clang_dump(tu5, cfilt, [os.path.join(repo, 'include')])
        for dd in docs:
            prune_comments(dd)
        bodies = [b for dd in docs for b in find_nodes(dd, lambda n: n.get('kind') in ('CXXMethodDecl', 'FunctionDecl') and n.get('name') == filt
                                                        and any(c.get('kind') == 'CompoundStmt' for c in n.get('inner', [])))]
        uniq = []
        for b in bodies:
            if not any(skeleton(body_of(b)) == skeleton(body_of(u)) for u in uniq):
                uniq.append(b)
        bodies = [b for b in uniq if must is None or any(must in t for t in skeleton(body_of(b)))]
        if len(bodies) != 1:
            raise TranslateError('%d different bodies of %s' % (len(bodies), filt))
        steps = skeleton(body_of(bodies[0]))
        if sel:
            steps = [t for t in steps if sel in t and ('obj' in t.lower())]
        if not steps:
            raise TranslateError('%s: the step of interest was not found' % filt)
        skels.append((nm, steps))
    # (5) LinTerms::sort_terms (src/std_constr.cc): std::map code, not translated; its step skeleton as a tripwire
    tu6 = os.path.join(work, 'objfilter_stdconstr.cc')
    open(tu6, 'w').write('#define NDEBUG 1\n#include "%s/src/std_constr.cc"\n' % repo)
    docs = clang_dump(tu6, 'mp::LinTerms::sort_terms', [os.path.join(repo, 'include'), os.path.join(repo, 'src')])
    for dd in docs:
        prune_comments(dd)
    bodies = [b for dd in docs for b in find_nodes(dd, lambda n: n.get('kind') == 'CXXMethodDecl' and n.get('name') == 'sort_terms'
                                                    and any(c.get('kind') == 'CompoundStmt' for c in n.get('inner', [])))]
    if len(bodies) != 1:
        raise TranslateError('%d bodies of LinTerms::sort_terms' % len(bodies))
    skels.append(('skel_LinTerms_sort_terms', skeleton(body_of(bodies[0]))))
    # round 7: the same function translated semantically (vector/map loops -> folds over lists, exact arithmetic)
    ldocs = clang_dump(tu6, 'mp::LinTerms', [os.path.join(repo, 'include'), os.path.join(repo, 'src')])
    for dd in ldocs:
        prune_comments(dd)
    lms = [b for dd in ldocs for b in find_nodes(dd, lambda n: n.get('kind') == 'CXXMethodDecl' and n.get('name') in ('sort_terms', 'size')
                                                 and any(c.get('kind') == 'CompoundStmt' for c in n.get('inner', [])))]
    lsz = [m for m in lms if m['name'] == 'size']
    lst = [m for m in lms if m['name'] == 'sort_terms']
    if len(lsz) != 1 or len(lst) != 1:
        raise TranslateError('LinTerms: %d size() and %d sort_terms() bodies' % (len(lsz), len(lst)))
    loop_text, loop_params = tr_loops_c12.LoopFn(lst[0], 'LinTerms_sort_terms', tr_loops_c12.size_field(lsz[0])).translate()
    # round 8: QuadTerms::sort_terms (three vectors, a map keyed by the sorted variable pair, a local lambda, add_term inlined)
    qdocs = clang_dump(tu6, 'mp::QuadTerms', [os.path.join(repo, 'include'), os.path.join(repo, 'src')])
    for dd in qdocs:
        prune_comments(dd)
    qms = [b for dd in qdocs for b in find_nodes(dd, lambda n: n.get('kind') == 'CXXMethodDecl' and n.get('name') in ('sort_terms', 'size', 'add_term')
                                                 and any(c.get('kind') == 'CompoundStmt' for c in n.get('inner', [])))]
    qget = {}
    for m in qms:
        qget.setdefault(m['name'], []).append(m)
    if any(len(qget.get(k, [])) != 1 for k in ('sort_terms', 'size', 'add_term')):
        raise TranslateError('QuadTerms: expected exactly one body each of sort_terms, size, add_term')
    qf = tr_loops_c12.LoopFn(qget['sort_terms'][0], 'QuadTerms_sort_terms', tr_loops_c12.size_field(qget['size'][0]))
    qf.methods = {'add_term': qget['add_term'][0]}
    quad_text, quad_params = qf.translate()
    o = ['/- GENERATED by translators/gen_objfilter.py from include/mp/nl-reader.h, solver-base.h, solver-io.h.',
         '   Do not edit: regenerated on every check run.  Parameters: p_* declared parameters, f_* fields of `this`',
         '   (or of the member object the call goes through), v_* results of virtual calls on `this`,',
         '   p_<param>_<field> integer fields of a struct parameter. -/',
         'import MpVerif.Basic.CSem',
         'namespace MpVerif.Gen.ObjFilter',
         'open MpVerif.CSem',
         '',
         '/-- `std::min` / `std::max` on values -/',
         'def cmin (a b : Int) : Int := if b < a then b else a',
         'def cmax (a b : Int) : Int := if a < b then b else a',
         '/-- `abs(int)`: undefined for the most negative value -/',
         'def cabs (t : CTy) (a : Int) : Outcome Int := if a < 0 then cneg t a else Outcome.ret a',
         '']
    sig = {}
    for name, text, params in tr.order:
        o.append(text)
        sig[name] = params
    for name, steps in skels:
        o.append('def %s : List String := [\n  %s]\n' % (name, ',\n  '.join(lean_str(s) for s in steps)))
    o.append('/-! ### `LinTerms::sort_terms` (src/std_constr.cc): loops over the two vectors and a local `std::map`, exact arithmetic -/')
    o.append(tr_loops_c12.PRELUDE)
    o.append(loop_text)
    o.append(quad_text)
    o.append('/-- driver table: name, arity, function on an argument list (wrong arity -> ub) -/')
    o.append('def table : List (String × Nat × (List Int → Outcome Int)) := [')
    ent = []
    for name, _, params in tr.order:
        vs = ['a%d' % i for i in range(len(params))]
        ent.append('  ("%s", %d, fun | [%s] => %s %s | _ => Outcome.ub)' % (name, len(params), ', '.join(vs), name, ' '.join(vs)))
    o.append(',\n'.join(ent))
    o.append(']')
    o.append('end MpVerif.Gen.ObjFilter')
    text = '\n'.join(o) + '\n'
    old = open(out).read() if os.path.exists(out) else None
    if old != text:
        open(out, 'w').write(text)
    json.dump(sig, open(os.path.join(work, 'objfilter_sig.json'), 'w'), indent=1)
    print('generated %d defs, %d skeletons -> %s%s' % (len(tr.order), len(skels), out, '' if old != text else ' (unchanged)'))


if __name__ == '__main__':
    try:
        main(sys.argv[1], sys.argv[2], sys.argv[3] if len(sys.argv) > 3 else '/verif/build/tr')
    except TranslateError as e:
        print('TRANSLATE-ERROR: %s' % e)
        sys.exit(3)

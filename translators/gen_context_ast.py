#!/usr/bin/env python3
"""Translate the member functions of mp::Context (include/mp/flat/context.h) from clang's typed AST into Lean functions.

Output lean/MpVerif/Gen/C01Context.lean: one Lean definition per member function, over the enumerator codes (Nat):
  bool  f() const          ->  def f (v : Nat) : Bool
  Context operator+/-()    ->  def opPlus / opMinus (v : Nat) : Nat            (the value of the returned Context)
  Context& Add(Context ct) ->  def Add (v ct : Nat) : Nat                      (value_ after the call; the function returns *this)
`v` is `this->value_`, a Context-typed parameter is its `value_`.  Understood constructs: return, ==, ||, &&, !, enumerators,
`value_` of this / of a parameter, calls of (translated) const member functions on this / on a parameter, Context(x) construction,
switch over an integer expression with case-label groups ending in break/return, default, if without else, assignment to `value_`.
Anything else raises TranslateError (the check then reports a violation: the model tie is lost).

usage: gen_context_ast.py <repo> <out.lean> [<workdir>]     writes the file only when its content changes.
"""
import sys, os, json, subprocess
sys.path.insert(0, os.path.dirname(os.path.abspath(__file__)))
from tr_cint import parse_concat_json, TranslateError

LEAN_NAME = {'operator+': 'opPlus', 'operator-': 'opMinus'}


def strip(n):
    while isinstance(n, dict) and n.get('kind') in ('ImplicitCastExpr', 'ParenExpr', 'ConstantExpr', 'ExprWithCleanups',
                                                    'MaterializeTemporaryExpr', 'CXXFunctionalCastExpr', 'CXXBindTemporaryExpr'):
        inner = [c for c in n.get('inner', []) if isinstance(c, dict)]
        if len(inner) != 1:
            raise TranslateError('cast node with %d children' % len(inner))
        n = inner[0]
    return n


def kids(n):
    return [c for c in n.get('inner', []) if isinstance(c, dict) and not str(c.get('kind', '')).endswith('Comment')]


class Ctx:
    def __init__(self, rec):
        self.enum = {}
        self.methods = {}
        self.field_ids = set()
        for c in kids(rec):
            if c.get('kind') == 'EnumDecl':
                nxt = 0
                for e in kids(c):
                    if e.get('kind') != 'EnumConstantDecl':
                        continue
                    ek = kids(e)
                    if ek:
                        v = strip(ek[0])
                        if v.get('kind') != 'IntegerLiteral':
                            raise TranslateError('enumerator %s with a non-literal initialiser' % e['name'])
                        nxt = int(v['value'])
                    self.enum[e['name']] = nxt
                    nxt += 1
            elif c.get('kind') == 'FieldDecl':
                self.field_ids.add(c.get('id'))
                if c.get('name') != 'value_':
                    raise TranslateError('unexpected field %s in Context' % c.get('name'))
            elif c.get('kind') == 'CXXMethodDecl' and not c.get('isImplicit'):
                self.methods[c['name']] = c
        if sorted(self.enum) != ['CTX_MIX', 'CTX_NEG', 'CTX_NONE', 'CTX_POS']:
            raise TranslateError('Context::CtxVal enumerators changed: %s' % sorted(self.enum))

    # ---- expressions -> Lean text
    def expr(self, n, env):
        n = strip(n)
        k = n.get('kind')
        if k == 'DeclRefExpr':
            rd = n.get('referencedDecl', {})
            if rd.get('kind') == 'EnumConstantDecl':
                return str(self.enum[rd['name']])
            if rd.get('kind') == 'ParmVarDecl':
                return env['params'][rd['name']]
            raise TranslateError('reference to %s' % rd)
        if k == 'MemberExpr':
            base = strip(kids(n)[0])
            if n.get('name') != 'value_':
                raise TranslateError('member %s' % n.get('name'))
            if base.get('kind') == 'CXXThisExpr':
                return env['this']
            return self.expr(base, env)
        if k == 'BinaryOperator' and n.get('opcode') in ('==', '!=', '||', '&&'):
            a, b = [self.expr(c, env) for c in kids(n)]
            return '(%s %s %s)' % (a, n['opcode'], b)
        if k == 'UnaryOperator' and n.get('opcode') == '!':
            return '(!%s)' % self.expr(kids(n)[0], env)
        if k == 'UnaryOperator' and n.get('opcode') == '*' and strip(kids(n)[0]).get('kind') == 'CXXThisExpr':
            return env['this']
        if k == 'CXXMemberCallExpr':
            me = strip(kids(n)[0])
            if me.get('kind') != 'MemberExpr' or len(kids(n)) != 1:
                raise TranslateError('member call with arguments')
            callee = me['name']
            if callee not in self.methods:
                raise TranslateError('call of unknown member %s' % callee)
            obj = strip(kids(me)[0])
            arg = env['this'] if obj.get('kind') == 'CXXThisExpr' else self.expr(obj, env)
            self.need(callee)
            return '(%s %s)' % (LEAN_NAME.get(callee, callee), arg)
        if k == 'CXXConstructExpr':
            ks = kids(n)
            if len(ks) != 1:
                raise TranslateError('Context constructed from %d arguments' % len(ks))
            return self.expr(ks[0], env)
        raise TranslateError('expression kind %s' % k)

    # ---- statements, continuation style; env['this'] is the Lean name of the current value_
    def stmts(self, lst, env, kont, brk=None):
        if not lst:
            return kont(env)
        s, rest = lst[0], lst[1:]
        k = s.get('kind')
        if k == 'CompoundStmt':
            return self.stmts(kids(s) + rest, env, kont, brk)
        if k == 'ReturnStmt':
            ks = kids(s)
            if not ks:
                raise TranslateError('return without value')
            return self.expr(ks[0], env)
        if k == 'BreakStmt':
            if brk is None:
                raise TranslateError('break outside switch')
            return brk(env)
        if k == 'BinaryOperator' and s.get('opcode') == '=':
            lhs, rhs = kids(s)
            lhs = strip(lhs)
            if not (lhs.get('kind') == 'MemberExpr' and lhs.get('name') == 'value_' and strip(kids(lhs)[0]).get('kind') == 'CXXThisExpr'):
                raise TranslateError('assignment to something else than this->value_')
            env2 = dict(env)
            self.counter += 1
            nm = 'v%d' % self.counter
            env2['this'] = nm
            return '(let %s := %s; %s)' % (nm, self.expr(rhs, env), self.stmts(rest, env2, kont, brk))
        if k == 'IfStmt':
            ks = kids(s)
            if len(ks) not in (2, 3):
                raise TranslateError('if statement shape')
            cond = self.expr(ks[0], env)
            after = lambda e: self.stmts(rest, e, kont, brk)
            th = self.stmts([ks[1]], env, after, brk)
            el = self.stmts([ks[2]], env, after, brk) if len(ks) == 3 else after(env)
            return '(if %s then %s else %s)' % (cond, th, el)
        if k == 'SwitchStmt':
            ks = kids(s)
            sel = self.expr(ks[0], env)
            body = kids(ks[1]) if ks[1].get('kind') == 'CompoundStmt' else [ks[1]]
            groups = []      # (labels or None for default, [stmts])
            cur = None
            for st in body:
                labels = []
                node = st
                isdef = False
                while node.get('kind') in ('CaseStmt', 'DefaultStmt'):
                    if node['kind'] == 'CaseStmt':
                        cs = kids(node)
                        labels.append(self.expr(cs[0], env))
                        node = cs[1]
                    else:
                        isdef = True
                        node = kids(node)[0]
                if labels or isdef:
                    cur = ([None] if isdef and not labels else labels + ([None] if isdef else []), [node])
                    groups.append(cur)
                else:
                    if cur is None:
                        raise TranslateError('statement before the first case label')
                    cur[1].append(st)
            after = lambda e: self.stmts(rest, e, kont, brk)
            for labels, sts in groups:
                last = sts[-1].get('kind')
                if last not in ('BreakStmt', 'ReturnStmt') and (labels, sts) is not groups[-1]:
                    raise TranslateError('case group falls through into the next one')
            default = None
            chain = []
            for labels, sts in groups:
                if None in labels:
                    default = sts
                    labels = [l for l in labels if l is not None]
                if labels:
                    chain.append((labels, sts))
            out = self.stmts(default, env, after, after) if default is not None else after(env)
            for labels, sts in reversed(chain):
                cond = ' || '.join('%s == %s' % (sel, l) for l in labels)
                out = '(if %s then %s else %s)' % (cond, self.stmts(sts, env, after, after), out)
            return out
        raise TranslateError('statement kind %s' % k)

    def need(self, name):
        if name in self.done or name in self.pending:
            return
        self.pending.append(name)

    def translate_all(self, roots):
        self.done, self.pending, self.order, self.counter = {}, list(roots), [], 0
        while self.pending:
            name = self.pending.pop(0)
            if name in self.done:
                continue
            d = self.methods.get(name)
            if d is None:
                raise TranslateError('Context::%s not found' % name)
            body = [c for c in kids(d) if c.get('kind') == 'CompoundStmt']
            if not body:
                raise TranslateError('Context::%s has no body' % name)
            params = [c for c in kids(d) if c.get('kind') == 'ParmVarDecl']
            for p in params:
                if 'Context' not in p['type']['qualType']:
                    raise TranslateError('parameter type %s' % p['type']['qualType'])
            env = {'this': 'v', 'params': {p['name']: p['name'] for p in params}}
            rty = d['type']['qualType'].split('(')[0].strip()
            isbool = rty == 'bool'
            retref = rty.endswith('&')
            text = self.stmts(kids(body[0]), env, (lambda e: e['this']) if retref else self._falloff(name))
            lname = LEAN_NAME.get(name, name)
            sig = ' '.join(['(v : Nat)'] + ['(%s : Nat)' % p['name'] for p in params])
            self.done[name] = 'def %s %s : %s :=\n  %s\n' % (lname, sig, 'Bool' if isbool else 'Nat', text)
            self.order.append(name)
        # dependency order: callees first
        return [self.done[n] for n in sorted(self.order, key=lambda n: 0 if self.methods[n]['type']['qualType'].startswith('bool') else 1)]

    def _falloff(self, name):
        def f(e):
            raise TranslateError('control reaches the end of Context::%s without return' % name)
        return f


ROOTS = ['IsNone', 'HasPositive', 'HasNegative', 'IsPositive', 'IsNegative', 'IsMixed', 'operator+', 'operator-', 'Add']


def main(repo, out, work):
    os.makedirs(work, exist_ok=True)
    tu = os.path.join(work, 'ctx_tu.cc')
    open(tu, 'w').write('#include "mp/flat/context.h"\n')
    r = subprocess.run(['clang++-14', '-std=gnu++17', '-fsyntax-only', '-I' + os.path.join(repo, 'include'), '-Xclang', '-ast-dump=json',
                        '-Xclang', '-ast-dump-filter=Context', tu], capture_output=True, text=True)
    docs = [d for d in parse_concat_json(r.stdout) if d.get('kind') == 'CXXRecordDecl' and d.get('name') == 'Context' and kids(d)]
    if not docs:
        raise TranslateError('class mp::Context not found in context.h (clang exit %s)' % r.returncode)
    c = Ctx(docs[0])
    defs = c.translate_all(ROOTS)
    extra = sorted(set(c.methods) - set(ROOTS) - {'GetValue'})
    if extra:
        raise TranslateError('Context has member functions the model does not know: %s' % extra)
    o = ['/- GENERATED by translators/gen_context_ast.py from the clang-14 typed AST of include/mp/flat/context.h.',
         '   Do not edit: regenerated on every check run.  v = this->value_, a Context parameter = its value_;',
         '   enumerator codes: %s. -/' % ', '.join('%s=%d' % kv for kv in sorted(c.enum.items(), key=lambda kv: kv[1])),
         'namespace MpVerif.Gen.C01Context', '',
         'def enumCodes : List (String × Nat) := [%s]' % ', '.join('("%s", %d)' % kv for kv in sorted(c.enum.items(), key=lambda kv: kv[1])), '']
    o += defs
    o.append('end MpVerif.Gen.C01Context')
    text = '\n'.join(o) + '\n'
    old = open(out).read() if os.path.exists(out) else None
    if old != text:
        open(out, 'w').write(text)
    print('translated %d member functions of mp::Context -> %s%s' % (len(defs), out, '' if old != text else ' (unchanged)'))
    return 0


if __name__ == '__main__':
    try:
        sys.exit(main(sys.argv[1], sys.argv[2], sys.argv[3] if len(sys.argv) > 3 else '/tmp'))
    except TranslateError as e:
        print('TRANSLATE-ERROR: %s' % e)
        sys.exit(3)

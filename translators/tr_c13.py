#!/usr/bin/env python3
"""C13 translator: small double-arithmetic / decision functions of the PL generator -> Lean 4 definitions over the
model's arithmetic (MpVerif.C13.Arith: `fadd o a b` = rnd(a+b) ...), from clang-14's AST (-ast-dump=json) of the
*template patterns* in src/mp/flat/piecewise_linear.cpp and include/mp/flat/constr_functional.h.

Semantics of the translation (trusted base): every C++ `double` is a value of the model's number type (exact rational);
`a+b`, `a-b`, `a*b`, `a/b` on doubles are the model's rounded operations `fadd/fsub/fmul/fdiv o`; comparisons are exact;
`std::fabs/sqrt/floor/ceil/max/min` are `rabs`, `o.sqrt`, `Rat.floor/ceil`, and the textbook definitions
`std::max(a,b) = (a<b)?b:a`, `std::min(a,b) = (b<a)?b:a`; an `int` literal in a double expression is exact; `int(e)` is
`truncInt e`.  Floating literals become the exact rational value of the double clang parsed.

Anything not understood raises TranslateError (never skipped).
"""
import os, sys, json
from fractions import Fraction
sys.path.insert(0, os.path.dirname(os.path.abspath(__file__)))
from tr_cint import clang_dump, TranslateError

SKIP = ('FullComment', 'ParagraphComment', 'TextComment', 'BlockCommandComment', 'ParamCommandComment', 'InlineCommandComment')
TRANSPARENT = ('ParenExpr', 'ImplicitCastExpr', 'ExprWithCleanups', 'MaterializeTemporaryExpr', 'CXXBindTemporaryExpr',
               'ConstantExpr')


def kids(n):
    return [c for c in n.get('inner', []) if c.get('kind') not in SKIP]


def strip(n):
    while n.get('kind') in TRANSPARENT:
        # int -> double promotion is exact; double -> int is a truncation and must be explicit
        if n.get('kind') == 'ImplicitCastExpr' and n.get('castKind') == 'FloatingToIntegral':
            return n
        ks = kids(n)
        if len(ks) != 1:
            raise TranslateError('transparent node with %d children' % len(ks))
        n = ks[0]
    return n


def rat(v):
    f = Fraction(float(v))
    if f.denominator == 1:
        return '(%d : Rat)' % f.numerator
    return '((%d : Rat) / (%d : Rat))' % (f.numerator, f.denominator)


def member_path(n):
    """a.b.c for MemberExpr chains ending in `this` (implicit) or a DeclRefExpr"""
    n = strip(n)
    if n.get('kind') == 'MemberExpr':
        base = kids(n)
        b = member_path(base[0]) if base else ''
        return (b + '.' if b else '') + n['name']
    if n.get('kind') == 'CXXDependentScopeMemberExpr':
        base = kids(n)
        b = member_path(base[0]) if base else ''
        return (b + '.' if b else '') + n['member']
    if n.get('kind') == 'CXXThisExpr':
        return ''
    if n.get('kind') == 'DeclRefExpr':
        return n['referencedDecl']['name']
    raise TranslateError('not a member path: %s' % n.get('kind'))


class Tr:
    """env: name -> Lean term for locals/params; members: path -> Lean term; calls: callee name -> ('fn', leanname) applied
    to the translated arguments, or ('val', leanterm) for nullary accessors"""
    def __init__(self, members=None, calls=None, env=None):
        self.members = dict(members or {})
        self.calls = dict(calls or {})
        self.env = dict(env or {})

    def callee_name(self, c):
        c = strip(c)
        k = c.get('kind')
        if k == 'MemberExpr':
            return c['name'], kids(c)
        if k in ('UnresolvedLookupExpr', 'DeclRefExpr'):
            return (c.get('name') or c['referencedDecl']['name']), []
        if k == 'UnresolvedMemberExpr':
            return c['name'], kids(c)
        raise TranslateError('callee kind %s' % k)

    def expr(self, n):
        n = strip(n)
        k = n.get('kind')
        if k == 'FloatingLiteral':
            return rat(n['value'])
        if k == 'IntegerLiteral':
            return '(%s : Rat)' % n['value']
        if k == 'CXXBoolLiteralExpr':
            return 'True' if str(n['value']).lower() == 'true' else 'False'
        if k == 'DeclRefExpr':
            nm = n['referencedDecl']['name']
            if nm in self.env:
                return self.env[nm]
            raise TranslateError('unbound name %s' % nm)
        if k in ('MemberExpr', 'CXXDependentScopeMemberExpr'):
            p = member_path(n)
            if p in self.members:
                return self.members[p]
            raise TranslateError('unknown member %s' % p)
        if k in ('ImplicitCastExpr', 'CXXFunctionalCastExpr', 'CStyleCastExpr') :
            ck = n.get('castKind')
            if ck == 'FloatingToIntegral':
                return '((truncInt %s : Int) : Rat)' % self.expr(kids(n)[0])
            if ck in ('NoOp', 'IntegralToFloating', 'LValueToRValue', 'IntegralCast'):
                return self.expr(kids(n)[0])
            raise TranslateError('cast %s' % ck)
        if k == 'UnaryOperator':
            e = self.expr(kids(n)[0])
            if n['opcode'] == '-':
                return '(-%s)' % e
            if n['opcode'] == '!':
                return '(¬ %s)' % e
            raise TranslateError('unary %s' % n['opcode'])
        if k == 'ConditionalOperator':
            c, a, b = [self.expr(x) for x in kids(n)]
            return '(if %s then %s else %s)' % (c, a, b)
        if k == 'BinaryOperator':
            op = n['opcode']
            a, b = [self.expr(x) for x in kids(n)]
            ar = {'+': 'fadd', '-': 'fsub', '*': 'fmul', '/': 'fdiv'}
            ty = (n.get('type', {}).get('desugaredQualType') or n.get('type', {}).get('qualType') or '')
            if op in ('+', '-', '*') and ty in ('int', 'unsigned int', 'long', 'unsigned long', 'size_t', 'std::size_t'):
                return '(%s %s %s)' % (a, op, b)       # integer arithmetic is exact (no overflow at these magnitudes)
            if op in ar:
                return '(%s o %s %s)' % (ar[op], a, b)
            cmpo = {'<': '(%s < %s)' % (a, b), '>': '(%s < %s)' % (b, a), '<=': '(%s ≤ %s)' % (a, b), '>=': '(%s ≤ %s)' % (b, a),
                    '==': '(%s = %s)' % (a, b), '!=': '(%s ≠ %s)' % (a, b), '&&': '(%s ∧ %s)' % (a, b), '||': '(%s ∨ %s)' % (a, b)}
            if op in cmpo:
                return cmpo[op]
            raise TranslateError('binary %s' % op)
        if k in ('CallExpr', 'CXXMemberCallExpr'):
            ks = kids(n)
            name, base = self.callee_name(ks[0])
            args = [self.expr(a) for a in ks[1:]]
            if base and strip(base[0]).get('kind') != 'CXXThisExpr':
                name = member_path(base[0]) + '.' + name
            std = {'fabs': 'rabs', 'abs': 'rabs'}
            if name in std and len(args) == 1:
                return '(%s %s)' % (std[name], args[0])
            if name == 'sqrt' and len(args) == 1:
                return '(o.sqrt %s)' % args[0]
            if name == 'floor' and len(args) == 1:
                return '((Rat.floor %s : Int) : Rat)' % args[0]
            if name == 'ceil' and len(args) == 1:
                return '((Rat.ceil %s : Int) : Rat)' % args[0]
            if name == 'max' and len(args) == 2:
                return '(if %s < %s then %s else %s)' % (args[0], args[1], args[1], args[0])
            if name == 'min' and len(args) == 2:
                return '(if %s < %s then %s else %s)' % (args[1], args[0], args[1], args[0])
            if name in self.calls:
                kind, t = self.calls[name]
                if kind == 'val':
                    if args:
                        raise TranslateError('accessor %s called with arguments' % name)
                    return t
                return '(%s %s)' % (t, ' '.join(args)) if args else t
            raise TranslateError('unknown call %s/%d' % (name, len(args)))
        if k == 'CXXOperatorCallExpr':
            ks = kids(n)
            opn = strip(ks[0])
            nm = opn.get('name') or opn.get('referencedDecl', {}).get('name')
            if nm == 'operator[]':
                p = member_path(ks[1])
                if ('index:' + p) in self.calls:
                    return '(%s %s)' % (self.calls['index:' + p][1], self.expr(ks[2]))
            raise TranslateError('operator call %s' % nm)
        if k == 'ArraySubscriptExpr':
            ks = kids(n)
            p = member_path(ks[0])
            if ('index:' + p) in self.calls:
                return '(%s %s)' % (self.calls['index:' + p][1], self.expr(ks[1]))
            raise TranslateError('subscript of %s' % p)
        raise TranslateError('expression kind %s' % k)

    # ---- statements: straight-line code with early returns / throws / conditional re-assignments
    def is_throw(self, n):
        n = strip(n)
        if n.get('kind') == 'CXXThrowExpr':
            return True
        if n.get('kind') == 'CompoundStmt' and len(kids(n)) == 1:
            return self.is_throw(kids(n)[0])
        if n.get('kind') == 'DoStmt':     # MP_ASSERT_ALWAYS: do { if (!(c)) throw } while(0) -- not used here
            return False
        return False

    def assign_target(self, n):
        """(kind, key) of an lvalue: ('local', name) or ('member', path)"""
        n = strip(n)
        if n.get('kind') == 'DeclRefExpr':
            return ('local', n['referencedDecl']['name'])
        if n.get('kind') == 'MemberExpr':
            return ('member', member_path(n))
        raise TranslateError('assignment target %s' % n.get('kind'))

    def stmts(self, lst, ret, throw, final, opaque_targets=()):
        """translate a statement list to a Lean term; `ret(e)` wraps returned values, `throw` is the term for a throw,
        `final()` gives the term when control falls off the end"""
        if not lst:
            return final()
        s, rest = lst[0], lst[1:]
        s = strip(s) if s.get('kind') in TRANSPARENT else s
        k = s.get('kind')
        cont = lambda: self.stmts(rest, ret, throw, final, opaque_targets)
        if k == 'NullStmt':
            return cont()
        if k == 'DeclStmt':
            out = []
            for v in kids(s):
                if v.get('kind') != 'VarDecl':
                    raise TranslateError('decl %s' % v.get('kind'))
                init = [c for c in kids(v)]
                if len(init) != 1:
                    raise TranslateError('VarDecl %s without single initializer' % v.get('name'))
                e = self.expr(init[0])
                self.env[v['name']] = v['name']
                out.append('let %s := %s\n  ' % (v['name'], e))
            return ''.join(out) + cont()
        if k == 'ReturnStmt':
            ks = kids(s)
            return ret(self.expr(ks[0]) if ks else None)
        if k == 'CXXThrowExpr':
            return throw
        if k == 'CompoundStmt':
            return self.stmts(kids(s) + rest, ret, throw, final, opaque_targets)
        if k == 'BinaryOperator' and s.get('opcode') == '=':
            tk, key = self.assign_target(kids(s)[0])
            if tk == 'local' and key in opaque_targets:
                return cont()
            e = self.expr(kids(s)[1])
            nm = self.fresh(key)
            self.bind(tk, key, nm)
            return 'let %s := %s\n  ' % (nm, e) + cont()
        if k == 'IfStmt':
            ks = kids(s)
            if len(ks) != 2:
                raise TranslateError('if with else / init is not supported')
            c = self.expr(ks[0])
            th = ks[1]
            thl = kids(th) if strip(th).get('kind') == 'CompoundStmt' else [th]
            thl = [strip(x) if x.get('kind') in TRANSPARENT else x for x in thl]
            # (a) the branch ends in return / throw
            if thl and (thl[-1].get('kind') in ('ReturnStmt', 'CXXThrowExpr')):
                saved = (dict(self.env), dict(self.members))
                t = self.stmts(thl, ret, throw, final, opaque_targets)
                self.env, self.members = saved
                return 'if %s then (%s) else (\n  %s)' % (c, t, cont())
            # (b) the branch is a list of assignments: conditional re-binding
            out = []
            for a in thl:
                if not (a.get('kind') == 'BinaryOperator' and a.get('opcode') == '='):
                    raise TranslateError('unsupported statement in if-branch: %s' % a.get('kind'))
                tk, key = self.assign_target(kids(a)[0])
                old = self.lookup(tk, key)
                e = self.expr(kids(a)[1])
                nm = self.fresh(key)
                out.append('let %s := if %s then %s else %s\n  ' % (nm, c, e, old))
                self.bind(tk, key, nm)
            return ''.join(out) + cont()
        raise TranslateError('statement kind %s' % k)

    _n = 0

    def fresh(self, key):
        Tr._n += 1
        return key.replace('.', '_') + "_%d" % Tr._n

    def bind(self, tk, key, nm):
        if tk == 'local':
            self.env[key] = nm
        else:
            self.members[key] = nm

    def lookup(self, tk, key):
        d = self.env if tk == 'local' else self.members
        if key not in d:
            raise TranslateError('assignment to unknown %s %s' % (tk, key))
        return d[key]


def find_all(n, pred, out=None):
    out = [] if out is None else out
    if pred(n):
        out.append(n)
    for c in kids(n):
        find_all(c, pred, out)
    return out


def method_body(docs, name, cls=None):
    """the CompoundStmt of the (unique) definition of `name` among the dumped decls"""
    found = []
    for d in docs:
        for f in find_all(d, lambda x: x.get('kind') in ('CXXMethodDecl', 'FunctionDecl', 'CXXConstructorDecl') and x.get('name') == name):
            b = [c for c in kids(f) if c.get('kind') == 'CompoundStmt']
            if b:
                found.append((f, b[0]))
    if len(found) != 1:
        raise TranslateError('%d definitions of %s found (expected exactly one template pattern)' % (len(found), name))
    return found[0]

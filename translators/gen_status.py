#!/usr/bin/env python3
"""Regenerate lean/MpVerif/Gen/Status.lean from the ampl/mp working tree:

  * enum mp::sol::Status                      (include/mp/common.h)      -> Int constants, each the
    *expression* written in the source (over earlier enumerators), cross-checked with the value
    clang's constant evaluator computed
  * StdBackend::IsProblem* / IsSolStatusRetrieved (include/mp/backend-std.h) -> Int -> Bool
  * StdBackend::SolveCode                      must be `return status_.first;`
  * SolveResultRegistry::SolveResultRegistry()  (src/solver.cc)            -> pre-registered table
  * StdBackend::ReportSolution2AMPL             (include/mp/backend-std.h) -> the guards under which the
    text "objective {}" is written to the solve message, and the first argument of HandleSolution
  * StdBackend::ReportIntermediateSolution, BackendWithModelManager::Handle[Feasible]Solution,
    ModelManagerWithProblemBuilder::Handle[Feasible]Solution -> the code each hop forwards to the .sol writer

Source: clang++-14 -ast-dump=json.  Anything not understood raises TranslateError
(prints TRANSLATE-ERROR, exit status 3): a loud failure, never a silent default.

usage: gen_status.py <repo> <out.lean> <workdir> [<enum_list.inc>]
Writes files only when their content changes.
"""
import sys, os, re, json, subprocess
sys.path.insert(0, os.path.dirname(__file__))
from tr_cint import TranslateError, parse_concat_json

PREDICATES = ['IsProblemSolved', 'IsProblemSolvedOrFeasible', 'IsProblemIndiffInfOrUnb',
              'IsProblemInfOrUnb', 'IsProblemInfeasible', 'IsProblemUnbounded', 'IsSolStatusRetrieved']
DEFINES = ['-DNDEBUG', '-DMP_DATE=20240320', '-DMP_SYSINFO="Linux x86_64"']


def clang(tu, filt, repo):
    cmd = ['clang++-14', '-std=gnu++17', '-fsyntax-only', '-w'] + DEFINES + \
          ['-I', os.path.join(repo, 'include'), '-I', os.path.join(repo, 'src'),
           '-Xclang', '-ast-dump=json', '-Xclang', '-ast-dump-filter=' + filt, tu]
    p = subprocess.run(cmd, capture_output=True, text=True)
    if p.returncode != 0:
        raise TranslateError('clang failed on %s: %s' % (tu, p.stderr[:1500]))
    return parse_concat_json(p.stdout)


def lean_name(fn):
    return fn[0].lower() + fn[1:]


def strip(n):
    """drop wrappers that do not change the value"""
    while n.get('kind') in ('ParenExpr', 'ImplicitCastExpr', 'ConstantExpr', 'ExprWithCleanups',
                            'CXXBindTemporaryExpr', 'MaterializeTemporaryExpr') and len(n.get('inner', [])) == 1:
        if n['kind'] == 'ImplicitCastExpr' and n.get('castKind') not in (
                'IntegralCast', 'LValueToRValue', 'NoOp', 'IntegralToBoolean', 'ConstructorConversion',
                'ArrayToPointerDecay', 'FunctionToPointerDecay', 'UserDefinedConversion'):
            raise TranslateError('unknown implicit cast %s' % n.get('castKind'))
        n = n['inner'][0]
    return n


# ------------------------------------------------------------------ enum
def const_expr(n, known):
    n = strip(n)
    k = n.get('kind')
    if k == 'IntegerLiteral':
        return n['value'], int(n['value'])
    if k == 'UnaryOperator' and n.get('opcode') in ('-', '+'):
        s, v = const_expr(n['inner'][0], known)
        return ('(-%s)' % s, -v) if n['opcode'] == '-' else (s, v)
    if k == 'BinaryOperator' and n.get('opcode') in ('+', '-', '*'):
        (s1, v1), (s2, v2) = const_expr(n['inner'][0], known), const_expr(n['inner'][1], known)
        op = n['opcode']
        return '(%s %s %s)' % (s1, op, s2), {'+': v1 + v2, '-': v1 - v2, '*': v1 * v2}[op]
    if k == 'DeclRefExpr' and n.get('referencedDecl', {}).get('kind') == 'EnumConstantDecl':
        nm = n['referencedDecl']['name']
        if nm not in known:
            raise TranslateError('enumerator %s used before its definition' % nm)
        return nm, known[nm]
    raise TranslateError('enum initializer: unsupported node %s' % k)


def translate_enum(repo, work):
    tu = os.path.join(work, 'status_tu.cc')
    open(tu, 'w').write('#include "mp/common.h"\n')
    docs = [d for d in clang(tu, 'mp::sol::Status', repo) if d.get('kind') == 'EnumDecl' and d.get('name') == 'Status']
    if len(docs) != 1:
        raise TranslateError('expected exactly one enum mp::sol::Status, found %d' % len(docs))
    known, out, prev = {}, [], None
    for c in docs[0].get('inner', []):
        if c.get('kind') != 'EnumConstantDecl':
            continue
        nm = c['name']
        inits = [x for x in c.get('inner', []) if x.get('kind') not in ('FullComment',)]
        if not inits:                       # implicit value = previous + 1
            if prev is None:
                s, v, cv = '0', 0, 0
            else:
                s, v, cv = '(%s + 1)' % prev, known[prev] + 1, known[prev] + 1
        else:
            if len(inits) != 1:
                raise TranslateError('enumerator %s: unexpected children' % nm)
            s, v = const_expr(inits[0], known)
            top = inits[0]
            cv = int(top['value']) if top.get('kind') == 'ConstantExpr' and 'value' in top else None
            if cv is None:
                raise TranslateError('enumerator %s: clang gave no evaluated value' % nm)
            if cv != v:
                raise TranslateError('enumerator %s: own evaluation %d differs from clang %d' % (nm, v, cv))
        if not re.match(r'^[A-Z][A-Z0-9_]*$', nm):
            raise TranslateError('enumerator name %s not supported' % nm)
        known[nm] = v
        out.append((nm, s, cv))
        prev = nm
    if not out:
        raise TranslateError('enum mp::sol::Status has no enumerators')
    return out, known


# ------------------------------------------------------------------ predicates
class PredTr:
    def __init__(self, known):
        self.known = known

    def expr(self, n, env):
        """returns (lean text, type) with type in {'int','bool'}"""
        n = strip(n)
        k = n.get('kind')
        if k == 'IntegerLiteral':
            return '(%s : Int)' % n['value'], 'int'
        if k == 'CXXBoolLiteralExpr':
            return ('true' if n.get('value') else 'false'), 'bool'
        if k == 'DeclRefExpr':
            rd = n.get('referencedDecl', {})
            if rd.get('kind') == 'EnumConstantDecl':
                if rd['name'] not in self.known:
                    raise TranslateError('predicate uses unknown enumerator %s' % rd['name'])
                return rd['name'], 'int'
            if rd.get('kind') == 'VarDecl' and rd.get('name') in env:
                return env[rd['name']], 'int'
            raise TranslateError('predicate: reference to %s %s not understood' % (rd.get('kind'), rd.get('name')))
        if k in ('CallExpr', 'CXXMemberCallExpr'):
            inner = n.get('inner', [])
            if len(inner) != 1:
                raise TranslateError('predicate: call with arguments not understood')
            callee = strip(inner[0])
            if callee.get('kind') != 'MemberExpr' or strip(callee['inner'][0]).get('kind') != 'CXXThisExpr':
                raise TranslateError('predicate: call of something other than this->member()')
            nm = callee.get('name')
            if nm == 'SolveCode':
                return 'c', 'int'
            if nm in PREDICATES:
                return '%s c' % lean_name(nm), 'bool'
            raise TranslateError('predicate: call of unknown member %s' % nm)
        if k == 'UnaryOperator' and n.get('opcode') == '!':
            s, t = self.expr(n['inner'][0], env)
            return '(!(%s))' % self.as_bool(s, t), 'bool'
        if k == 'UnaryOperator' and n.get('opcode') == '-':
            s, t = self.expr(n['inner'][0], env)
            if t != 'int':
                raise TranslateError('predicate: unary minus on bool')
            return '(-%s)' % s, 'int'
        if k == 'BinaryOperator':
            op = n.get('opcode')
            (a, ta), (b, tb) = self.expr(n['inner'][0], env), self.expr(n['inner'][1], env)
            if op in ('&&', '||'):
                return '((%s) %s (%s))' % (self.as_bool(a, ta), op, self.as_bool(b, tb)), 'bool'
            if op in ('<', '<=', '>', '>=', '==', '!='):
                if ta != 'int' or tb != 'int':
                    raise TranslateError('predicate: comparison of non-integers')
                lop = {'<': 'ltB', '<=': 'leB', '>': 'gtB', '>=': 'geB', '==': 'eqB', '!=': 'neB'}[op]
                return '%s %s %s' % (lop, atom(a), atom(b)), 'bool'
            if op in ('+', '-', '*'):
                if ta != 'int' or tb != 'int':
                    raise TranslateError('predicate: arithmetic on non-integers')
                return '(%s %s %s)' % (a, op, b), 'int'
            raise TranslateError('predicate: operator %s not supported' % op)
        raise TranslateError('predicate: unsupported node %s' % k)

    @staticmethod
    def as_bool(s, t):
        return s if t == 'bool' else 'neB %s 0' % atom(s)

    @staticmethod
    def is_assert_or_void(n):
        """assert(...) expands to ((void)0) under NDEBUG or to (cond ? (void)0 : __assert_fail(...)) otherwise"""
        m = n
        while m.get('kind') == 'ParenExpr':
            m = m['inner'][0]
        if m.get('kind') in ('CStyleCastExpr', 'CXXStaticCastExpr', 'CXXFunctionalCastExpr') and m.get('castKind') == 'ToVoid':
            return True
        if m.get('kind') == 'ConditionalOperator' and '__assert_fail' in json.dumps(m):
            return True
        return m.get('kind') == 'NullStmt'

    def method(self, d):
        body = [x for x in d.get('inner', []) if x.get('kind') == 'CompoundStmt']
        if len(body) != 1:
            raise TranslateError('%s: no body' % d.get('name'))
        env, ret = {}, None
        for st in body[0].get('inner', []):
            if ret is not None:
                raise TranslateError('%s: statement after return' % d['name'])
            k = st.get('kind')
            if self.is_assert_or_void(st):
                continue
            if k == 'DeclStmt':
                for v in st['inner']:
                    if v.get('kind') != 'VarDecl' or len(v.get('inner', [])) != 1:
                        raise TranslateError('%s: declaration not understood' % d['name'])
                    s, t = self.expr(v['inner'][0], env)
                    if t != 'int':
                        raise TranslateError('%s: local %s is not an integer' % (d['name'], v['name']))
                    env[v['name']] = s
            elif k == 'ReturnStmt':
                s, t = self.expr(st['inner'][0], env)
                ret = self.as_bool(s, t)
            else:
                raise TranslateError('%s: unsupported statement %s' % (d['name'], k))
        if ret is None:
            raise TranslateError('%s: no return' % d['name'])
        return ret


def atom(s):
    return s if re.match(r'^[\w.]+$', s) or (s.startswith('(') and s.endswith(')')) else '(%s)' % s


def calls_in(expr_text):
    return [p for p in PREDICATES if re.search(r'\b%s c\b' % lean_name(p), expr_text)]


def translate_predicates(repo, work, known):
    tu = os.path.join(work, 'backend_tu.cc')
    open(tu, 'w').write('#include "mp/backend-std.h"\n')
    docs = clang(tu, 'StdBackend::Is', repo)
    tr = PredTr(known)
    found = {}
    for d in docs:
        if d.get('kind') == 'CXXMethodDecl' and d.get('name') in PREDICATES and any(x.get('kind') == 'CompoundStmt' for x in d.get('inner', [])):
            if d['name'] in found:
                raise TranslateError('two definitions of StdBackend::%s' % d['name'])
            if d.get('type', {}).get('qualType') != 'bool () const':
                raise TranslateError('%s has type %s' % (d['name'], d.get('type')))
            found[d['name']] = tr.method(d)
    missing = [p for p in PREDICATES if p not in found]
    if missing:
        raise TranslateError('predicates not found in StdBackend: %s' % missing)
    # dependency order (a predicate may call another one)
    order, done = [], set()

    def visit(p, stack=()):
        if p in done:
            return
        if p in stack:
            raise TranslateError('recursive predicates %s' % (stack,))
        for q in calls_in(found[p]):
            if q != p:
                visit(q, stack + (p,))
            else:
                raise TranslateError('recursive predicate %s' % p)
        done.add(p)
        order.append(p)
    for p in PREDICATES:
        visit(p)
    # SolveCode must read the stored status code
    sc = [d for d in clang(tu, 'StdBackend::SolveCode', repo) if d.get('kind') == 'CXXMethodDecl' and d.get('name') == 'SolveCode']
    oksc = False
    for d in sc:
        body = [x for x in d.get('inner', []) if x.get('kind') == 'CompoundStmt']
        if body and len(body[0].get('inner', [])) == 1 and body[0]['inner'][0].get('kind') == 'ReturnStmt':
            e = strip(body[0]['inner'][0]['inner'][0])
            if e.get('kind') in ('MemberExpr', 'CXXDependentScopeMemberExpr') and (e.get('name') == 'first' or e.get('member') == 'first'):
                b = strip(e['inner'][0])
                if b.get('kind') == 'MemberExpr' and b.get('name') == 'status_':
                    oksc = True
    if not oksc:
        raise TranslateError('StdBackend::SolveCode is no longer `return status_.first;`')
    return [(p, found[p]) for p in order]


# ------------------------------------------------------------------ registry
def find_all(n, kind, acc=None):
    acc = [] if acc is None else acc
    if isinstance(n, dict):
        if n.get('kind') == kind:
            acc.append(n)
        for c in n.get('inner', []) or []:
            find_all(c, kind, acc)
    return acc


def c_string(lit):
    v = lit['value']
    return json.loads(v) if not re.search(r'\\[^"\\nt]', v) else bytes(v[1:-1], 'utf-8').decode('unicode_escape')


def translate_registry(repo, known):
    docs = clang(os.path.join(repo, 'src', 'solver.cc'), 'SolveResultRegistry::SolveResultRegistry', repo)
    ctors = [d for d in docs if d.get('kind') == 'CXXConstructorDecl' and d.get('type', {}).get('qualType') == 'void ()'
             and any(x.get('kind') == 'CXXCtorInitializer' for x in d.get('inner', []))]
    if len(ctors) != 1:
        raise TranslateError('SolveResultRegistry default constructor with initializers: found %d' % len(ctors))
    inits = [x for x in ctors[0]['inner'] if x.get('kind') == 'CXXCtorInitializer']
    if len(inits) != 1:
        raise TranslateError('SolveResultRegistry(): expected one member initializer')
    body = [x for x in ctors[0]['inner'] if x.get('kind') == 'CompoundStmt']
    if not body or body[0].get('inner'):
        raise TranslateError('SolveResultRegistry(): constructor body is not empty')
    lists = find_all(inits[0], 'InitListExpr')
    if len(lists) != 1:
        raise TranslateError('SolveResultRegistry(): expected one initializer list, found %d' % len(lists))
    ents = []
    for e in lists[0].get('inner', []):
        if e.get('kind') != 'CXXConstructExpr' or 'RegEntry' not in e.get('type', {}).get('qualType', ''):
            raise TranslateError('registry entry of kind %s' % e.get('kind'))
        args = e.get('inner', [])
        ints, strs = [], []
        for a in args:
            lits = find_all(a, 'StringLiteral')
            if lits:
                if len(lits) != 1:
                    raise TranslateError('registry entry: description is not one literal')
                strs.append(c_string(lits[0]))
            else:
                ints.append(const_expr(a, known))
        if len(strs) != 1 or len(ints) not in (1, 2) or len(args) != len(ints) + 1:
            raise TranslateError('registry entry with %d ints / %d strings' % (len(ints), len(strs)))
        if len(ints) == 1:
            ints = ints * 2
        ents.append((ints[0][0], ints[1][0], strs[0]))
    if not ents:
        raise TranslateError('empty registry')
    return ents


# ------------------------------------------------------------------ ReportSolution2AMPL
class ReportTr:
    """Find every write of a format string containing `objective {}` in ReportSolution2AMPL and the
    conjunction of `if` conditions guarding it; find the HandleSolution call and its first argument."""

    def __init__(self):
        self.obj_writes = []     # list of guard lists
        self.handle = []         # (first arg text, guards)

    def cond(self, n):
        n = strip(n)
        k = n.get('kind')
        if k in ('CallExpr', 'CXXMemberCallExpr'):
            inner = n.get('inner', [])
            callee = strip(inner[0])
            nm = callee.get('name') or callee.get('member')
            base = strip(callee['inner'][0]) if callee.get('inner') else {}
            if len(inner) == 1 and callee.get('kind') == 'MemberExpr' and base.get('kind') == 'CXXThisExpr':
                if nm in PREDICATES:
                    return '%s a.code' % lean_name(nm)
                if nm == 'feasrelax':
                    return 'a.feasrelax'
                return None
            if len(inner) == 1 and nm == 'size' and self.is_objvals(base):
                return 'decide (a.nObj ≠ 0)'
            return None
        if k == 'BinaryOperator' and n.get('opcode') in ('>', '>=', '==', '!=', '<', '<='):
            l, r = strip(n['inner'][0]), strip(n['inner'][1])
            if l.get('kind') in ('CallExpr', 'CXXMemberCallExpr') and r.get('kind') == 'IntegerLiteral':
                callee = strip(l['inner'][0])
                nm = callee.get('name') or callee.get('member')
                if nm == 'size' and callee.get('inner') and self.is_objvals(strip(callee['inner'][0])):
                    lop = {'<': '<', '<=': '≤', '>': '>', '>=': '≥', '==': '=', '!=': '≠'}[n['opcode']]
                    return 'decide (a.nObj %s %s)' % (lop, r['value'])
            return None
        return None

    @staticmethod
    def is_objvals(b):
        nm = b.get('name') or b.get('member')
        return nm == 'objvals' and b.get('inner') and strip(b['inner'][0]).get('referencedDecl', {}).get('name') == 'sol'

    def walk(self, n, guards):
        k = n.get('kind')
        if k == 'IfStmt':
            inner = n['inner']
            c = self.cond(inner[0])
            ctext = c if c is not None else 'OPAQUE'
            self.walk(inner[0], guards)
            self.walk(inner[1], guards + [ctext])
            if len(inner) > 2:
                self.walk(inner[2], guards + ['(!%s)' % ctext])
            return
        if k in ('ForStmt', 'WhileStmt', 'DoStmt', 'CXXForRangeStmt', 'SwitchStmt', 'ConditionalOperator', 'CXXTryStmt'):
            for c in n.get('inner', []):
                if c:
                    self.walk(c, guards + ['LOOP'] if k != 'CXXTryStmt' else guards)
            return
        if k == 'StringLiteral' and 'objective {}' in n.get('value', ''):
            self.obj_writes.append(list(guards))
        if k in ('CallExpr', 'CXXMemberCallExpr') and n.get('inner'):
            callee = strip(n['inner'][0])
            nm = callee.get('name') or callee.get('member')
            if nm is None and callee.get('kind') == 'UnresolvedLookupExpr':
                nm = callee.get('name')
            if nm == 'HandleSolution':
                a0 = strip(n['inner'][1])
                txt = None
                if a0.get('kind') in ('CallExpr', 'CXXMemberCallExpr') and len(a0['inner']) == 1:
                    c2 = strip(a0['inner'][0])
                    if (c2.get('name') or c2.get('member')) == 'SolveCode':
                        txt = 'a.code'
                self.handle.append((txt, list(guards)))
        for c in n.get('inner', []) or []:
            if isinstance(c, dict):
                self.walk(c, guards)


def translate_report(repo, work):
    tu = os.path.join(work, 'backend_tu.cc')
    docs = [d for d in clang(tu, 'StdBackend::ReportSolution2AMPL', repo)
            if d.get('kind') == 'CXXMethodDecl' and any(x.get('kind') == 'CompoundStmt' for x in d.get('inner', []))]
    if len(docs) != 1:
        raise TranslateError('StdBackend::ReportSolution2AMPL: found %d definitions' % len(docs))
    rt = ReportTr()
    rt.walk([x for x in docs[0]['inner'] if x['kind'] == 'CompoundStmt'][0], [])
    if not rt.obj_writes:
        raise TranslateError('ReportSolution2AMPL no longer writes "objective {}"')
    for g in rt.obj_writes:
        if 'OPAQUE' in g or '(!OPAQUE)' in g or 'LOOP' in g:
            raise TranslateError('ReportSolution2AMPL: objective written under a condition the translator does not understand: %s' % g)
    if len(rt.handle) != 1:
        raise TranslateError('ReportSolution2AMPL: expected exactly one HandleSolution call, found %d' % len(rt.handle))
    a0, hg = rt.handle[0]
    if a0 is None:
        raise TranslateError('ReportSolution2AMPL: first argument of HandleSolution is not SolveCode()')
    if hg:
        raise TranslateError('ReportSolution2AMPL: HandleSolution is called conditionally: %s' % hg)
    return rt.obj_writes, a0



# ------------------------------------------------------------------ the chain that carries the code to the .sol writer
def callee_name(call):
    c = strip(call['inner'][0])
    return c.get('name') or c.get('member')


def translate_forward(docs, cls, method, callee, known):
    """`method` of `cls` must forward its first parameter as the first argument of exactly one call of
    `callee`.  Returns a Lean expression in `c` for the code that reaches the callee:
      5 arguments, first = first parameter  -> c
      4 arguments (deprecated overload SolutionHandler::HandleFeasibleSolution(msg,x,y,obj), which
                   substitutes sol::UNCERTAIN)  -> UNCERTAIN"""
    ds = [d for d in docs if d.get('kind') == 'CXXMethodDecl' and d.get('name') == method
          and any(x.get('kind') == 'CompoundStmt' for x in d.get('inner', []))]
    if len(ds) != 1:
        raise TranslateError('%s::%s: found %d definitions' % (cls, method, len(ds)))
    d = ds[0]
    params = [x['name'] for x in d['inner'] if x.get('kind') == 'ParmVarDecl']
    body = [x for x in d['inner'] if x.get('kind') == 'CompoundStmt'][0]
    calls = [c for k in ('CallExpr', 'CXXMemberCallExpr') for c in find_all(body, k) if c.get('inner') and callee_name(c) == callee]
    if len(calls) != 1:
        raise TranslateError('%s::%s: expected one call of %s, found %d' % (cls, method, callee, len(calls)))
    args = [strip(a) for a in calls[0]['inner'][1:]]
    if len(args) == 5:
        a0 = args[0]
        if a0.get('kind') == 'DeclRefExpr' and a0.get('referencedDecl', {}).get('kind') == 'ParmVarDecl' \
                and params and a0['referencedDecl'].get('name') == params[0]:
            return 'c'
        raise TranslateError('%s::%s: first argument of %s is not the first parameter' % (cls, method, callee))
    if len(args) == 4 and callee == 'HandleFeasibleSolution':
        if 'UNCERTAIN' not in known:
            raise TranslateError('deprecated overload used but sol::UNCERTAIN unknown')
        return 'UNCERTAIN'
    raise TranslateError('%s::%s: call of %s with %d arguments not understood' % (cls, method, callee, len(args)))


def translate_chain(repo, work, known):
    tu = os.path.join(work, 'backend_tu.cc')
    tu2 = os.path.join(work, 'modelmgr_tu.cc')
    open(tu2, 'w').write('#include "mp/model-mgr-with-pb.h"\n')
    # StdBackend::ReportIntermediateSolution: HandleFeasibleSolution(SolveCode(), ...)
    docs = [d for d in clang(tu, 'StdBackend::ReportIntermediateSolution', repo)
            if d.get('kind') == 'CXXMethodDecl' and any(x.get('kind') == 'CompoundStmt' for x in d.get('inner', []))]
    if len(docs) != 1:
        raise TranslateError('StdBackend::ReportIntermediateSolution: found %d definitions' % len(docs))
    body = [x for x in docs[0]['inner'] if x['kind'] == 'CompoundStmt'][0]
    calls = [c for k in ('CallExpr', 'CXXMemberCallExpr') for c in find_all(body, k) if c.get('inner') and callee_name(c) == 'HandleFeasibleSolution']
    if len(calls) != 1:
        raise TranslateError('ReportIntermediateSolution: expected one HandleFeasibleSolution call, found %d' % len(calls))
    a0 = strip(calls[0]['inner'][1])
    if not (a0.get('kind') in ('CallExpr', 'CXXMemberCallExpr') and len(a0['inner']) == 1 and callee_name(a0) == 'SolveCode'):
        raise TranslateError('ReportIntermediateSolution: first argument of HandleFeasibleSolution is not SolveCode()')
    hops = {}
    d1 = clang(tu, 'BackendWithModelManager::Handle', repo)
    hops['hopBackendFeasible'] = translate_forward(d1, 'BackendWithModelManager', 'HandleFeasibleSolution', 'HandleFeasibleSolution', known)
    hops['hopBackendFinal'] = translate_forward(d1, 'BackendWithModelManager', 'HandleSolution', 'HandleSolution', known)
    d2 = clang(tu2, 'ModelManagerWithProblemBuilder::Handle', repo)
    hops['hopModelMgrFeasible'] = translate_forward(d2, 'ModelManagerWithProblemBuilder', 'HandleFeasibleSolution', 'HandleFeasibleSolution', known)
    hops['hopModelMgrFinal'] = translate_forward(d2, 'ModelManagerWithProblemBuilder', 'HandleSolution', 'HandleSolution', known)
    return hops


# ------------------------------------------------------------------ output
def lean_str(s):
    return json.dumps(s, ensure_ascii=False)


def main(repo, out, work, inc=None):
    os.makedirs(work, exist_ok=True)
    enum, known = translate_enum(repo, work)
    preds = translate_predicates(repo, work, known)
    reg = translate_registry(repo, known)
    writes, harg = translate_report(repo, work)
    hops = translate_chain(repo, work, known)
    names = [n for n, _, _ in enum]
    o = ['/- GENERATED by translators/gen_status.py from include/mp/common.h (enum mp::sol::Status),',
         '   include/mp/backend-std.h (StdBackend::IsProblem*, ReportSolution2AMPL) and src/solver.cc',
         '   (SolveResultRegistry::SolveResultRegistry).  Do not edit: regenerated on every check run. -/',
         'import MpVerif.C10.Base',
         'namespace MpVerif.Gen.Status',
         'open MpVerif.C10',
         '',
         '/-! ## enumerators (the expression written in the source) -/']
    for n, s, cv in enum:
        o.append('def %s : Int := %s' % (n, s))
    o.append('')
    o.append('/-- (name, translated expression, value computed by clang) -/')
    o.append('def enumTable : List (String × Int × Int) := [')
    o.append(',\n'.join('  (%s, %s, %d)' % (lean_str(n), n, cv) for n, s, cv in enum))
    o.append(']')
    o.append('')
    o.append('/-! ## range predicates of StdBackend (argument = SolveCode()) -/')
    for p, body in preds:
        o.append('def %s (c : Int) : Bool := %s' % (lean_name(p), body))
    o.append('')
    o.append('/-- driver table -/')
    o.append('def predTable : List (String × (Int → Bool)) := [')
    o.append(',\n'.join('  (%s, %s)' % (lean_str(p), lean_name(p)) for p in PREDICATES))
    o.append(']')
    o.append('')
    o.append('/-! ## pre-registered solve result table (first, last, description) -/')
    o.append('def registry : List (Int × Int × String) := [')
    o.append(',\n'.join('  (%s, %s, %s)' % (a, b, lean_str(d)) for a, b, d in reg))
    o.append(']')
    o.append('')
    o.append('/-! ## ReportSolution2AMPL: the message gets "objective <value>" iff one of these guard conjunctions holds -/')
    disj = []
    for g in writes:
        disj.append('(' + ' && '.join(g) + ')' if g else 'true')
    o.append('def objectiveWritten (a : Answer) : Bool := ' + ' || '.join(disj))
    o.append('/-- first argument of the HandleSolution call -/')
    o.append('def codePassed (a : Answer) : Int := %s' % harg)
    o.append('')
    o.append('/-! ## the chain that carries a code to the .sol writer: StdBackend -> BackendWithModelManager ->')
    o.append('   ModelManagerWithProblemBuilder -> SolutionWriterImpl (each hop: the code it forwards, given the code `c` it got) -/')
    for h in ('hopBackendFinal', 'hopModelMgrFinal', 'hopBackendFeasible', 'hopModelMgrFeasible'):
        o.append('def %s (c : Int) : Int := %s' % (h, hops[h]))
    o.append('/-- code that reaches the writer of `<stub>.sol` (HandleSolution path) -/')
    o.append('def finalCodeWritten (a : Answer) : Int := hopModelMgrFinal (hopBackendFinal (codePassed a))')
    o.append('/-- code that reaches the writer of `<solstub>N.sol`: ReportIntermediateSolution passes SolveCode() -/')
    o.append('def altCodeWritten (a : Answer) : Int := hopModelMgrFeasible (hopBackendFeasible a.code)')
    o.append('')
    o.append('/-- unfold every generated definition (used by the proofs in MpVerif.C10) -/')
    allnames = names + [lean_name(p) for p, _ in preds] + ['objectiveWritten', 'codePassed', 'hopBackendFinal', 'hopModelMgrFinal', 'hopBackendFeasible', 'hopModelMgrFeasible', 'finalCodeWritten', 'altCodeWritten']
    o.append('macro "c10_unfold_gen" : tactic => `(tactic| simp only [' + ', '.join(allnames) +
             ', leB_iff, ltB_iff, geB_iff, gtB_iff, eqB_iff, neB_iff, leB_false, ltB_false, geB_false, gtB_false, eqB_false, neB_false, Bool.and_eq_true, Bool.or_eq_true, Bool.not_eq_true\', Bool.not_eq_false\', decide_eq_true_eq, decide_eq_false_iff_not, Bool.or_eq_false_iff, Bool.and_eq_false_imp, ge_iff_le, gt_iff_lt] at *)')
    o.append('')
    o.append('end MpVerif.Gen.Status')
    text = '\n'.join(o) + '\n'
    changed = write_if_changed(out, text)
    if inc:
        write_if_changed(inc, ''.join('X(%s)\n' % n for n in names))
    print('gen_status: %d enumerators, %d predicates, %d registry entries, %d objective writes; %s %s' %
          (len(enum), len(preds), len(reg), len(writes), out, 'rewritten' if changed else 'unchanged'))


def write_if_changed(path, text):
    os.makedirs(os.path.dirname(path), exist_ok=True)
    if os.path.exists(path) and open(path).read() == text:
        return False
    tmp = path + '.tmp%d' % os.getpid()
    open(tmp, 'w').write(text)
    os.replace(tmp, path)
    return True


if __name__ == '__main__':
    try:
        main(*sys.argv[1:5])
    except TranslateError as e:
        print('TRANSLATE-ERROR: %s' % e)
        sys.exit(3)
